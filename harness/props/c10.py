"""C10 — dimension views compute what numpy computes on the same values.

Model: Model/Views.v over Gen/GenViews.v (structure of ArrayView / SubFieldView / ScaledArrayView read from the AST of
laspy/point/dims.py), masks of Gen/GenDims.v, shift of Gen/GenFormatBits.v.
Correspondence (driver c10): operator routes against the running classes (a spy operand records which numpy operator is
asked and on which array); per (mask, operator, integer operand) the model's column over all 256 composed bytes against
real records of every format; scaled views: model's `view[ix]` (symbolic triples scale index / offset index / grid value,
evaluated in binary64 by the harness) against `np.array(view[ix])`, and the model's numpy indexing against numpy itself;
the model's max/min plan against view.max()/min().
Search (no model): every case is `E(view)` against `E(np.array(view))` — same values, same shape up to length-1 axes,
same kind of values (bool / integer / float); an expression that raises on both sides has no result.

Every case is a JSON-able pair (data, expr) interpreted by run_case, so a failing input replays exactly."""
import operator
import warnings

import numpy as np

from harness import common

DRIVER = "c10"
ASSUMPTIONS = [
    "index expressions are the forms of the property: integer (python / numpy of any integer dtype), slice, boolean mask, index "
    "sequence (list, python range of any sign of start / stop / step, integer array of any of the 8 integer dtypes with negative "
    "entries, nested lists / 2-d index arrays), Ellipsis, the same inside a 1-tuple or next to an Ellipsis, and for multi-element "
    "dimensions (.., j), (i, ..), (i, j), (rows, cols) with rows/cols any of these; None/newaxis and `v[i, j, ...]` are outside "
    "the property (coordinator's decision)",
    "a python number / sequence on the LEFT of an arithmetic operator (2 * v, [..] - v, 100 // v), the unary operators and the operators "
    "the views do not define (% ** & | ^ << >> @) raise TypeError on the unchanged views: no result, the property holds vacuously "
    "(counted under 'no result: view raises'); a comparison with the constant on the left is python's mirrored comparison of the view "
    "and is judged; whenever any of them returns a result it must be numpy's on np.array(view)",
    "augmented assignment: `v op= c` on a name bound to a view is judged by the value v has afterwards against the same statement on "
    "np.array(view), read as numpy's in-place operator or, where that differs or refuses (a float / wider result for an integer "
    "array), as the binary operator python falls back to for an object without in-place methods; `las.<dim> op= c` by the record's "
    "memory afterwards against the memory after assigning numpy's result",
    "scales are finite and non-zero, of either sign (the grid route of max/min is guarded by the sign test: C10_scaled_minmax)",
    "ordering and equality comparisons of scaled views are defined on the stored integer grid and excluded by the property",
    "indexing a one-element scaled view with a numpy integer returns a view object that cannot be materialised "
    "(np.array raises): counted as no result, as are expressions that raise on the view (reflected operands 1 + v, -v, v.sum())",
    "numpy resolves slices, masks and index lists to positions; the model receives the positions",
    "binary64 evaluation of (x * scale) + offset is numpy's; the model carries (scale index, offset index, x) symbolically",
    "a view handed over as a KEYWORD argument (where=view, out=view, weights=view, bins=view) is not converted by __array_ufunc__ / "
    "__array_function__ (positional arguments only): numpy dispatches on it again and the call ends in a RecursionError on the "
    "unchanged views — no result, counted separately; a mask computed FROM a view (where=las.return_number != 0) is a plain array",
    "without out=, the positions of a ufunc result where the where= mask is False are uninitialised in numpy itself: only the "
    "positions where the mask is True are compared then; with out= every position is compared (buffers are pre-filled with a "
    "non-zero pattern)",
    "numpy 2.x itself crashes (SIGSEGV) on a comparison ufunc of a uint8 array with an out-of-range python int when out= and "
    "where= are given (np.less(-1, a, out=o, where=m)): the keyword sweep keeps python ints within uint8",
]

OPS = ["lt", "le", "gt", "ge", "eq", "ne", "add", "sub", "mul", "truediv", "floordiv"]     # order of all_ops in Model/Views.v
SYM = {"lt": "<", "le": "<=", "gt": ">", "ge": ">=", "eq": "==", "ne": "!=", "add": "+", "sub": "-", "mul": "*",
       "truediv": "/", "floordiv": "//"}
CMP = OPS[:6]
ARITH = OPS[6:]
# operators the views do not define today (python raises TypeError: no result); part of the family so that a view that
# starts answering one of them is judged
EXTRA_BIN = ["mod", "pow", "and_", "or_", "xor", "lshift", "rshift", "matmul"]
SYM.update({"mod": "%", "pow": "**", "and_": "&", "or_": "|", "xor": "^", "lshift": "<<", "rshift": ">>", "matmul": "@"})
UNARY = {"neg": "-v", "pos": "+v", "abs": "abs(v)", "invert": "~v"}
INPLACE = ["iadd", "isub", "imul", "ifloordiv", "itruediv", "imod", "ipow", "iand", "ior", "ixor", "ilshift", "irshift"]
ISYM = {"iadd": "+=", "isub": "-=", "imul": "*=", "ifloordiv": "//=", "itruediv": "/=", "imod": "%=", "ipow": "**=", "iand": "&=",
        "ior": "|=", "ixor": "^=", "ilshift": "<<=", "irshift": ">>="}
IBIN = {"iadd": "add", "isub": "sub", "imul": "mul", "ifloordiv": "floordiv", "itruediv": "truediv", "imod": "mod", "ipow": "pow",
        "iand": "and_", "ior": "or_", "ixor": "xor", "ilshift": "lshift", "irshift": "rshift"}
INT_DTYPES = ["int8", "uint8", "int16", "uint16", "int32", "uint32", "int64", "uint64"]


# --------------------------------------------------------------------------------------------
# JSON-able specs -> python objects
# --------------------------------------------------------------------------------------------
def fhex(x):
    return float(x).hex()


def unfhex(s):
    return float.fromhex(s)


def _unhex_nested(l):
    return [_unhex_nested(q) if isinstance(q, list) else unfhex(q) if isinstance(q, str) else q for q in l]


def mk_operand(s, env, side):
    t = s[0]
    if t == "int":
        return int(s[1])
    if t == "np":
        return np.dtype(s[1]).type(int(s[2]))
    if t == "bool":
        return bool(s[1])
    if t == "npbool":
        return np.bool_(s[1])
    if t == "float":
        return unfhex(s[1])
    if t == "npfloat":
        return np.dtype(s[1]).type(unfhex(s[2]))
    if t == "arr":       # ["arr", dtype, shape, values]  (floats as hex strings)
        vals = [unfhex(v) if isinstance(v, str) else v for v in s[3]]
        return np.array(vals, dtype=s[1]).reshape(s[2])
    if t == "list":
        return _unhex_nested(s[1])
    if t == "tuple":
        return tuple(_unhex_nested(s[1]))
    if t == "self":
        return env["view"] if side == "view" else env["arr"]
    if t == "view":      # another dimension of the same record, the same object on both sides
        return env["las"][s[1]]
    if t == "none":
        return None
    if t == "str":
        return s[1]
    if t == "complex":
        return complex(s[1], s[2])
    raise ValueError(f"operand {s}")


def mk_index(s):
    t = s[0]
    if t == "int":
        return int(s[1])
    if t == "npint":
        return np.dtype(s[2] if len(s) > 2 else "int64").type(s[1])
    if t == "slice":
        return slice(s[1], s[2], s[3])
    if t == "mask":
        return np.array(s[1], dtype=bool)
    if t == "list":
        return list(s[1])
    if t == "nparr":         # ["nparr", entries (nested lists / one int: 0-d), dtype]
        return np.array(s[1], dtype=s[2] if len(s) > 2 else "int64")
    if t == "range":
        return range(s[1], s[2], s[3])       # always spelt with its three bounds
    if t == "ellipsis":
        return Ellipsis
    if t == "none":
        return None
    if t == "tuple":
        return tuple(mk_index(q) for q in s[1])
    raise ValueError(f"index {s}")


FUNCS = {
    "np.min": lambda x: np.min(x), "np.max": lambda x: np.max(x), "np.sum": lambda x: np.sum(x), "np.mean": lambda x: np.mean(x),
    "np.min0": lambda x: np.min(x, axis=0), "np.max0": lambda x: np.max(x, axis=0), "np.sum0": lambda x: np.sum(x, axis=0),
    "np.mean0": lambda x: np.mean(x, axis=0), "np.max1": lambda x: np.max(x, axis=1), "np.min-1": lambda x: np.min(x, axis=-1),
    "np.sum1": lambda x: np.sum(x, axis=1), "np.mean-1": lambda x: np.mean(x, axis=-1),
    "np.max_keepdims": lambda x: np.max(x, axis=0, keepdims=True), "np.sum_dtype": lambda x: np.sum(x, dtype=np.float64),
    "np.unique": lambda x: np.unique(x), "np.unique_counts": lambda x: np.unique(x, return_counts=True),
    "np.unique_inverse": lambda x: np.unique(x, return_inverse=True), "np.unique_index": lambda x: np.unique(x, return_index=True),
    "np.unique0": lambda x: np.unique(x, axis=0),
    "np.isin": lambda x, o: np.isin(x, o), "np.isin_r": lambda x, o: np.isin(o, x), "np.isin_invert": lambda x, o: np.isin(x, o, invert=True),
    "np.concatenate_self": lambda x: np.concatenate([x, x]), "np.concatenate_tuple": lambda x: np.concatenate((x, x, x)),
    "np.concatenate": lambda x, o: np.concatenate([x, o]), "np.concatenate_r": lambda x, o: np.concatenate((o, x)),
    "np.concatenate1": lambda x: np.concatenate([x, x], axis=-1),
    "np.where_eq": lambda x, o: np.where(x == o), "np.where_ne": lambda x, o: np.where(x != o),
    "np.where_lt": lambda x, o: np.where(x < o), "np.where_ge": lambda x, o: np.where(x >= o),
    "np.where3": lambda x, o: np.where(o, x, 0), "np.where3_r": lambda x, o: np.where(o, -1, x), "np.where_nz": lambda x: np.where(x),
    "np.where_self": lambda x, o: np.where(o, x, x),
    "max()": lambda x: x.max(), "min()": lambda x: x.min(), "max(0)": lambda x: x.max(0), "min(0)": lambda x: x.min(axis=0),
    "max(1)": lambda x: x.max(axis=1), "min(-1)": lambda x: x.min(axis=-1), "max(keepdims)": lambda x: x.max(axis=0, keepdims=True),
    "min(keepdims)": lambda x: x.min(keepdims=True), "max(initial)": lambda x: x.max(initial=3), "min(initial)": lambda x: x.min(initial=3),
    "max(initial f)": lambda x: x.max(initial=0.25), "min(initial f)": lambda x: x.min(initial=-1e300), "max(None)": lambda x: x.max(None),
    "max(where)": lambda x, o: x.max(where=o, initial=-100.0), "min(where)": lambda x, o: x.min(where=o, initial=1e12),
    "max(axis kw)": lambda x: x.max(axis=None), "min(out)": lambda x: x.min(out=None),
    "np.sort": lambda x: np.sort(x), "np.argmax": lambda x: np.argmax(x), "np.argmin": lambda x: np.argmin(x),
    "np.argsort": lambda x: np.argsort(x, kind="stable"), "np.count_nonzero": lambda x: np.count_nonzero(x),
    "np.add.reduce": lambda x: np.add.reduce(x), "np.maximum.reduce": lambda x: np.maximum.reduce(x),
    "np.minimum.accumulate": lambda x: np.minimum.accumulate(x), "np.add.outer": lambda x: np.add.outer(x, [1, 2]),
    "np.add": lambda x, o: np.add(x, o), "np.subtract": lambda x, o: np.subtract(x, o), "np.multiply": lambda x, o: np.multiply(x, o),
    "np.true_divide": lambda x, o: np.true_divide(x, o), "np.floor_divide": lambda x, o: np.floor_divide(x, o),
    "np.less": lambda x, o: np.less(x, o), "np.less_equal": lambda x, o: np.less_equal(x, o), "np.greater": lambda x, o: np.greater(x, o),
    "np.greater_equal": lambda x, o: np.greater_equal(x, o), "np.equal": lambda x, o: np.equal(x, o), "np.not_equal": lambda x, o: np.not_equal(x, o),
    "np.maximum": lambda x, o: np.maximum(x, o), "np.minimum_r": lambda x, o: np.minimum(o, x),
    "np.stack": lambda x: np.stack([x, x]), "np.vstack": lambda x: np.vstack([x, x]), "np.hstack": lambda x: np.hstack((x, x)),
    "np.cumsum": lambda x: np.cumsum(x), "np.nonzero": lambda x: np.nonzero(x), "np.any": lambda x: np.any(x), "np.all": lambda x: np.all(x),
    "np.median": lambda x: np.median(x), "np.ptp": lambda x: np.ptp(x), "np.std": lambda x: np.std(x),
    "np.array": lambda x: np.array(x), "np.asarray": lambda x: np.asarray(x), "np.copy": lambda x: np.copy(x), "copy()": lambda x: x.copy(),
    "np.array_f32": lambda x: np.array(x, dtype=np.float32), "np.asarray_f32": lambda x: np.asarray(x, dtype=np.float32),
    "np.asarray_f16": lambda x: np.asarray(x, dtype=np.float16), "np.array_f16": lambda x: np.array(x, dtype="float16"),
    "np.asarray_f32_order": lambda x: np.asarray(x, dtype="f4", order="C"), "np.asanyarray_f32": lambda x: np.asanyarray(x, dtype=np.float32),
    "np.array_f32_copy": lambda x: np.array(x, dtype=np.float32, copy=True), "np.ascontiguousarray_f16": lambda x: np.ascontiguousarray(x, dtype=np.float16),
    "np.require_f32": lambda x: np.require(x, dtype=np.float32), "f32[:] = v": lambda x: _assign_into(np.float32, x),
    "f16[:] = v": lambda x: _assign_into(np.float16, x), "np.asarray_longdouble": lambda x: np.asarray(x, dtype=np.longdouble),
    "np.asarray_i64": lambda x: np.asarray(x, dtype=np.int64), "np.asarray_c64": lambda x: np.asarray(x, dtype=np.complex64),
    "py.max": lambda x: max(x), "py.min": lambda x: min(x), "py.sum": lambda x: sum(x), "py.sorted": lambda x: sorted(x), "py.list": lambda x: list(x),
    "py.reversed": lambda x: list(reversed(x)), "py.in": lambda x, o: o in x, "py.enumerate": lambda x: [q for _, q in zip(range(3), x)],
    "py.any": lambda x: any(x), "py.all": lambda x: all(x), "py.tuple": lambda x: tuple(x), "py.iter_next": lambda x: next(iter(x)),
    "divmod": lambda x, o: divmod(x, o), "rdivmod": lambda x, o: divmod(o, x),
    "np.float32(v)": lambda x: np.float32(x), "np.fromiter_f32": lambda x: np.fromiter(x, dtype=np.float32),
    "list(map(float, v))": lambda x: [float(q) for q in x], "np.stack_f32": lambda x: np.stack([x, x], dtype=np.float32, casting="unsafe"),
    "len": lambda x: len(x), "shape": lambda x: list(x.shape), "np.shape": lambda x: list(np.shape(x)), "ndim": lambda x: x.ndim,
    "np.ravel": lambda x: np.ravel(x), "np.clip": lambda x: np.clip(x, 1, 3), "np.array_equal": lambda x, o: np.array_equal(x, o),
    "np.diff": lambda x: np.diff(x), "np.round": lambda x: np.round(x, 1), "np.floor": lambda x: np.floor(x), "np.abs": lambda x: np.abs(x),
    "np.histogram": lambda x: np.histogram(x, bins=4)[0], "np.percentile": lambda x: np.percentile(x, 50),
    "np.take": lambda x: np.take(x, [0, -1], axis=0), "np.flip": lambda x: np.flip(x), "np.transpose": lambda x: np.transpose(x),
    "np.isnan": lambda x: np.isnan(x), "np.searchsorted": lambda x: np.searchsorted(np.sort(x), 3),
    "np.mean_where": lambda x, o: np.mean(x, where=o), "np.sum_where": lambda x, o: np.sum(x, where=o),
    "np.select": lambda x, o: np.select([o], [x], default=-1), "np.compress": lambda x, o: np.compress(o, x, axis=0),
    "np.extract": lambda x, o: np.extract(o, x), "np.average": lambda x: np.average(x), "np.bincount": lambda x: np.bincount(x),
    "np.in1d_like": lambda x, o: np.isin(x, o, assume_unique=False), "np.max_out_tuple": lambda x: np.max(x, axis=None),
}


def _assign_into(dtype, x):
    """buf[:] = view for a buffer of a narrower floating type (the usual hand-over to plotting / GPU code)"""
    buf = np.full(np.shape(x), 7.5, dtype=dtype)
    buf[...] = x
    return buf


PY_BUILTINS = ["py.max", "py.min", "py.sum", "py.sorted", "py.list", "py.reversed", "py.enumerate", "py.any", "py.all", "py.tuple", "py.iter_next"]
CONVERSIONS = ["np.asarray_f32", "np.asarray_f16", "np.array_f16", "np.asarray_f32_order", "np.asanyarray_f32", "np.array_f32_copy",
               "np.ascontiguousarray_f16", "np.require_f32", "f32[:] = v", "f16[:] = v", "np.asarray_longdouble", "np.asarray_i64",
               "np.asarray_c64", "np.float32(v)", "np.fromiter_f32", "np.stack_f32"]


def apply_expr(e, x, env, side):
    t = e[0]
    if t == "op":
        return getattr(operator, e[1])(x, mk_operand(e[2], env, side))
    if t == "rop":       # a plain array / numpy scalar on the left
        return getattr(operator, e[1])(mk_operand(e[2], env, side), x)
    if t == "fn":
        return FUNCS[e[1]](x, *[mk_operand(o, env, side) for o in e[2:]])
    if t == "unary":
        return getattr(operator, e[1])(x)
    if t == "idx":
        return x[mk_index(e[1])]
    if t == "seq":
        for sub in e[1:]:
            x = apply_expr(sub, x, env, side)
        return x
    if t == "call":
        return apply_call(e, env, side)
    raise ValueError(f"expr {e}")


def expr_str(e):
    t = e[0]
    if t == "op":
        return f"v {SYM[e[1]]} {opnd_str(e[2])}"
    if t == "rop":
        return f"{opnd_str(e[2])} {SYM[e[1]]} v"
    if t == "unary":
        return UNARY[e[1]]
    if t == "iop":
        return f"v {ISYM[e[1]]} {opnd_str(e[2])}"
    if t == "iattr":
        return f"las.<dim> {ISYM[e[1]]} {opnd_str(e[2])}"
    if t == "fn":
        return e[1] + "(v" + "".join(", " + opnd_str(o) for o in e[2:]) + ")"
    if t == "idx":
        return f"v[{ix_str(e[1])}]"
    if t == "seq":
        return " |> ".join(expr_str(s) for s in e[1:])
    if t == "call":
        return e[1] + "(" + ", ".join([arg_str(a) for a in e[2]] + [f"{k}={arg_str(v)}" for k, v in sorted(e[3].items())]) + ")"
    return str(e)


def opnd_str(s):
    if s[0] == "arr":
        return f"array({s[1]}, shape={s[2]})"
    if s[0] == "np":
        return f"np.{s[1]}({s[2]})"
    if s[0] in ("float", "npfloat"):
        return f"{unfhex(s[-1])!r}" + (f":{s[1]}" if s[0] == "npfloat" else "")
    if s[0] in ("list", "tuple"):
        return f"{s[0]}(len {len(s[1])})"
    return ":".join(str(q) for q in s)[:40]


def ix_str(s):
    t = s[0]
    if t in ("int", "npint"):
        return (f"np.{s[2] if len(s) > 2 else 'int64'}(%d)" if t == "npint" else "%d") % s[1]
    if t == "slice":
        return ":".join("" if q is None else str(q) for q in s[1:4])
    if t == "mask":
        return "mask"
    if t == "list":
        return str(s[1])
    if t == "nparr":
        return f"array({s[1]}, {s[2] if len(s) > 2 else 'int64'})"
    if t == "range":
        return f"range({s[1]}, {s[2]}, {s[3]})"
    if t == "ellipsis":
        return "..."
    if t == "none":
        return "None"
    return "(" + ", ".join(ix_str(q) for q in s[1]) + ("," if len(s[1]) == 1 else "") + ")"


# --------------------------------------------------------------------------------------------
# calls: ["call", name, [argument specs], {keyword: argument spec}]
#   numpy callables (functions, ufuncs and their methods) applied to SEVERAL arguments, any of which may be a view — of
#   the record under test or of another record (data["others"]) — and to the optional keywords (out=, where=, dtype=,
#   casting=, axis=, initial= ...).  On the numpy side every view is replaced by np.array(view).
#   The value of a call is (what it returns, the contents of every buffer handed to it afterwards, which of the returned
#   arrays ARE the buffers given as out=): positions of out= that numpy leaves untouched must be left untouched.
# --------------------------------------------------------------------------------------------
def sentinel(dtype, shape, salt=0):
    """a buffer pre-filled with a recognisable pattern, never zeros"""
    shape = tuple(shape)
    i = np.arange(int(np.prod(shape)) if shape else 1)
    dt = np.dtype(dtype)
    if dt.kind == "b":
        a = (i + salt) % 3 != 1
    elif dt.kind in "iu":
        a = (i * 37 + 11 + salt) % 120 + 1
    elif dt.kind == "c":
        a = (1000.5 + 3.0 * (i % 300) + salt) + 2j
    else:
        a = 1000.5 + 3.0 * (i % 300) + salt
    return np.array(a).astype(dt).reshape(shape)


def rec_env(env, i):
    """the environment of record i: 0 = the record under test, k = data["others"][k - 1] (built on first use)"""
    if i == 0:
        return env
    recs = env.setdefault("recs", {})
    if i not in recs:
        recs[i] = build(env["data"]["others"][i - 1])
    return recs[i]


def mk_arg(s, env, side, bufs):
    t = s[0]
    if t == "rec":       # ["rec", record, dimension, index spec | None]: a fresh handle; np.array(handle) on the numpy side
        v = rec_env(env, s[1])["las"][s[2]]
        if len(s) > 3 and s[3] is not None:
            v = v[mk_index(s[3])]
        if side == "view" or not is_view(v):
            return v
        return np.array(v)
    if t == "fill":      # ["fill", dtype, shape, salt]: a buffer whose contents after the call are part of the result
        b = sentinel(s[1], s[2], s[3] if len(s) > 3 else 0)
        bufs.append(b)
        return b
    if t == "outrec":    # a view handed over as a buffer: its values after the call are part of the result
        v = mk_arg(["rec"] + list(s[1:]), env, side, bufs)
        bufs.append(v)
        return v
    if t == "lst":
        return [mk_arg(q, env, side, bufs) for q in s[1]]
    if t == "tup":
        return tuple(mk_arg(q, env, side, bufs) for q in s[1])
    if t == "cmp":       # ["cmp", operator, argument, operand]: e.g. where=las.return_number != 0
        return getattr(operator, s[1])(mk_arg(s[2], env, side, bufs), mk_arg(s[3], env, side, bufs))
    if t == "sorted":
        return np.sort(mk_arg(s[1], env, side, bufs))
    if t == "dtype":
        return np.dtype(s[1])
    if t == "lit":
        return s[1]
    return mk_operand(s, env, side)


def arg_str(s):
    t = s[0]
    if t in ("rec", "outrec"):
        r = f"las{s[1] or ''}.{s[2]}" + (f"[{ix_str(s[3])}]" if len(s) > 3 and s[3] is not None else "")
        return r
    if t == "fill":
        return f"buffer({s[1]}, shape={s[2]})"
    if t in ("lst", "tup"):
        inner = ", ".join(arg_str(q) for q in s[1])
        return "[" + inner + "]" if t == "lst" else "(" + inner + ("," if len(s[1]) == 1 else "") + ")"
    if t == "cmp":
        return f"{arg_str(s[2])} {SYM[s[1]]} {arg_str(s[3])}"
    if t == "sorted":
        return f"np.sort({arg_str(s[1])})"
    if t == "dtype":
        return f"np.{s[1]}"
    if t == "lit":
        return repr(s[1])
    if t == "self":
        return "v"
    if t == "arr" and s[1] == "bool":
        return "mask"
    return opnd_str(s)


CALL_SPECIAL = {
    "np.r_": lambda *a: np.r_[tuple(a)], "np.c_": lambda *a: np.c_[tuple(a)],
    "operator.add": operator.add, "operator.sub": operator.sub, "operator.mul": operator.mul, "operator.truediv": operator.truediv,
    "operator.floordiv": operator.floordiv, "operator.lt": operator.lt, "operator.le": operator.le, "operator.eq": operator.eq,
    "operator.ne": operator.ne, "operator.ge": operator.ge, "operator.gt": operator.gt,
    "method.max": lambda x, *a, **k: x.max(*a, **k), "method.min": lambda x, *a, **k: x.min(*a, **k),
    "operator.iadd": operator.iadd, "operator.isub": operator.isub, "operator.imul": operator.imul, "operator.itruediv": operator.itruediv,
    "operator.ifloordiv": operator.ifloordiv, "operator.imod": operator.imod,
}


def np_callable(name):
    if name in CALL_SPECIAL:
        return CALL_SPECIAL[name]
    parts = name.split(".")
    if parts[0] != "np":
        raise ValueError(name)
    obj = np
    for q in parts[1:]:
        obj = getattr(obj, q)
    return obj


def only_written(q, where):
    """without out=, positions where the mask is False are uninitialised in numpy itself: only the others are compared"""
    try:
        return np.where(np.broadcast_to(np.asarray(where, dtype=bool), np.shape(q)), q, np.zeros((), dtype=np.asarray(q).dtype))
    except Exception:
        return q


def has_view(s):
    """a view handed over as such (not through a comparison / np.sort, which give plain arrays)"""
    t = s[0]
    if t in ("rec", "outrec", "self", "view"):
        return True
    if t in ("lst", "tup"):
        return any(has_view(q) for q in s[1])
    return False


def keyword_views(e):
    """a view as a KEYWORD argument (where=, out=, weights=, bins= ...): the two protocols convert the positional arguments only,
    numpy dispatches again on the keyword and the call ends in a RecursionError on the unchanged views: no result"""
    return e[0] == "call" and any(has_view(v) for v in e[3].values())


def apply_call(e, env, side):
    _, name, args, kw = e
    bufs = []
    f = np_callable(name)
    a = [mk_arg(s, env, side, bufs) for s in args]
    k = {key: mk_arg(kw[key], env, side, bufs) for key in sorted(kw)}
    r = f(*a, **k)
    outs = k.get("out")
    outs = tuple(o for o in (outs if isinstance(outs, tuple) else (outs,)) if o is not None)
    rets = r if isinstance(r, tuple) else (r,)
    is_out = [any(q is o for o in outs) for q in rets]
    if "where" in k and isinstance(f, np.ufunc):
        rets = tuple(q if io else only_written(q, k["where"]) for q, io in zip(rets, is_out))
        r = rets if isinstance(r, tuple) else rets[0]
    return (r, tuple(bufs), [bool(q) for q in is_out])


# --------------------------------------------------------------------------------------------
# data specs -> records and views
# --------------------------------------------------------------------------------------------
def sub_fields():
    import laspy.point.dims as dims
    out = []
    for fmt in sorted(dims.POINT_FORMAT_DIMENSIONS.keys()):
        for composed, subs in dims.COMPOSED_FIELDS[fmt].items():
            for sf in subs:
                out.append((fmt, sf.name, composed, int(sf.mask)))
    return out


def lsb_of(m):
    return (m & -m).bit_length() - 1


def build(data):
    """-> env: las (LasData), get() -> a fresh handle on the view under test, raw() -> its current values computed by the
    harness from the record's memory"""
    import laspy
    import laspy.point.dims as pdims
    if data["kind"] == "subfield":
        fmt, name = data["format"], data["field"]
        composed, mask = [(c, m) for f, n, c, m in sub_fields() if f == fmt and n == name][0]
        if "pattern" in data:        # ["pattern", n, a, b]: byte i is (i * a + i // 256 * 7 + i // 65536 * 3 + b) % 256 (large records, not spelt out in the replay)
            _, n_, pa, pb = data["pattern"]
            i_ = np.arange(n_, dtype=np.int64)       # no period of 256 or 65536: positions that differ by a wrap hold different bytes
            col = ((i_ * pa + (i_ // 256) * 7 + (i_ // 65536) * 3 + pb) % 256).astype(np.uint8)
        else:
            col = np.frombuffer(bytes.fromhex(data["bytes"]), dtype=np.uint8)
        n = len(col)
        hdr = laspy.LasHeader(point_format=fmt, version=pdims.preferred_file_version_for_point_format(fmt))
        las = laspy.LasData(hdr)
        rec = laspy.PackedPointRecord.zeros(n, hdr.point_format)
        size = rec.array.dtype.itemsize
        # byte i of the record's memory is (i * 37 + 11) % 251 (period 251)
        rec.array = np.resize(((np.arange(251, dtype=np.int64) * 37 + 11) % 251).astype(np.uint8), n * size).view(rec.array.dtype).copy()
        rec.array[composed] = col
        las.points = rec
        lsb = lsb_of(mask)
        via = data.get("via", "item")
        get = {"item": lambda: las[name], "attr": lambda: getattr(las, name), "record": lambda: las.points[name]}[via]
        return {"las": las, "get": get, "raw": lambda: (las.points.array[composed] & mask) >> lsb, "composed": composed, "mask": mask,
                "name": name, "kind": "subfield", "data": data}
    if data["kind"] == "scaled":
        fmt = data["format"]
        hdr = laspy.LasHeader(point_format=fmt, version=pdims.preferred_file_version_for_point_format(fmt))
        hdr.scales = np.array([unfhex(s) for s in data["scales"]])
        hdr.offsets = np.array([unfhex(s) for s in data["offsets"]])
        ex = data.get("extra")
        if ex:
            hdr.add_extra_dim(laspy.ExtraBytesParams(ex["name"], ex["type"], scales=np.array([unfhex(s) for s in ex["scales"]]),
                                                     offsets=np.array([unfhex(s) for s in ex["offsets"]])))
        las = laspy.LasData(hdr)
        xyz = data["xyz"]
        if xyz and xyz[0] == "pattern":      # ["pattern", n, a, b]: X[i] = (i * a + b) wrapped to int32, Y and Z shifted
            _, n_, pa, pb = xyz
            base = np.arange(n_, dtype=np.int64) * pa + pb
            xyz = [base, base * 3 + 1, base * 5 + 2]
        n = len(xyz[0])
        rec = laspy.ScaleAwarePointRecord.zeros(n, header=hdr)
        if data.get("noise") is not None:    # the other dimensions (bit fields, classification, intensity ...) hold non-trivial values
            size = rec.array.dtype.itemsize
            rec.array = np.resize(((np.arange(251, dtype=np.int64) * 37 + 11 + data["noise"]) % 251).astype(np.uint8), n * size).view(rec.array.dtype).copy()
        for nm, vals in zip("XYZ", xyz):
            rec.array[nm] = np.array(vals, dtype=np.int64).astype(np.int32)
        if ex:
            dt = rec.array.dtype[ex["name"]]
            g = np.array(ex["grid"], dtype=object).reshape((n,) + dt.shape)
            rec.array[ex["name"]] = g.astype(dt.base)
        las.points = rec
        dim = data["dim"]
        via = data.get("via", "item")
        get = {"item": lambda: las[dim], "attr": lambda: getattr(las, dim), "record": lambda: las.points[dim]}[via]
        if dim in ("x", "y", "z"):
            i = "xyz".index(dim)
            sc, of = hdr.scales[i], hdr.offsets[i]
            raw = lambda: (las.points.array[dim.upper()] * sc) + of      # noqa: E731
            grid = lambda: las.points.array[dim.upper()]                  # noqa: E731
            svec, ovec = [float(sc)], [float(of)]
        else:
            sc = np.array([unfhex(s) for s in ex["scales"]])
            of = np.array([unfhex(s) for s in ex["offsets"]])
            raw = lambda: (las.points.array[dim] * sc) + of               # noqa: E731
            grid = lambda: las.points.array[dim]                          # noqa: E731
            svec, ovec = list(sc), list(of)
        return {"las": las, "get": get, "raw": raw, "grid": grid, "name": dim, "kind": "scaled", "svec": svec, "ovec": ovec, "data": data}
    raise ValueError(data["kind"])


# --------------------------------------------------------------------------------------------
# evaluation and comparison
# --------------------------------------------------------------------------------------------
def is_view(r):
    import laspy.point.dims as dims
    return isinstance(r, dims.ArrayView)


def freeze(r):
    """results are compared as plain arrays; a view result is materialised the way a user would (np.array)"""
    if is_view(r):
        return np.array(r)
    if isinstance(r, tuple):
        return tuple(freeze(q) for q in r)
    if isinstance(r, list) and any(is_view(q) or isinstance(q, np.ndarray) for q in r):
        return tuple(freeze(q) for q in r)
    return r


def ev(f):
    try:
        r = f()
    except Exception as ex:
        return ("err", common.exc_kind(ex), str(ex)[:80])
    try:
        return ("ok", freeze(r))
    except Exception as ex:
        return ("unmat", common.exc_kind(ex), str(ex)[:80])


def kind_class(a):
    k = a.dtype.kind
    return "i" if k in "iu" else k


def squeeze_shape(a):
    return tuple(d for d in a.shape if d != 1)


def same_value(x, y):
    """same values, same shape up to length-1 axes, same kind of values"""
    if isinstance(x, tuple) or isinstance(y, tuple):
        return isinstance(x, tuple) and isinstance(y, tuple) and len(x) == len(y) and all(same_value(p, q) for p, q in zip(x, y))
    if x is None or y is None or isinstance(x, str) or isinstance(y, str):
        return type(x) is type(y) and x == y
    ax, ay = np.asarray(x), np.asarray(y)
    if kind_class(ax) != kind_class(ay) or squeeze_shape(ax) != squeeze_shape(ay):
        return False
    k = kind_class(ax)
    if k == "f":
        bx = np.ascontiguousarray(ax, dtype=np.float64).ravel() + 0.0
        by = np.ascontiguousarray(ay, dtype=np.float64).ravel() + 0.0
        nx, ny = np.isnan(bx), np.isnan(by)
        return bool(np.array_equal(nx, ny) and np.array_equal(bx[~nx].view(np.uint64), by[~ny].view(np.uint64)))
    if k in "bi":
        if ax.dtype == ay.dtype:
            return bool(np.array_equal(ax.ravel(), ay.ravel()))
        return ax.ravel().tolist() == ay.ravel().tolist()
    if k == "c":
        return bool(np.array_equal(ax.ravel(), ay.ravel(), equal_nan=True))
    return ax.ravel().tolist() == ay.ravel().tolist()


def describe(r):
    if r[0] != "ok":
        return f"{r[0]}:{r[1]} {r[2]}"
    v = r[1]
    if isinstance(v, tuple):
        return "(" + ", ".join(describe(("ok", q)) for q in v) + ")"
    a = np.asarray(v)
    return f"{a.dtype}{list(a.shape)} {np.array2string(a.ravel()[:12], separator=',', threshold=12)}"[:160]


def first_difference(x, y, path=""):
    """where two results differ (a position of an array, a component of a tuple)"""
    try:
        if isinstance(x, (tuple, list)) and isinstance(y, (tuple, list)) and len(x) == len(y):
            for i, (p, q) in enumerate(zip(x, y)):
                if not same_value(p, q):
                    return first_difference(p, q, f"{path}[{i}]")
            return ""
        ax, ay = np.asarray(x), np.asarray(y)
        where = f"component {path} of the result: " if path else ""
        if squeeze_shape(ax) != squeeze_shape(ay) or kind_class(ax) != kind_class(ay):
            return f"{where}{ax.dtype}{list(ax.shape)} against {ay.dtype}{list(ay.shape)}; "
        fx, fy = ax.ravel(), ay.ravel()
        if kind_class(ax) in "fc":
            ne = ~((fx == fy) | (np.isnan(fx) & np.isnan(fy)))
            ne |= (np.signbit(fx.real) != np.signbit(fy.real)) & (fx == 0)
        else:
            ne = fx != fy
        bad = np.flatnonzero(ne)
        if len(bad):
            i = int(bad[0])
            return f"{where}{len(bad)} of {len(fx)} positions differ, first at {i}: view {fx[i]!r}, numpy {fy[i]!r}; "
    except Exception:
        pass
    return ""


def _access(env):
    """(read, write) of the dimension under test through the access path of the data (las[name] / las.name / las.points[name])"""
    las, name, via = env["las"], env["name"], env["data"].get("via", "item")
    if via == "attr":
        return (lambda: getattr(las, name)), (lambda val: setattr(las, name, val))
    if via == "record":
        return (lambda: las.points[name]), (lambda val: las.points.__setitem__(name, val))
    return (lambda: las[name]), (lambda val: las.__setitem__(name, val))


def run_inplace(data, expr):
    """augmented assignments.  ["iop", op, c]: `v = <view>; v op= c` - the value v is bound to afterwards; ["iattr", op, c]:
    `las.<dim> op= c` (python: las.<dim> = las.<dim>.__iop__(c), or = las.<dim> op c when the view has no in-place method) -
    the record's memory afterwards.  The same statement on the materialised array has two readings, numpy's in-place operator
    (keeps the dtype of the array, refuses float results for integer arrays) and the binary operator python falls back to when
    an object defines no in-place method; where both return a result and differ (np.int64 operand on a uint8 field: the
    wrapped uint8 against int64), either is accepted.  A result that is neither is a failing input; so is a record modified by
    `v op= c` otherwise than to the values v then has."""
    kind, op, c = expr
    env = build(data)
    v = env["get"]()
    env["view"], env["arr"] = v, np.array(v)
    mem0 = env["las"].points.array.tobytes()
    iop, bop = getattr(operator, op), getattr(operator, IBIN[op])

    def readings(e):
        a = np.array(e["get"]())
        e["view"], e["arr"] = e["get"](), a
        a1 = a.copy()
        return [("numpy's in-place operator", ev(lambda: iop(a1, mk_operand(c, e, "np")))),
                ("the binary operator", ev(lambda: bop(a, mk_operand(c, e, "np"))))]
    if kind == "iop":
        rv = ev(lambda: iop(v, mk_operand(c, env, "view")))
        mem1 = env["las"].points.array.tobytes()
        refs = readings(build(data))
        ok = [r for _, r in refs if r[0] == "ok"]
        if rv[0] == "ok":
            if mem1 != mem0:
                now = ev(lambda: np.array(env["get"]()))
                if now[0] != "ok" or not same_value(now[1], rv[1]):
                    return "differs", (f"{expr_str(expr)}: the record was modified and now holds {describe(now)}, v is {describe(rv)}")
            if not ok:
                return "npraises", f"{expr_str(expr)}: view gives {describe(rv)}, numpy on np.array(view) raises {refs[0][1][1]} / {refs[1][1][1]}"
            if any(same_value(rv[1], r[1]) for r in ok):
                return "same", None
            return "differs", (f"{expr_str(expr)}: {first_difference(rv[1], ok[-1][1])}view gives {describe(rv)}, on np.array(view) "
                               + ", ".join(f"{nm} gives {describe(r)}" for nm, r in refs))
        if rv[0] == "unmat":
            return "unmat", f"{expr_str(expr)}: result of the view cannot be materialised ({rv[1]} {rv[2]})"
        if len(ok) == len(refs):
            return "viewraises", f"{expr_str(expr)}: view raises {rv[1]} ({rv[2]}), numpy gives {describe(ok[-1])}"
        return "noresult", None
    # iattr
    rd, wr = _access(env)

    def stmt():
        wr(iop(rd(), mk_operand(c, env, "view")))
        return np.frombuffer(env["las"].points.array.tobytes(), dtype=np.uint8)
    rv = ev(stmt)
    outs = []
    for nm, r in readings(build(data)):
        if r[0] != "ok":
            outs.append((nm, r))
            continue
        e3 = build(data)
        _, wr3 = _access(e3)

        def store(r=r, e3=e3, wr3=wr3):
            wr3(r[1])
            return np.frombuffer(e3["las"].points.array.tobytes(), dtype=np.uint8)
        outs.append((nm, ev(store)))
    ok = [r for _, r in outs if r[0] == "ok"]
    if rv[0] == "ok":
        if not ok:
            return "npraises", (f"{expr_str(expr)} on {env['name']}: the record is modified, assigning numpy's result raises "
                                f"{outs[0][1][1]} / {outs[1][1][1]}")
        if any(np.array_equal(rv[1], r[1]) for r in ok):
            return "same", None
        diff = np.flatnonzero(rv[1] != ok[-1][1]) if len(rv[1]) == len(ok[-1][1]) else []
        return "differs", (f"{expr_str(expr)} on {env['name']}: the record's memory afterwards differs from the memory after assigning what "
                           f"numpy computes on np.array(view) ({len(diff)} bytes, first at {int(diff[0]) if len(diff) else '?'})")
    if len(ok) == len(outs):
        return "viewraises", f"{expr_str(expr)} on {env['name']}: raises {rv[1]} ({rv[2]}), assigning numpy's result is accepted"
    return "noresult", None


def run_case(data, expr, env=None):
    """-> (verdict, detail); verdict: same | noresult (both raise) | viewraises | unmat | differs | npraises"""
    if expr[0] in ("iop", "iattr"):
        return run_inplace(data, expr)
    env = env or build(data)
    v = env["get"]()
    env["view"] = v
    env["arr"] = a = np.array(v)
    rv = ev(lambda: apply_expr(expr, v, env, "view"))
    ra = ev(lambda: apply_expr(expr, a, env, "np"))
    if rv[0] == "ok" and ra[0] == "ok":
        if same_value(rv[1], ra[1]):
            return "same", None
        return "differs", f"{expr_str(expr)}: {first_difference(rv[1], ra[1])}view gives {describe(rv)}, numpy on np.array(view) gives {describe(ra)}"
    if rv[0] == "ok":
        return "npraises", f"{expr_str(expr)}: view gives {describe(rv)}, numpy on np.array(view) raises {ra[1]} ({ra[2]})"
    if rv[0] == "unmat":
        return "unmat", f"{expr_str(expr)}: result of the view cannot be materialised ({rv[1]} {rv[2]}); numpy: {describe(ra)}"
    if ra[0] == "ok":
        return "viewraises", f"{expr_str(expr)}: view raises {rv[1]} ({rv[2]}), numpy gives {describe(ra)}"
    return "noresult", None


# --------------------------------------------------------------------------------------------
# generators
# --------------------------------------------------------------------------------------------
def py_int_operands(mask):
    lsb = lsb_of(mask)
    maxv = mask >> lsb
    s = {-2 ** 70, -2 ** 64, -2 ** 63 - 1, -2 ** 63, -2 ** 31 - 1, -2 ** 31, -257, -256, -255, -129, -128, -127, -2, -1, 0, 1, 2, 3,
         maxv - 1, maxv, maxv + 1, maxv + 2, 2 * maxv + 1, 7, 8, 15, 16, 31, 32, 33, 127, 128, 129, 255, 256, 257, 2 ** 15, 2 ** 16,
         2 ** 31 - 1, 2 ** 31, 2 ** 32, 2 ** 63 - 1, 2 ** 63, 2 ** 64 - 1, 2 ** 64, 2 ** 70}
    for w in (8, 16, 32, 64):        # constants whose shift by lsb wraps to an in-range value in w bits
        for base in (2 ** w >> lsb, 2 ** (w - 1) >> lsb):
            s |= {base, base + 1, base + maxv}
    return sorted(s)


def np_int_operands(mask):
    lsb = lsb_of(mask)
    maxv = mask >> lsb
    out = []
    for dt in INT_DTYPES:
        info = np.iinfo(dt)
        c = {0, 1, maxv, maxv + 1, int(info.max), int(info.min), int(info.max) >> lsb, (int(info.max) >> lsb) + 1,
             (2 ** info.bits >> lsb) + 1, (2 ** (info.bits - 1) >> lsb), (2 ** (info.bits - 1) >> lsb) + maxv, -1, -maxv}
        out += [(dt, v) for v in sorted(c) if info.min <= v <= info.max]
    return out


def operand_class(s, mask=None):
    t = s[0]
    if t == "int":
        v = int(s[1])
        if mask is not None:
            maxv = mask >> lsb_of(mask)
            return "python int negative" if v < 0 else "python int above max" if v > maxv else "python int in range"
        return "python int"
    if t == "np":
        return f"numpy {s[1]}"
    if t in ("bool", "npbool"):
        return "bool"
    if t in ("float", "npfloat"):
        return "float"
    if t == "arr":
        return f"array {np.dtype(s[1]).kind}"
    return {"list": "list", "self": "same view", "view": "other view"}.get(t, "other")


def other_operands(n, mask_or_none, rng, names):
    """floats, bools, arrays, lists, views, junk"""
    maxv = (mask_or_none >> lsb_of(mask_or_none)) if mask_or_none else 7
    out = [["bool", True], ["bool", False], ["npbool", True], ["npbool", False]]
    out += [["float", fhex(x)] for x in (0.0, 0.5, 1.0, float(maxv), maxv + 0.5, -0.5, 2.0 ** 70, float("nan"), float("inf"), float("-inf"))]
    # non-integral constants on both sides of every value of the field, of both signs, tiny, next to the byte's range
    out += [["float", fhex(x)] for x in sorted({1.5, 2.5, maxv - 0.5, maxv + 0.25, -1.5, 0.999, 1e-300, -1e-300, 254.5, 255.5, 256.5, (maxv + 1) / 2 + 0.5})]
    out += [["npfloat", "float32", fhex(1.5)], ["npfloat", "float16", fhex(2.0)], ["npfloat", "float64", fhex(float(maxv))],
            ["npfloat", "float64", fhex(2.5)], ["npfloat", "float32", fhex(-0.5)], ["npfloat", "float16", fhex(0.5)], ["npfloat", "float64", fhex(maxv + 0.5)]]
    ints = [(i * 7 + 3) % (maxv + 2) for i in range(n)]
    out += [["arr", "int64", [n], ints], ["arr", "uint8", [n], ints], ["arr", "int8", [n], [v - 1 for v in ints]],
            ["arr", "uint64", [n], [v + (2 ** 63 if i % 5 == 0 else 0) for i, v in enumerate(ints)]],
            ["arr", "float64", [n], [fhex(v + (0.5 if i % 3 == 0 else 0.0)) for i, v in enumerate(ints)]],
            ["arr", "bool", [n], [bool(v & 1) for v in ints]], ["arr", "int64", [], [3]], ["arr", "int64", [1], [1]],
            ["arr", "int64", [2, n], ints + ints[::-1]], ["arr", "int64", [3], [1, 2, 3]], ["list", ints], ["self"],
            ["none"], ["str", "a"], ["complex", 1.0, 2.0]]
    for nm in names[:2]:
        out.append(["view", nm])
    return out


def rand_range(rng, n):
    """a python range whose bounds take every sign: ascending / descending, bounds counted from the end, down to and including 0"""
    a = rng.choice([0, 1, n - 1, n, -1, -n, -(n // 2) - 1, rng.randrange(-n - 1, n + 2)])
    b = rng.choice([0, 1, n - 1, n, -1, -n, -n - 1, -(n // 2) - 1, rng.randrange(-n - 2, n + 3)])
    c = rng.choice([1, 1, 2, 3, -1, -1, -2, -3, n + 1])
    return ["range", a, b, c]


def rand_index_array(rng, n, k=None):
    """an integer index array of any of the 8 integer dtypes, negative entries for the signed ones"""
    dt = rng.choice(INT_DTYPES + ["intp"])
    k = rng.choice([0, 1, 3]) if k is None else k
    lo = 0 if dt.startswith("u") else -n
    return ["nparr", [rng.randrange(lo, n) if n else 0 for _ in range(k)], dt]


def rand_index_1d(rng, n):
    r = rng.random()
    if r < 0.15:
        return ["int", rng.choice([0, -1, n - 1, -n, n, -n - 1, rng.randrange(-n - 1, n + 2)])], "int"
    if r < 0.20:
        dt = rng.choice(["int64", "uint8", "int32", "intp", "int8", "uint64"])
        return ["npint", rng.choice([0, n - 1, -1, rng.randrange(-n, n + 1)] if not dt.startswith("u") else [0, n - 1, n, rng.randrange(0, n + 1)]), dt], "numpy int"
    if r < 0.40:
        a = rng.choice([None, 0, 1, -1, n, -n, rng.randrange(-n - 2, n + 3)])
        b = rng.choice([None, 0, 1, -1, n, -n, rng.randrange(-n - 2, n + 3)])
        c = rng.choice([None, 1, 2, 3, -1, -2, n + 1])
        return ["slice", a, b, c], "slice"
    if r < 0.55:
        return ["mask", [rng.random() < rng.choice([0.0, 0.5, 0.5, 1.0]) for _ in range(n)]], "mask"
    if r < 0.67:
        k = rng.choice([0, 1, 2, 5])
        return ["list", [rng.randrange(-n, n) if n else 0 for _ in range(k)]], "index list"
    if r < 0.77:
        return rand_index_array(rng, n), "index array"
    if r < 0.88:
        return rand_range(rng, n), "range"
    if r < 0.92:     # the same forms inside a 1-tuple, an Ellipsis next to them
        inner = rng.choice([["slice", rng.choice([None, 1]), rng.choice([None, -1, n]), rng.choice([None, -1, 2])], rand_range(rng, n),
                            ["list", [rng.randrange(-n, n) if n else 0 for _ in range(rng.choice([0, 2]))]], rand_index_array(rng, n)])
        return ["tuple", rng.choice([[inner], [inner, ["ellipsis"]], [["ellipsis"], inner]])], "tuple"
    if r < 0.95:     # nested index lists / 2-d index arrays: one more axis in the result
        rows = [[rng.randrange(-n, n) if n else 0 for _ in range(2)] for _ in range(rng.choice([1, 2]))]
        return rng.choice([["list", rows], ["nparr", rows, rng.choice(INT_DTYPES[::2] + ["int64"])]]), "nested index list"
    if r < 0.97:
        return rng.choice([["ellipsis"], ["tuple", []], ["tuple", [["ellipsis"]]]]), "ellipsis"
    return ["slice", None, None, None], "slice"


def rand_axis(rng, n, allow_mask):
    """one axis of a (rows, cols) pair: int, numpy int, slice, list, range, index array or mask"""
    r = rng.random()
    if r < 0.25:
        return ["int", rng.choice([0, -1, n - 1, rng.randrange(-n, n) if n else 0, n])], "int"
    if r < 0.30:
        dt = rng.choice(["int64", "uint8", "int16", "intp"])
        return ["npint", rng.choice([0, n - 1, -1] if not dt.startswith("u") else [0, n - 1, max(n - 2, 0)]), dt], "numpy int"
    if r < 0.52:
        return ["slice", rng.choice([None, 0, 1, -1, rng.randrange(-n - 1, n + 2)]), rng.choice([None, n, -1, rng.randrange(-n - 1, n + 2)]),
                rng.choice([None, 1, -1, 2, -2])], "slice"
    if r < 0.62:
        return rand_range(rng, n), "range"
    if r < 0.70:
        return rand_index_array(rng, n, rng.choice([0, 1, 2, 3])), "index array"
    if r < 0.87 or not allow_mask:
        k = rng.choice([0, 1, 2, 3])
        return ["list", [rng.randrange(-n, n) if n else 0 for _ in range(k)]], "list"
    return ["mask", [rng.random() < 0.5 for _ in range(n)]], "mask"


def rand_index_2d(rng, n, k):
    """index forms of the property on a (n, k) view"""
    r = rng.random()
    if r < 0.3:
        ix, cls = rand_index_1d(rng, n)
        return ix, cls
    if r < 0.42:
        j, _ = rand_axis(rng, k, False)
        return ["tuple", [["ellipsis"], j]], "(.., " + _ + ")"
    if r < 0.52:
        i, c = rand_axis(rng, n, True)
        return ["tuple", [i, ["ellipsis"]]], "(" + c + ", ..)"
    if r < 0.6:      # the forms named in the task text
        return rng.choice([(["tuple", [["slice", None, None, None], ["slice", None, None, -1]]], "(slice, slice)"),
                           (["tuple", [["slice", None, None, None], ["list", list(range(k))[::-1][:k]]]], "(slice, list)"),
                           (["tuple", [["slice", None, None, None], ["list", [k - 1, 0, k // 2]]]], "(slice, list)"),
                           (["tuple", [["mask", [i % 2 == 0 for i in range(n)]], ["slice", 1, 3, None]]], "(mask, slice)")])
    i, ci = rand_axis(rng, n, True)
    j, cj = rand_axis(rng, k, False)
    if ci in ("list", "mask", "range", "index array") and cj == "list":      # pointwise pairs: lengths must agree most of the time
        cnt = sum(i[1]) if ci == "mask" else len(mk_index(i))
        if rng.random() < 0.85:
            j = ["list", [rng.randrange(-k, k) if k else 0 for _ in range(cnt)]]
    return ["tuple", [i, j]], f"({ci}, {cj})"


SCALES = [1e-9, 1e-3, 0.01, 0.1, 0.25, 0.5, 1.0, 2.0, 1.0 / 3.0, 1234.5678, 0.30000000000000004]
SCALES += [-0.5, -0.01, -2.0, -1.0 / 3.0]      # legal for extra bytes and for the header: the grid's order is reversed
OFFSETS = [0.0, 0.5, -100.25, 1e6, 123456.789, -0.001, 1e9, -7.0]
GRID_TYPES = ["int8", "uint8", "int16", "uint16", "int32", "uint32", "int64", "uint64", "float32", "float64"]


def rand_grid_value(rng, t):
    if t.startswith("float"):
        return rng.choice([0, 1, -1, 2, 1000, -1000, rng.randrange(-10 ** 6, 10 ** 6)])
    info = np.iinfo(t)
    return rng.choice([0, 1, int(info.max), int(info.min), int(info.max) - 1, rng.randrange(int(info.min), int(info.max) + 1),
                       rng.randrange(max(int(info.min), -50), min(int(info.max), 50) + 1),
                       rng.randrange(max(int(info.min), -50), min(int(info.max), 50) + 1)])


PATTERNS = ["all different", "all equal", "two equal"]


def pattern_values(rng, pool, k, pat):
    """k per-element values (scales or offsets) of a multi-element dimension: pairwise different, one common value, or
    (3 elements) two elements sharing a value and one apart, at any position"""
    if pat == "all equal" or k == 1:
        return [rng.choice(pool)] * k
    vals = rng.sample(pool, k)
    if pat == "two equal" and k == 3:
        i, j = rng.sample(range(3), 2)
        vals[j] = vals[i]
    return vals


def rand_scaled_data(rng, dim=None, n=None, k=None, spat=None, opat=None, t=None, grid=None):
    n = rng.choice([0, 1, 2, 3, 7, 12]) if n is None else n
    fmt = rng.choice([0, 1, 3, 6, 7])
    data = {"kind": "scaled", "format": fmt,
            "scales": [fhex(rng.choice(SCALES)) for _ in range(3)], "offsets": [fhex(rng.choice(OFFSETS)) for _ in range(3)],
            "xyz": [[rand_grid_value(rng, "int32") for _ in range(n)] for _ in range(3)],
            "via": rng.choice(["item", "attr", "record"])}
    dim = dim or rng.choice(["x", "y", "z", "e", "e", "e", "e"])
    if dim == "e":
        k = k or rng.choice([1, 2, 3, 3])
        t = t or rng.choice(GRID_TYPES)
        grid = grid or rng.choice(["any", "any", "near"])
        spat = spat or rng.choice(PATTERNS)
        opat = opat or rng.choice(PATTERNS)
        scs = pattern_values(rng, SCALES, k, spat)
        ofs = pattern_values(rng, OFFSETS, k, opat)
        if grid == "near":
            # stored integers of the same small range in every element: which element holds the extreme VALUE is decided by
            # the scales and offsets, which element holds the extreme stored integer is not
            lo, hi = (0, 100) if t.startswith("u") else (-100, 100)
            g = [[rng.randrange(lo, hi + 1) for _ in range(k)] for _ in range(n)]
        else:
            g = [[rand_grid_value(rng, t) for _ in range(k)] for _ in range(n)]
        data["extra"] = {"name": "edim", "type": (str(k) if k > 1 else "") + t, "scales": [fhex(s) for s in scs],
                         "offsets": [fhex(o) for o in ofs], "grid": g, "k": k, "scale_pattern": spat, "offset_pattern": opat}
        data["dim"] = "edim"
    else:
        data["dim"] = dim
    return data


def scaled_operands(rng, shape):
    n = shape[0]
    k = shape[1] if len(shape) > 1 else None
    out = [["int", str(v)] for v in (0, 1, -1, 2, 3, 10 ** 6, 2 ** 70)]
    out += [["float", fhex(v)] for v in (0.0, 0.5, -1.5, 1e-9, 1e300, float("nan"), float("inf"))]
    out += [["np", "int32", "5"], ["np", "uint8", "3"], ["np", "int64", str(2 ** 40)], ["npfloat", "float32", fhex(0.1)], ["bool", True]]
    out += [["arr", "float64", list(shape), [fhex((i * 0.37) - 1.0) for i in range(int(np.prod(shape)))]],
            ["arr", "int64", [n], [i - 2 for i in range(n)]] if k is None else ["arr", "int64", [k], [i + 1 for i in range(k)]],
            ["arr", "int64", [], [3]], ["self"], ["view", "x"], ["view", "intensity"], ["list", [1] * n], ["none"], ["str", "a"]]
    if k is not None:
        out.append(["arr", "float64", [n, 1], [fhex(i + 0.5) for i in range(n)]])
    return out


# --------------------------------------------------------------------------------------------
# the oracle sweep (no model)
# --------------------------------------------------------------------------------------------
class Sweep:
    def __init__(self, ctx):
        self.ctx = ctx
        self.failing = {}          # kind -> failing-input dict
        self.viewraises = {}       # kind -> example (used by correspond: the model predicts a result)

    def check(self, kind, data, expr, env, canon, quiet_viewraises=False):
        verdict, detail = run_case(data, expr, env)
        ctx = self.ctx
        quiet_viewraises = quiet_viewraises or keyword_views(expr)
        ctx.count(" ".join(kind.split(" ")[:2]))
        if verdict in ("noresult", "viewraises", "unmat"):
            ctx.count("no result: " + {"noresult": "raises on both sides", "viewraises": "view raises", "unmat": "result not materialisable"}[verdict])
        ctx.case(canon, nontrivial=(verdict == "same"),
                 sample={"data": {q: data[q] for q in data if q not in ("bytes", "xyz", "extra", "others")}, "expr": expr_str(expr), "verdict": verdict}
                 if verdict == "same" and ctx.rng.random() < 0.0005 else None)
        if verdict in ("differs", "npraises"):
            k = kind + (" (numpy raises)" if verdict == "npraises" else "")
            if k not in self.failing:
                self.failing[k] = {"kind": k, "input": {"data": data, "expr": expr}, "observed": detail}
        elif verdict == "viewraises" and not quiet_viewraises:
            self.viewraises.setdefault(kind, {"kind": "no result on the view: " + kind, "input": {"data": data, "expr": expr}, "observed": detail})
        return verdict


def arange_data(fmt, name, via="item"):
    return {"kind": "subfield", "format": fmt, "field": name, "bytes": bytes(range(256)).hex(), "via": via}


def sweep_subfield_operators(sw, sfs):
    """every sub-field of every format x 11 operators x operands, on the 256 possible composed bytes"""
    ctx = sw.ctx
    for fmt, name, composed, mask in sfs:
        data = arange_data(fmt, name, via=ctx.rng.choice(["item", "attr", "record"]))
        env = build(data)
        names = [n for f, n, c, m in sfs if f == fmt and n != name]
        ints = [["int", str(v)] for v in py_int_operands(mask)] + [["np", dt, str(v)] for dt, v in np_int_operands(mask)]
        others = other_operands(256, mask, ctx.rng, names)
        for op in OPS:
            if op in CMP:
                operands = ints + others
            else:       # arithmetic is a delegation whatever the operand: a boundary sample of the integers, all the others
                operands = [o for i, o in enumerate(ints) if i % 4 == 0 or ctx.thorough()] + others
            for o in operands:
                kind = f"subfield {SYM[op]} {operand_class(o, mask)}"
                sw.check(kind, data, ["op", op, o], env, ("sf", mask, op, tuple(map(str, o))[:4]))
        # arrays / numpy scalars on the left: numpy's operators handing over to the view (__array_ufunc__)
        for op in OPS:
            for o in (["arr", "int64", [256], [(i * 5) % 9 for i in range(256)]], ["np", "uint8", "3"], ["arr", "float64", [], [fhex(1.5)]]):
                sw.check(f"subfield reflected {SYM[op]}", data, ["rop", op, o], env, ("sfr", mask, op, o[1]))


SF_FUNCS0 = ["np.min", "np.max", "np.sum", "np.mean", "np.min0", "np.max0", "np.sum0", "np.mean0", "np.max_keepdims", "np.sum_dtype",
             "np.unique", "np.unique_counts", "np.unique_inverse", "np.unique_index", "np.concatenate_self", "np.concatenate_tuple",
             "np.where_nz", "max()", "min()", "max(0)", "min(0)", "max(keepdims)", "min(keepdims)", "max(initial)", "min(initial)",
             "np.sort", "np.argmax", "np.argmin", "np.argsort", "np.count_nonzero", "np.add.reduce", "np.maximum.reduce",
             "np.minimum.accumulate", "np.add.outer", "np.stack", "np.vstack", "np.hstack", "np.cumsum", "np.nonzero", "np.any",
             "np.all", "np.median", "np.ptp", "np.std", "np.array", "np.asarray", "np.copy", "copy()", "np.array_f32", "np.asarray_f16",
             "np.asarray_i64", "f32[:] = v", "len", "shape",
             "np.shape", "ndim", "np.ravel", "np.clip", "np.diff", "np.histogram", "np.percentile", "np.take", "np.flip",
             "np.transpose", "np.searchsorted", "np.average", "np.bincount", "np.abs"]
FUNCS1 = ["np.isin", "np.isin_r", "np.isin_invert", "np.concatenate", "np.concatenate_r", "np.where_eq", "np.where_ne", "np.where_lt",
          "np.where_ge", "np.add", "np.subtract", "np.multiply", "np.true_divide", "np.floor_divide", "np.less", "np.less_equal",
          "np.greater", "np.greater_equal", "np.equal", "np.not_equal", "np.maximum", "np.minimum_r", "np.array_equal"]
FUNCS_MASK = ["np.where3", "np.where3_r", "np.where_self", "np.mean_where", "np.sum_where", "np.select", "np.compress", "np.extract"]


def sweep_subfield_functions(sw, sfs):
    ctx = sw.ctx
    for fmt, name, composed, mask in sfs:
        maxv = mask >> lsb_of(mask)
        for n in ([0, 9] if not ctx.thorough() else [0, 1, 2, 9, 64]):
            col = bytes(ctx.rng.choice([0, 0xFF, mask, (~mask) & 0xFF, ctx.rng.randrange(256), ctx.rng.randrange(256)]) for _ in range(n))
            data = {"kind": "subfield", "format": fmt, "field": name, "bytes": col.hex(), "via": ctx.rng.choice(["item", "attr", "record"])}
            env = build(data)
            names = [q for f, q, c, m in sfs if f == fmt and q != name]
            for fn in SF_FUNCS0 + PY_BUILTINS:
                sw.check(f"subfield {fn}", data, ["fn", fn], env, ("sff", mask, fn, col), quiet_viewraises=fn in PY_BUILTINS)
            for o in (["int", "0"], ["int", str(maxv)], ["float", fhex(1.0)], ["np", "uint8", "1"]):
                sw.check("subfield py.in", data, ["fn", "py.in", o], env, ("sff", mask, "py.in", col, str(o)), quiet_viewraises=True)
            opnds = [["int", str(ctx.rng.randrange(maxv + 2))], ["np", "uint8", str(maxv)], ["list", [0, 1, maxv, maxv + 1]],
                     ["arr", "int64", [n], [ctx.rng.randrange(maxv + 2) for _ in range(n)]], ["float", fhex(1.0)], ["self"],
                     ["view", ctx.rng.choice(names)], ["view", "intensity"]]
            for fn in FUNCS1:
                for o in opnds:
                    sw.check(f"subfield {fn}", data, ["fn", fn, o], env, ("sff", mask, fn, col, tuple(map(str, o))))
            m = ["arr", "bool", [n], [ctx.rng.random() < 0.5 for _ in range(n)]]
            for fn in FUNCS_MASK:
                sw.check(f"subfield {fn}", data, ["fn", fn, m], env, ("sff", mask, fn, col))
            # index expressions, alone and followed by a comparison / reduction
            for _ in range(ctx.n(10, 40)):
                ix, cls = rand_index_1d(ctx.rng, n)
                sw.check(f"subfield index {cls}", data, ["idx", ix], env, ("sfi", mask, col, str(ix)), quiet_viewraises=True)
                c = ctx.rng.choice([["int", str(ctx.rng.choice([0, 1, maxv, maxv + 1, 8, 256 >> lsb_of(mask)]))],
                                    ["np", ctx.rng.choice(INT_DTYPES), str(ctx.rng.choice([1, maxv, (256 >> lsb_of(mask)) + 1]))]])
                follow = ctx.rng.choice([["op", ctx.rng.choice(CMP), c], ["fn", ctx.rng.choice(["np.max", "np.sum", "max()", "np.unique", "min()"])],
                                         ["op", ctx.rng.choice(ARITH), c], ["idx", rand_index_1d(ctx.rng, max(n // 2, 1))[0]]])
                sw.check(f"subfield index {cls} then {follow[0] if follow[0] != 'op' else SYM[follow[1]]}", data, ["seq", ["idx", ix], follow], env,
                         ("sfi2", mask, col, str(ix), str(follow)), quiet_viewraises=True)


SC_FUNCS0 = ["np.min", "np.max", "np.sum", "np.mean", "np.min0", "np.max0", "np.sum0", "np.mean0", "np.max_keepdims", "np.sum_dtype",
             "np.unique", "np.unique_counts", "np.unique_inverse", "np.concatenate_self", "np.concatenate_tuple", "np.where_nz",
             "max()", "min()", "max(0)", "min(0)", "max(keepdims)", "min(keepdims)", "max(initial)", "min(initial)", "max(initial f)",
             "min(initial f)", "max(None)", "max(axis kw)", "min(out)", "np.sort",
             "np.argmax", "np.argmin", "np.count_nonzero", "np.add.reduce", "np.maximum.reduce", "np.stack", "np.vstack", "np.hstack",
             "np.cumsum", "np.nonzero", "np.any", "np.median", "np.ptp", "np.array", "np.asarray", "np.copy", "copy()", "np.array_f32",
             ] + CONVERSIONS + ["len", "shape", "np.shape", "ndim", "np.ravel", "np.clip", "np.round", "np.floor", "np.abs", "np.take", "np.flip",
             "np.transpose", "np.isnan", "np.average", "np.percentile", "np.max_out_tuple"]
SC_FUNCS_MULTI = ["np.max1", "np.min-1", "np.sum1", "np.mean-1", "max(1)", "min(-1)", "np.unique0", "np.concatenate1"]
SC_FUNCS1 = ["np.isin", "np.isin_r", "np.concatenate", "np.concatenate_r", "np.add", "np.subtract", "np.multiply", "np.true_divide",
             "np.floor_divide", "np.maximum", "np.minimum_r", "np.less", "np.equal", "np.array_equal"]


def sweep_scaled(sw, count):
    ctx = sw.ctx
    for it in range(count):
        data = rand_scaled_data(ctx.rng)
        env = build(data)
        shape = tuple(env["get"]().shape)
        multi = len(shape) > 1
        tag = "scaled" + ("" if not multi else f" {shape[1]}-element") + (" xyz" if data["dim"] in "xyz" else " extra" if not multi else "")
        opnds = scaled_operands(ctx.rng, shape)
        for op in ARITH:
            for o in opnds:
                sw.check(f"{tag} {SYM[op]} {operand_class(o)}", data, ["op", op, o], env, ("sca", it, op, tuple(map(str, o))[:3]))
            sw.check(f"{tag} reflected {SYM[op]}", data, ["rop", op, ["arr", "float64", [shape[0]] + [1] * (len(shape) - 1), [fhex(i * 1.5) for i in range(shape[0])]]],
                     env, ("scr", it, op))
        for fn in SC_FUNCS0 + (SC_FUNCS_MULTI if multi else []):
            sw.check(f"{tag} {fn}", data, ["fn", fn], env, ("scf", it, fn))
        for fn in PY_BUILTINS:
            sw.check(f"{tag} {fn}", data, ["fn", fn], env, ("scf", it, fn), quiet_viewraises=True)
        for fn in SC_FUNCS1:
            for o in ctx.rng.sample(opnds, 6):
                sw.check(f"{tag} {fn}", data, ["fn", fn, o], env, ("scf", it, fn, tuple(map(str, o))[:3]))
        m = ["arr", "bool", [shape[0]] + [1] * (len(shape) - 1), [ctx.rng.random() < 0.5 for _ in range(shape[0])]]
        for fn in ("np.where3", "np.where3_r", "np.where_self", "np.select", "max(where)", "min(where)"):
            sw.check(f"{tag} {fn}", data, ["fn", fn, m], env, ("scf", it, fn))
        for _ in range(ctx.n(12, 30)):
            ix, cls = rand_index_2d(ctx.rng, shape[0], shape[1]) if multi else rand_index_1d(ctx.rng, shape[0])
            sw.check(f"{tag} index {cls}", data, ["idx", ix], env, ("sci", it, str(ix)), quiet_viewraises=True)
            follow = ctx.rng.choice([["op", ctx.rng.choice(ARITH), ctx.rng.choice(opnds[:16])],
                                     ["fn", ctx.rng.choice(["np.max", "np.min", "np.sum", "max()", "min()", "np.mean", "np.unique", "max(0)", "min(-1)",
                                                            "max()", "min()", "max(initial f)", "min(initial)"])],
                                     ["idx", rand_index_1d(ctx.rng, ctx.rng.choice([1, 2, 3, max(1, shape[0])]))[0]],
                                     ["seq", ["idx", rand_index_1d(ctx.rng, ctx.rng.choice([1, 2, 3]))[0]], ["fn", ctx.rng.choice(["max()", "min()"])]]])
            if follow[0] in ("idx", "seq") and not multi and data["dim"] not in "xyz" and cls in ("int", "numpy int"):
                continue    # v[i] of a 1-element extra dimension has shape (1,) where numpy has (): equal up to a length-1 axis, a further index is not
            fname = follow[1] if follow[0] == "fn" else SYM[follow[1]] if follow[0] == "op" else "index" if follow[0] == "idx" else "index then max/min"
            sw.check(f"{tag} index {cls} then {fname}", data, ["seq", ["idx", ix], follow], env,
                     ("sci2", it, str(ix), str(follow)), quiet_viewraises=True)


RED_NOARG = ["max()", "min()", "np.max", "np.min", "np.maximum.reduce", "np.ptp"]
RED_ARG = ["max(0)", "min(0)", "max(1)", "min(-1)", "max(keepdims)", "min(keepdims)", "max(initial)", "min(initial)", "max(initial f)",
           "min(initial f)", "max(None)", "max(axis kw)", "min(out)", "np.max0", "np.min0", "np.max1", "np.min-1", "np.max_keepdims",
           "np.max_out_tuple", "np.sum", "np.mean", "np.sum0", "np.mean-1"]


def multi_selections(rng, n, k):
    """selections of a (n, k) view that keep several points and / or several elements: the result is again a view, of the
    same elements (rows selected) or of a subset / permutation of the elements (columns selected: its own scales and offsets)"""
    full = ["slice", None, None, None]
    mask = [rng.random() < 0.6 for _ in range(n)]
    if n and not any(mask):
        mask[rng.randrange(n)] = True
    cols = rng.sample(range(k), rng.choice([q for q in (1, 2, 3) if q <= k]))
    out = [(["mask", mask], "mask"), (["slice", rng.choice([None, 0, 1]), rng.choice([None, -1, n]), rng.choice([None, 2, -1])], "slice"),
           (["list", [rng.randrange(-n, n) for _ in range(rng.choice([1, 2, 4]))] if n else []], "index list"),
           (["tuple", [["mask", mask], ["ellipsis"]]], "(mask, ..)"),
           (["tuple", [full, ["list", cols]]], "(slice, list)"),
           (["tuple", [full, ["slice", rng.choice([None, 0, 1]), rng.choice([None, k, -1]), rng.choice([None, -1])]]], "(slice, slice)"),
           (["tuple", [["mask", mask], ["list", cols[:1] * sum(mask)]]], "(mask, list)"),
           (["tuple", [["ellipsis"], ["int", rng.randrange(k)]]], "(.., int)"),
           (["tuple", [["list", [rng.randrange(n) for _ in range(2)] if n else []], ["slice", None, None, None]]], "(list, slice)")]
    ix, cls = rand_index_2d(rng, n, k)
    return out + [(ix, cls)]


def sweep_scaled_multi(sw):
    """2- and 3-element scaled dimensions, scales {all different, all equal, two equal} x offsets {idem} x grid types:
    reductions without and with arguments, on the view and on selections of it"""
    ctx = sw.ctx
    rng = ctx.rng
    it = 0
    for k in (2, 3):
        for spat in PATTERNS:
            for opat in PATTERNS:
                if k == 2 and "two equal" in (spat, opat):
                    continue        # the same as all different
                types = GRID_TYPES if ctx.thorough() else rng.sample(GRID_TYPES, 4)
                for t in types:
                    for grid in ("near", "any"):
                        it += 1
                        data = rand_scaled_data(rng, dim="e", n=rng.choice([1, 2, 3, 6, 12]), k=k, spat=spat, opat=opat, t=t, grid=grid)
                        env = build(data)
                        n = env["get"]().shape[0]
                        ctx.count(f"scaled multi: scales {spat} / offsets {opat}")
                        tag = f"scaled {k}-element"
                        why = f" (scales {spat}, offsets {opat})"
                        for fn in RED_NOARG + RED_ARG:
                            sw.check(f"{tag} {fn}{why}", data, ["fn", fn], env, ("scm", it, fn))
                        m = ["arr", "bool", [n, 1], [rng.random() < 0.5 for _ in range(n)]]
                        for fn in ("max(where)", "min(where)"):
                            sw.check(f"{tag} {fn}{why}", data, ["fn", fn, m], env, ("scm", it, fn))
                        for ix, cls in multi_selections(rng, n, k):
                            for fn in RED_NOARG[:4] + rng.sample(RED_ARG, 4):
                                sw.check(f"{tag} index {cls} then {fn}{why}", data, ["seq", ["idx", ix], ["fn", fn]], env,
                                         ("scm2", it, str(ix), fn), quiet_viewraises=True)


# --------------------------------------------------------------------------------------------
# stale views: keep a view, modify the record through another handle, evaluate again
# --------------------------------------------------------------------------------------------
def apply_mutation(env, mut):
    las = env["las"]
    for step in mut:
        t = step[0]
        if t == "raw":          # ["raw", field, index spec, values]
            vals = np.array(step[3], dtype=object)
            arr = las.points.array[step[1]]
            arr[mk_index(step[2])] = vals.astype(arr.dtype)
        elif t == "set":        # ["set", dimension, index spec, values]  through a fresh handle of a dimension
            vals = [unfhex(v) if isinstance(v, str) else v for v in step[3]]
            las[step[1]][mk_index(step[2])] = np.array(vals) if len(vals) != 1 else vals[0]
        elif t == "assign":     # ["assign", dimension, values]   las[dim] = values
            vals = [unfhex(v) if isinstance(v, str) else v for v in step[2]]
            las[step[1]] = np.array(vals)
        elif t == "xor":        # ["xor", field, int]
            las.points.array[step[1]] ^= np.array(step[2]).astype(las.points.array[step[1]].dtype)
        else:
            raise ValueError(step)


def sweep_stale(sw, sfs, count):
    ctx = sw.ctx
    rng = ctx.rng
    for it in range(count):
        if rng.random() < 0.55:
            fmt, name, composed, mask = rng.choice(sfs)
            lsb = lsb_of(mask)
            maxv = mask >> lsb
            n = rng.choice([1, 2, 9])
            data = {"kind": "subfield", "format": fmt, "field": name, "bytes": bytes(rng.randrange(256) for _ in range(n)).hex(),
                    "via": rng.choice(["item", "attr", "record"])}
            sib = [q for f, q, c, m in sfs if f == fmt and c == composed and q != name]
            pos = sorted(set(rng.randrange(n) for _ in range(rng.choice([1, 2]))))
            mut = [rng.choice([["raw", composed, ["list", pos], [rng.randrange(256) for _ in pos]],
                               ["set", name, ["list", pos], [rng.randrange(maxv + 1) for _ in pos]],
                               ["set", name, ["slice", None, None, None], [rng.randrange(maxv + 1)]],
                               ["assign", name, [rng.randrange(maxv + 1) for _ in range(n)]],
                               ["assign", composed, [rng.randrange(256) for _ in range(n)]],
                               ["xor", composed, rng.choice([0xFF, mask, 1 << lsb])]]
                              + ([["set", rng.choice(sib), ["slice", None, None, None], [0]]] if sib else []))]
            c = rng.choice([["int", str(rng.choice([0, 1, maxv, maxv + 1]))], ["np", "uint8", str(rng.randrange(maxv + 1))]])
            expr = rng.choice([["op", rng.choice(CMP), c], ["op", rng.choice(ARITH), c], ["fn", rng.choice(["np.sum", "np.max", "max()", "np.unique", "np.array", "min()"])],
                               ["idx", ["slice", None, None, -1]], ["idx", ["int", rng.randrange(n)]], ["fn", "np.isin", ["list", [0, 1, maxv]]],
                               ["fn", "np.where_eq", c], ["seq", ["idx", ["list", pos]], ["op", "le", c]]])
            kind = "stale subfield view after " + mut[0][0]
        else:
            data = rand_scaled_data(rng, n=rng.choice([1, 2, 5]))
            env0 = build(data)
            shape = tuple(env0["get"]().shape)
            n = shape[0]
            field = data["dim"].upper() if data["dim"] in "xyz" else data["dim"]
            pos = sorted(set(rng.randrange(n) for _ in range(rng.choice([1, 2]))))
            t = "int32" if data["dim"] in "xyz" else data["extra"]["type"].lstrip("123")
            rows = [[rand_grid_value(rng, t) for _ in range(shape[1])] if len(shape) > 1 else rand_grid_value(rng, t) for _ in pos]
            muts = [["raw", field, ["list", pos], rows]]
            if not t.startswith("uint64") and not t.startswith("int64"):
                # through the scaled view of a new handle: values that are exactly representable points of the grid
                small = [[rng.randrange(0, 50) for _ in range(shape[1])] if len(shape) > 1 else rng.randrange(0, 50) for _ in pos]
                g = np.array(small, dtype=np.int64)
                vals = (g * np.array(env0["svec"])) + np.array(env0["ovec"])
                if np.all(np.round((vals - np.array(env0["ovec"])) / np.array(env0["svec"])) == g):
                    muts.append(["setgrid", data["dim"], pos, small])
            mut = [rng.choice(muts)]
            opnds = scaled_operands(rng, shape)
            expr = rng.choice([["op", rng.choice(ARITH), rng.choice(opnds[:14])], ["fn", rng.choice(["np.sum", "np.max", "max()", "min()", "np.mean", "np.array", "np.unique"])],
                               ["idx", ["int", rng.randrange(n)]], ["idx", ["slice", None, None, -1]], ["idx", ["list", pos]],
                               ["seq", ["idx", ["list", pos]], ["fn", "max()"]]])
            kind = "stale scaled view after " + mut[0][0]
        why = run_stale_any(data, expr, mut)
        ctx.count(" ".join(kind.split(" ")[:3]))
        ctx.case(("stale", it, str(expr), str(mut)), nontrivial=True)
        if why and kind not in sw.failing:
            sw.failing[kind] = {"kind": kind, "input": {"data": data, "expr": expr, "mutation": mut}, "observed": why}


def run_stale_any(data, expr, mut):
    """'setgrid' steps assign, through the scaled view of a new handle, the float values of given grid points"""
    env = build(data)
    mut2 = []
    for step in mut:
        if step[0] == "setgrid":
            g = np.array(step[3], dtype=np.int64)
            vals = (g * np.array(env["svec"])) + np.array(env["ovec"])
            mut2.append(["setfloat", step[1], step[2], vals])
        else:
            mut2.append(step)

    def apply(env_, m):
        for step in m:
            if step[0] == "setfloat":
                env_["las"][step[1]][list(step[2])] = step[3]
            else:
                apply_mutation(env_, [step])
    kept = env["get"]()
    env["view"], env["arr"] = kept, np.array(kept)
    before = ev(lambda: apply_expr(expr, kept, env, "view"))
    apply(env, mut2)
    fresh = np.array(env["get"]())
    raw = np.asarray(env["raw"]())
    env["view"], env["arr"] = kept, fresh
    rv = ev(lambda: apply_expr(expr, kept, env, "view"))
    rf = ev(lambda: apply_expr(expr, fresh, env, "np"))
    env["arr"] = raw
    rr = ev(lambda: apply_expr(expr, raw, env, "np"))
    if rv[0] == "ok" and rf[0] == "ok" and not same_value(rv[1], rf[1]):
        return (f"{expr_str(expr)} on a view obtained before the record was modified gives {describe(rv)}; on the current values "
                f"(np.array of a new handle) numpy gives {describe(rf)}; before the modification it gave {describe(before)}")
    if rv[0] == "ok" and rr[0] == "ok" and not same_value(rv[1], rr[1]):
        return (f"{expr_str(expr)} on a view obtained before the record was modified gives {describe(rv)}; on the values in the "
                f"record's memory numpy gives {describe(rr)}")
    if rv[0] != "ok" and rf[0] == "ok" and before[0] == "ok":
        return f"{expr_str(expr)} on a view obtained before the record was modified raises {rv[1]}; it gave {describe(before)} before"
    return None


# --------------------------------------------------------------------------------------------
# calls with the optional keywords of numpy (out=, where=, dtype=, casting=, axis=, initial= ...)
# --------------------------------------------------------------------------------------------
UF_BINARY = ["add", "subtract", "multiply", "divide", "floor_divide", "maximum", "minimum", "fmax", "hypot", "arctan2", "power",
             "remainder", "fmod", "copysign", "less", "less_equal", "equal", "not_equal", "greater", "greater_equal", "logical_and",
             "logical_xor", "bitwise_and", "bitwise_or", "left_shift", "right_shift", "heaviside", "gcd"]
UF_UNARY = ["negative", "positive", "absolute", "sqrt", "square", "floor", "ceil", "rint", "sign", "isnan", "isfinite", "logical_not",
            "invert", "reciprocal", "signbit", "cbrt", "log1p", "exp2"]
UF_TWO_OUT = [("modf", 1), ("frexp", 1), ("divmod", 2)]          # (name, number of inputs), two outputs
OUT_DTYPES = ["float64", "float64", "float32", "int64", "uint8", "bool", "complex128", "float16", "int8"]


def some_mask(rng, n, tail=()):
    """a mask of shape (n, 1, ..) with True and False entries whenever n >= 2"""
    m = [rng.random() < 0.5 for _ in range(n)]
    if n >= 2 and all(m):
        m[rng.randrange(n)] = False
    if n >= 2 and not any(m):
        m[rng.randrange(n)] = True
    return ["arr", "bool", [n] + [1] * len(tail), m]


def kw_variants(rng, shape, nout, bit_view, out_view, cmp_src):
    """-> [(class, keywords, quiet)]: the optional keywords of a ufunc call on operands of the given shape with nout outputs.
    quiet: calls the unchanged views refuse (a view as where= / out= ends in a RecursionError): no result"""
    shape = list(shape)
    n, tail = shape[0], shape[1:]

    def outs(dt, shp=None):
        one = [["fill", dt, shape if shp is None else shp, j] for j in range(nout)]
        return one[0] if nout == 1 else ["tup", one]
    mask = some_mask(rng, n, tail)
    full = ["arr", "bool", shape, [rng.random() < 0.6 for _ in range(int(np.prod(shape)))]]
    odt = rng.choice(OUT_DTYPES[2:])
    v = [("out", {"out": outs("float64")}, False),
         ("out where", {"out": outs("float64"), "where": mask}, False),
         ("out where", {"out": outs(rng.choice(OUT_DTYPES)), "where": full}, False),
         # the idiom np.divide(a, v, out=fill, where=v != 0); comparisons of SCALED views are excluded by the property: there
         # the mask is computed from a plain dimension of the record
         ("out where(v != 0)", {"out": outs("float64"), "where": ["cmp", "ne", cmp_src, ["int", "0"]]}, False),
         ("out where(v > c)", {"out": outs("float64"), "where": ["cmp", "gt", cmp_src, ["int", "1"]]}, False),
         ("where", {"where": mask}, False),
         ("dtype", {"dtype": ["dtype", rng.choice(OUT_DTYPES)]}, False),
         ("out dtype", {"out": outs(odt)}, False),
         ("out casting", {"out": outs(odt), "casting": ["lit", "unsafe"]}, False),
         ("out where casting", {"out": outs(odt), "where": mask, "casting": ["lit", "unsafe"]}, False),
         ("out where dtype", {"out": outs("float64"), "where": mask, "dtype": ["dtype", rng.choice(["float64", "float32"])]}, False),
         ("casting", {"casting": ["lit", rng.choice(["no", "equiv", "safe", "same_kind", "unsafe"])]}, False),
         ("out where(scalar)", {"out": outs("float64"), "where": ["lit", rng.choice([False, True])]}, False),
         ("out broadcast where", {"out": outs("float64", [2] + shape), "where": mask}, False),
         ("subok order", {"subok": ["lit", False], "order": ["lit", "C"]}, False),
         ("out where(view)", {"out": outs("float64"), "where": ["rec", 0, bit_view]}, True),
         ("out(view)", {"out": ["outrec", 0, out_view] if nout == 1 else ["tup", [["outrec", 0, out_view], ["fill", "float64", shape, 1]]]}, True)]
    if nout == 1:
        v.append(("out tuple where", {"out": ["tup", [["fill", "float64", shape, 0]]], "where": mask}, False))
    else:
        v.append(("out partial where", {"out": ["tup", [["fill", "float64", shape, 0], ["none"]]], "where": mask}, False))
        v.append(("out partial", {"out": ["tup", [["none"], ["fill", "float64", shape, 0]]]}, False))
    return v


def other_inputs(rng, shape, others_dim, sibling):
    """the second input of a binary ufunc: constants of several representations, arrays, views"""
    shape = list(shape)
    cnt = int(np.prod(shape))
    # python ints stay inside uint8: numpy 2.x itself dies (SIGSEGV) on a comparison ufunc of a uint8 array with an out-of-range
    # python int when where= and out= are given, e.g. np.less(-1, a, out=o, where=m) — nothing laspy is involved in
    return [(["int", str(rng.choice([0, 1, 2, 3]))], "python int"), (["float", fhex(rng.choice([0.5, 2.5, -1.5, 1e-3]))], "float"),
            (["np", rng.choice(INT_DTYPES), str(rng.choice([1, 2, 7]))], "numpy int"), (["npfloat", "float32", fhex(1.5)], "numpy float"),
            (["arr", "int64", shape, [(i * 5 + 1) % 7 for i in range(cnt)]], "int array"),
            (["arr", "float64", shape, [fhex((i * 0.37) - 1.0) for i in range(cnt)]], "float array"),
            (["arr", "uint8", [shape[0]] + [1] * (len(shape) - 1), [(i * 3) % 5 for i in range(shape[0])]], "uint8 array"),
            (["rec", 0, sibling], "other view"), (["rec", 1, others_dim], "view of another record")]


def sweep_keyword_calls(sw, data, env, tag, sibling, bit_view, others_dim):
    """ufuncs (unary, binary, two outputs; __call__, reduce, accumulate, outer, reduceat, at) and numpy functions with the
    optional keywords, the view as first / second / both inputs / as the mask / as the output buffer"""
    ctx, rng = sw.ctx, sw.ctx.rng
    shape = list(env["get"]().shape)
    n, tail = shape[0], shape[1:]
    me = ["self"]
    seq = [0]
    own = data["dim"] if data["kind"] == "scaled" else data["field"]
    cmp_src = ["self"] if data["kind"] == "subfield" else ["rec", 0, "intensity"] if not tail else ["arr", "int64", [n, 1], [i % 3 for i in range(n)]]

    def go(cls, name, args, kw, quiet=False, fresh=False):
        seq[0] += 1
        sw.check(f"keyword-call {tag} {name} {cls}", data, ["call", name, args, kw], None if fresh else env,
                 ("kwc", tag, data.get("case"), seq[0], name, cls), quiet_viewraises=quiet)
    thorough = ctx.thorough()
    for name in UF_BINARY:
        oth = other_inputs(rng, shape, others_dim, sibling)
        kws = kw_variants(rng, shape, 1, bit_view, own, cmp_src)
        plain = [q for q in oth if q[1] not in ("other view", "view of another record")]
        positions = [("(v, c)", lambda o: [me, o]), ("(c, v)", lambda o: [o, me]), ("(v, v)", lambda o: [me, me])]
        # every keyword class at a random position, every position / operand class with random keyword classes
        for kc, kw, quiet in kws:
            if quiet and not thorough and rng.random() < 0.75:
                continue        # a RecursionError of 1000 frames each: a sample in the quick tier
            pos, mk = rng.choice(positions)
            go(f"{pos} {kc}", "np." + name, mk(rng.choice(plain)[0]), kw, quiet, fresh=kc == "out(view)")
        for o, oc in oth:
            for pos, mk in (positions if thorough else [rng.choice(positions[:2])]):
                for kc, kw, quiet in rng.sample(kws[:15], 3 if not thorough else 6):
                    go(f"{pos} {kc} [{oc}]", "np." + name, mk(o), kw, quiet)
    for name in UF_UNARY:
        for kc, kw, quiet in kw_variants(rng, shape, 1, bit_view, own, cmp_src):
            if quiet and not thorough and rng.random() < 0.75:
                continue
            go(f"(v) {kc}", "np." + name, [me], kw, quiet, fresh=kc == "out(view)")
    for name, nin in UF_TWO_OUT:
        for kc, kw, quiet in kw_variants(rng, shape, 2, bit_view, own, cmp_src):
            args = [me] if nin == 1 else rng.choice([[me, ["int", "3"]], [["arr", "int64", shape, [(i % 5) + 1 for i in range(int(np.prod(shape)))]], me], [me, me]])
            go(f"{'(v)' if nin == 1 else '(v, c)'} {kc}", "np." + name, args, kw, quiet, fresh=kc == "out(view)")
    # methods of ufuncs
    m1 = some_mask(rng, n, tail)
    go("reduce out", "np.add.reduce", [me], {"out": ["fill", "float64", tail, 0]})
    go("reduce axis out where", "np.maximum.reduce", [me], {"axis": ["lit", 0], "out": ["fill", "float64", tail, 0], "where": m1, "initial": ["float", fhex(-5.5)]})
    go("reduce where initial", "np.minimum.reduce", [me], {"where": m1, "initial": ["float", fhex(1e12)]})
    go("reduce dtype keepdims", "np.add.reduce", [me], {"dtype": ["dtype", "float32"], "keepdims": ["lit", True]})
    go("reduce axis=None out", "np.add.reduce", [me], {"axis": ["none"], "out": ["fill", "float64", [], 0]})
    go("accumulate out", "np.add.accumulate", [me], {"out": ["fill", "float64", shape, 0]})
    go("accumulate dtype", "np.multiply.accumulate", [me], {"dtype": ["dtype", "float64"]})
    go("outer out", "np.multiply.outer", [me, ["arr", "int64", [2], [1, 2]]], {"out": ["fill", "float64", shape + [2], 0]})
    go("outer (c, v)", "np.subtract.outer", [["arr", "float64", [2], [fhex(0.5), fhex(2.0)]], me], {})
    if n >= 2:
        go("reduceat", "np.add.reduceat", [me, ["arr", "int64", [2], [0, n // 2]]], {})
        go("reduceat out", "np.add.reduceat", [me, ["arr", "int64", [2], [0, n // 2]]], {"out": ["fill", "float64", [2] + tail, 0]})
    if n >= 1:
        go("at (values)", "np.add.at", [["fill", "float64", shape, 0], ["arr", "int64", [n], list(range(n))[::-1]], me], {})
        go("at (values, repeated index)", "np.subtract.at", [["fill", "float64", shape, 0], ["arr", "int64", [n], [i // 2 for i in range(n)]], me], {})
        if data["kind"] == "subfield":
            go("at (indices)", "np.add.at", [["fill", "int64", [256], 0], me, ["int", "1"]], {})
    # augmented assignment of a plain array with the view on the right: buffer op= view
    for opn in ("iadd", "isub", "imul", "itruediv", "ifloordiv", "imod"):
        go(f"buffer {ISYM[opn]} v", "operator." + opn, [["fill", "float64", shape, 0], me], {})
    go("int buffer += v", "operator.iadd", [["fill", "int64", shape, 0], me], {})
    go("broadcast buffer -= v", "operator.isub", [["fill", "float64", [2] + shape, 0], me], {})
    # numpy functions with out= / where= / dtype=
    go("np.sum out", "np.sum", [me], {"out": ["fill", "float64", [], 0]})
    go("np.sum axis out", "np.sum", [me], {"axis": ["lit", 0], "out": ["fill", "float64", tail, 0]})
    go("np.sum where", "np.sum", [me], {"where": m1})
    go("np.sum dtype", "np.sum", [me], {"dtype": ["dtype", rng.choice(["float32", "int64", "uint8", "float64"])]})
    go("np.max out where initial", "np.max", [me], {"axis": ["lit", 0], "out": ["fill", "float64", tail, 0], "where": m1, "initial": ["float", fhex(-3.25)]})
    go("np.min out", "np.min", [me], {"axis": ["lit", 0], "out": ["fill", "float64", tail, 0]}) if n else None
    go("method max out", "method.max", [me], {"axis": ["lit", 0], "out": ["fill", "float64", tail, 0]}) if n else None
    go("method min where initial", "method.min", [me], {"where": m1, "initial": ["float", fhex(1e9)]})
    go("np.mean out where", "np.mean", [me], {"axis": ["lit", 0], "out": ["fill", "float64", tail, 0], "where": m1})
    go("np.mean dtype", "np.mean", [me], {"dtype": ["dtype", "float32"]})
    go("np.clip out", "np.clip", [me, ["int", "1"], ["float", fhex(3.5)]], {"out": ["fill", "float64", shape, 0]})
    go("np.clip where", "np.clip", [me, ["int", "1"], ["int", "3"]], {"out": ["fill", "float64", shape, 0], "where": m1})
    go("np.cumsum out", "np.cumsum", [me], {"axis": ["lit", 0], "out": ["fill", "float64", shape, 0]})
    go("np.cumprod dtype", "np.cumprod", [me], {"axis": ["lit", 0], "dtype": ["dtype", "float64"]})
    go("np.round out", "np.round", [me, ["lit", 1]], {"out": ["fill", "float64", shape, 0]})
    go("np.concatenate out", "np.concatenate", [["lst", [me, me]]], {"out": ["fill", "float64", [2 * n] + tail, 0]})
    go("np.concatenate dtype", "np.concatenate", [["lst", [me, me]]], {"dtype": ["dtype", rng.choice(["float32", "int64", "float64"])], "casting": ["lit", "unsafe"]})
    go("np.concatenate axis=None", "np.concatenate", [["tup", [me, me]]], {"axis": ["none"]})
    go("np.stack out", "np.stack", [["lst", [me, me]]], {"out": ["fill", "float64", [2] + shape, 0]})
    go("np.stack axis", "np.stack", [["lst", [me, me]]], {"axis": ["lit", -1]})
    if n >= 1:
        go("np.take out", "np.take", [me, ["lit", [0, -1]]], {"axis": ["lit", 0], "out": ["fill", "float64", [2] + tail, 0]})
        go("np.take mode", "np.take", [me, ["lit", [0, n + 3]]], {"axis": ["lit", 0], "mode": ["lit", "clip"]})
    cnt = sum(m1[3])
    go("np.compress out", "np.compress", [["arr", "bool", [n], m1[3]], me], {"axis": ["lit", 0], "out": ["fill", "float64", [cnt] + tail, 0]})
    go("np.copyto where", "np.copyto", [["fill", "float64", shape, 0], me], {"where": m1})
    go("np.copyto casting", "np.copyto", [["fill", rng.choice(["int64", "uint8", "float32"]), shape, 0], me], {"casting": ["lit", "unsafe"]})
    go("np.putmask", "np.putmask", [["fill", "float64", shape, 0], ["arr", "bool", shape, [i % 3 == 0 for i in range(int(np.prod(shape)))]], me], {})
    go("np.put", "np.put", [["fill", "float64", [n + 2], 0], ["lit", list(range(min(n, 3)))], me], {})
    go("np.place", "np.place", [["fill", "float64", shape, 0], ["arr", "bool", shape, [i % 2 == 0 for i in range(int(np.prod(shape)))]], me], {})
    go("np.argmax out", "np.argmax", [me], {"axis": ["lit", 0], "out": ["fill", "int64", tail, 0]}) if n else None
    go("np.any out", "np.any", [me], {"axis": ["lit", 0], "out": ["fill", "bool", tail, 0]})
    go("np.std out", "np.std", [me], {"axis": ["lit", 0], "out": ["fill", "float64", tail, 0], "ddof": ["lit", 0]})
    go("np.dot out", "np.dot", [me, ["arr", "float64", [tail[0] if tail else n], [fhex(i + 0.5) for i in range(tail[0] if tail else n)]]],
       {"out": ["fill", "float64", [n] if tail else [], 0]})
    go("np.histogram bins(view)", "np.histogram", [["arr", "float64", [3], [fhex(0.5), fhex(2.0), fhex(5.0)]]], {"bins": ["sorted", ["rec", 0, sibling]]})
    go("np.histogram weights(view)", "np.histogram", [["arr", "float64", [n], [fhex(i * 0.5) for i in range(n)]]], {"bins": ["lit", 3], "weights": me}) if not tail else None
    go("np.average weights(view)", "np.average", [["arr", "float64", shape, [fhex(i + 1.0) for i in range(int(np.prod(shape)))]]], {"weights": me})
    go("np.full_like", "np.full_like", [me, ["float", fhex(2.5)]], {})
    go("np.zeros_like dtype", "np.zeros_like", [me], {"dtype": ["dtype", "float32"]})
    go("np.where(view mask)", "np.where", [["rec", 0, bit_view], me, ["int", "-1"]], {})
    go("np.where(view mask, c, v)", "np.where", [["rec", 0, bit_view], ["float", fhex(0.5)], me], {}) if not tail else None
    for dt in ("bool", "int64", "uint8", "float32", "float16", "float64", "complex128", "int8", "uint16"):
        go(f"np.asarray dtype={dt}", "np.asarray", [me], {"dtype": ["dtype", dt]})
        go(f"np.array dtype={dt}", "np.array", [me], {"dtype": ["dtype", dt], "copy": ["lit", True]})
    go("np.asarray(dtype) positional", "np.asarray", [me, ["dtype", "bool"]], {})
    go("np.asanyarray dtype", "np.asanyarray", [me], {"dtype": ["dtype", "float32"]})
    go("np.ascontiguousarray dtype", "np.ascontiguousarray", [me], {"dtype": ["dtype", "int64"]})
    go("np.array ndmin", "np.array", [me], {"ndmin": ["lit", 2]})


def first_bit_view(fmt):
    import laspy.point.dims as dims
    for subs in dims.COMPOSED_FIELDS[fmt].values():
        for sf in subs:
            if int(sf.mask) >> lsb_of(int(sf.mask)) == 1:
                return sf.name
    return "return_number"


def rand_subfield_data(rng, sfs, n, fmt=None, name=None):
    if fmt is None:
        fmt, name, composed, mask = rng.choice(sfs)
    elif name is None:
        fmt, name, composed, mask = rng.choice([q for q in sfs if q[0] == fmt])
    mask = [m for f, q, c, m in sfs if f == fmt and q == name][0]
    col = bytes(rng.choice([0, 0xFF, mask, (~mask) & 0xFF, rng.randrange(256), rng.randrange(256), rng.randrange(256)]) for _ in range(n))
    return {"kind": "subfield", "format": fmt, "field": name, "bytes": col.hex(), "via": rng.choice(["item", "attr", "record"])}


def sweep_keywords(sw, sfs):
    ctx, rng = sw.ctx, sw.ctx.rng
    case = 0
    picks = [(0, "return_number"), (6, "return_number"), (rng.choice([1, 3]), "number_of_returns"), (rng.choice([6, 7, 8]), "scanner_channel")]
    picks += [tuple(rng.choice(sfs)[:2]) for _ in range(ctx.n(3, 30))]
    for fmt, name in picks:
        if not any(f == fmt and q == name for f, q, c, m in sfs):
            continue
        n = rng.choice([1, 2, 9, 9, 33])
        data = rand_subfield_data(rng, sfs, n, fmt, name)
        case += 1
        data["case"] = case
        data["others"] = [rand_subfield_data(rng, sfs, n, rng.choice([fmt, fmt, rng.choice([0, 1, 6, 7])]))]
        env = build(data)
        names = [q for f, q, c, m in sfs if f == fmt and q != name]
        sweep_keyword_calls(sw, data, env, "subfield", rng.choice(names), first_bit_view(fmt), data["others"][0]["field"])
    for it in range(ctx.n(5, 40)):
        dim = ["x", "e", "e", "z", "e"][it % 5]
        k = [None, 1, 3, None, 2][it % 5]
        n = rng.choice([1, 2, 5, 12])
        data = rand_scaled_data(rng, dim=dim, n=n, k=k)
        case += 1
        data["case"] = case
        data["noise"] = rng.randrange(200)
        other = rand_scaled_data(rng, dim=dim, n=n, k=k, t=data["extra"]["type"].lstrip("123") if dim == "e" else None)
        other["format"] = data["format"]
        data["others"] = [other]
        env = build(data)
        shape = tuple(env["get"]().shape)
        multi = len(shape) > 1
        tag = "scaled" + ("" if not multi else f" {shape[1]}-element") + (" xyz" if data["dim"] in "xyz" else " extra" if not multi else "")
        sibling = rng.choice([d for d in "xyz" if d != data["dim"]]) if not multi else data["dim"]
        sweep_keyword_calls(sw, data, env, tag, sibling, first_bit_view(data["format"]), other["dim"])


# --------------------------------------------------------------------------------------------
# numpy functions taking SEVERAL views: of one record, of different records whose scalings are identical / nearly equal /
# different, sub-fields of the same byte, of different bytes, of different formats (same name, another mask)
# --------------------------------------------------------------------------------------------
CLOSENESS = ["identical", "1 ulp apart", "1e-9 relative apart", "1e-6 relative apart", "one grid step of offset apart", "offsets 1.0 apart",
             "clearly different"]


def nudge(rng, s, o, how):
    """(scale, offset) of another record relative to (s, o)"""
    if how == "identical":
        return s, o
    if how == "1 ulp apart":
        w = rng.choice(["s", "o", "so"])
        return (float(np.nextafter(s, np.inf)) if "s" in w else s), (float(np.nextafter(o, rng.choice([-np.inf, np.inf]))) if "o" in w else o)
    if how in ("1e-9 relative apart", "1e-6 relative apart"):
        eps = 1e-9 if "9" in how else 1e-6
        w = rng.choice(["s", "o", "so"])
        return (s * (1 + eps) if "s" in w else s), ((o * (1 + eps) if o else eps) if "o" in w else o)
    if how == "one grid step of offset apart":
        return s, o + s
    if how == "offsets 1.0 apart":
        return s, o + rng.choice([1.0, -1.0])
    return rng.choice([q for q in SCALES if q != s]), rng.choice([q for q in OFFSETS if q != o])


def spread_grid(rng, n, t="int32"):
    """stored integers over the whole range of the type: a scaling that differs in the last bit shows"""
    if t.startswith("float"):
        return [rng.choice([1, -1]) * rng.randrange(10 ** 3, 10 ** 6) for _ in range(n)]
    info = np.iinfo(t)
    hi, lo = int(info.max), int(info.min)
    return [rng.choice([hi, lo, hi - rng.randrange(min(1000, hi - lo)), rng.randrange(lo, hi + 1), rng.randrange(lo, hi + 1), rng.randrange(hi // 2, hi + 1)]) for _ in range(n)]


def scaled_family(rng, how, dim, k, n, m):
    """primary record and two others (n and m points) whose scaling of `dim` relates to the primary's as `how`; inside the
    primary record the next coordinate relates to `dim` the same way (x and y of one file with close offsets)"""
    fmt = rng.choice([0, 1, 3, 6, 7])
    t = rng.choice(GRID_TYPES) if dim == "e" else "int32"

    def one(cnt, scs, ofs, exs, exo, noise):
        d = {"kind": "scaled", "format": fmt, "scales": [fhex(q) for q in scs], "offsets": [fhex(q) for q in ofs],
             "xyz": [spread_grid(rng, cnt) for _ in range(3)], "via": rng.choice(["item", "attr", "record"]), "noise": noise,
             "dim": dim if dim != "e" else "edim"}
        if dim == "e":
            d["extra"] = {"name": "edim", "type": (str(k) if k > 1 else "") + t, "scales": [fhex(q) for q in exs], "offsets": [fhex(q) for q in exo],
                          "grid": [spread_grid(rng, k, t) for _ in range(cnt)], "k": k}
        return d
    i = "xyz".index(dim) if dim != "e" else 0
    s0, o0 = rng.choice(SCALES), rng.choice(OFFSETS)
    scs, ofs = [rng.choice(SCALES) for _ in range(3)], [rng.choice(OFFSETS) for _ in range(3)]
    scs[i], ofs[i] = s0, o0
    scs[(i + 1) % 3], ofs[(i + 1) % 3] = nudge(rng, s0, o0, how)
    exs, exo = [rng.choice(SCALES) for _ in range(k or 1)], [rng.choice(OFFSETS) for _ in range(k or 1)]
    prim = one(n, scs, ofs, exs, exo, rng.randrange(200))
    others = []
    for cnt in (n, m):
        s2, o2 = list(scs), list(ofs)
        s2[i], o2[i] = nudge(rng, s0, o0, how)
        e2 = [nudge(rng, a, b, how if (j == 0 or rng.random() < 0.5) else "identical") for j, (a, b) in enumerate(zip(exs, exo))]
        others.append(one(cnt, s2, o2, [q[0] for q in e2], [q[1] for q in e2], rng.randrange(200)))
    prim["others"] = others
    return prim


def multi_view_calls(rng, n, m, tail, A, B, C, S, bit, scaled):
    cmpA = A if not scaled else ["rec", 0, "intensity"] if not tail else ["arr", "int64", [n, 1], [i % 3 for i in range(n)]]
    """-> [(name, callable name, args, keywords)]: A = the view under test, B = the same dimension of a record with as many points,
    C = of a record with another number of points, S = another dimension of A's record, bit = a 1-bit field of A's record"""
    L = lambda *q: ["lst", list(q)]       # noqa: E731
    T = lambda *q: ["tup", list(q)]       # noqa: E731
    h = n // 2
    A1, A2 = A + [["slice", None, h, None]], A + [["slice", h, None, None]]
    mask = some_mask(rng, n, tail)
    out = [("concatenate [A, C]", "np.concatenate", [L(A, C)], {}), ("concatenate (C, A)", "np.concatenate", [T(C, A)], {}),
           ("concatenate [A, B]", "np.concatenate", [L(A, B)], {}), ("concatenate [A, B, C]", "np.concatenate", [L(A, B, C)], {}),
           ("concatenate [B, A, B]", "np.concatenate", [L(B, A, B)], {}),
           ("concatenate axis=0", "np.concatenate", [L(A, C)], {"axis": ["lit", 0]}),
           ("concatenate axis=None", "np.concatenate", [L(A, C)], {"axis": ["none"]}),
           ("concatenate dtype", "np.concatenate", [L(A, C)], {"dtype": ["dtype", "float64"]}),
           ("concatenate out", "np.concatenate", [L(A, C)], {"out": ["fill", "float64", [n + m] + tail, 0]}),
           ("concatenate chunks of one record", "np.concatenate", [L(A1, A2)], {}),
           ("concatenate chunks of two records", "np.concatenate", [L(A1, C, A2)], {}),
           ("concatenate [A, sibling]", "np.concatenate", [L(A, S)], {}), ("concatenate [sibling, A, B]", "np.concatenate", [L(S, A, B)], {}),
           ("concatenate [A, array]", "np.concatenate", [L(A, ["arr", "float64", [1] + tail, [fhex(0.5)] * int(np.prod([1] + tail))], B)], {}),
           ("hstack", "np.hstack", [T(A, B)], {}), ("vstack", "np.vstack", [L(A, B)], {}), ("stack", "np.stack", [L(A, B)], {}),
           ("stack axis=1", "np.stack", [T(A, B)], {"axis": ["lit", 1]}), ("column_stack", "np.column_stack", [T(A, B, S)], {}),
           ("dstack", "np.dstack", [L(A, B)], {}), ("append", "np.append", [A, C], {}), ("block", "np.block", [L(A, B)], {}),
           ("r_", "np.r_", [A, C], {}), ("c_", "np.c_", [A, B], {}),
           ("where(mask, A, B)", "np.where", [mask, A, B], {}), ("where(mask, B, A)", "np.where", [mask, B, A], {}),
           ("where(bit field, A, B)", "np.where", [bit, A, B], {}) if not tail else None,
           ("where(A > c, A, B)", "np.where", [["cmp", "gt", cmpA, ["int", "1"]], A, B], {}),
           ("select", "np.select", [L(mask, ["arr", "bool", [n] + [1] * len(tail), [i % 2 == 0 for i in range(n)]]), L(A, B)], {}),
           ("choose", "np.choose", [["arr", "int64", [n] + [1] * len(tail), [i % 2 for i in range(n)]], L(A, B)], {}),
           ("isin(A, C)", "np.isin", [A, C], {}), ("isin(C, A)", "np.isin", [C, A], {}), ("isin(A, B) invert", "np.isin", [A, B], {"invert": ["lit", True]}),
           ("intersect1d", "np.intersect1d", [A, C], {}), ("union1d", "np.union1d", [A, C], {}), ("setdiff1d", "np.setdiff1d", [C, A], {}),
           ("setxor1d", "np.setxor1d", [A, B], {}),
           ("array_equal(A, B)", "np.array_equal", [A, B], {}), ("array_equal(A, C)", "np.array_equal", [A, C], {}),
           ("array_equiv", "np.array_equiv", [B, A], {}), ("allclose", "np.allclose", [A, B], {}), ("isclose", "np.isclose", [A, B], {"rtol": ["lit", 0.0], "atol": ["lit", 0.0]}),
           ("searchsorted(sorted A, C)", "np.searchsorted", [["sorted", A], C], {}) if not tail else None,
           ("searchsorted side", "np.searchsorted", [["sorted", C], A], {"side": ["lit", "right"]}) if not tail else None,
           ("digitize", "np.digitize", [C, ["sorted", A]], {}) if not tail else None,
           ("interp", "np.interp", [C, ["sorted", A], B], {}) if not tail else None,
           ("lexsort", "np.lexsort", [T(A, B)], {}), ("outer", "np.outer", [A, C], {}), ("subtract.outer", "np.subtract.outer", [C, A], {}),
           ("dot", "np.dot", [A, B], {}) if not tail else None, ("vdot", "np.vdot", [A, B], {}), ("inner", "np.inner", [A, B], {}),
           ("cross", "np.cross", [A, B], {}) if tail == [3] else None,
           ("histogram2d", "np.histogram2d", [A, B], {"bins": ["lit", 3]}) if not tail else None,
           ("histogram bins=sorted C", "np.histogram", [A], {"bins": ["sorted", C]}) if not tail else None,
           ("maximum", "np.maximum", [A, B], {}), ("minimum", "np.minimum", [B, A], {}), ("hypot", "np.hypot", [A, B], {}),
           ("arctan2", "np.arctan2", [A, B], {}), ("fmax", "np.fmax", [A, B], {}), ("copysign", "np.copysign", [A, B], {}),
           ("add", "np.add", [A, B], {}), ("subtract", "np.subtract", [A, B], {}), ("multiply", "np.multiply", [A, S], {}), ("divide", "np.divide", [B, A], {}),
           ("subtract out where", "np.subtract", [A, B], {"out": ["fill", "float64", [n] + tail, 0], "where": mask}),
           ("hypot out where(A != 0)", "np.hypot", [A, B], {"out": ["fill", "float64", [n] + tail, 0], "where": ["cmp", "ne", cmpA, ["int", "0"]]}),
           ("maximum.reduce [A, B]", "np.maximum.reduce", [L(A, B)], {}), ("add.reduce (A, B, S)", "np.add.reduce", [T(A, B, S)], {}),
           ("A + B", "operator.add", [A, B], {}), ("A - B", "operator.sub", [A, B], {}), ("B - A", "operator.sub", [B, A], {}),
           ("A * S", "operator.mul", [A, S], {}), ("A / B", "operator.truediv", [A, B], {}), ("A // B", "operator.floordiv", [A, B], {}),
           ("copyto(view source)", "np.copyto", [["fill", "float64", [n] + tail, 0], B], {"where": mask}),
           ("putmask(values two views)", "np.putmask", [["fill", "float64", [n + m] + tail, 0],
                                                       ["arr", "bool", [n + m] + [1] * len(tail), [i % 2 == 0 for i in range(n + m)]], A], {})]
    if not scaled:        # comparisons of scaled views are excluded by the property
        out += [("A < B", "operator.lt", [A, B], {}), ("A <= S", "operator.le", [A, S], {}), ("A == B", "operator.eq", [A, B], {}),
                ("A != S", "operator.ne", [A, S], {}), ("A >= B", "operator.ge", [A, B], {}), ("less", "np.less", [A, B], {}),
                ("equal out", "np.equal", [A, B], {"out": ["fill", "bool", [n] + tail, 0], "where": mask}),
                ("bitwise_and", "np.bitwise_and", [A, B], {}), ("left_shift", "np.left_shift", [A, S], {}),
                ("bincount weights", "np.bincount", [A], {"weights": B}), ("add.at(indices A, values B)", "np.add.at", [["fill", "float64", [256], 0], A, B], {}),
                ("take(indices view)", "np.take", [["arr", "int64", [300], list(range(300))], A], {})]
    return [q for q in out if q is not None]


def sweep_multi_view(sw, sfs):
    ctx, rng = sw.ctx, sw.ctx.rng
    case = 0
    # ---- scaled views of several records
    for rep in range(ctx.n(2, 10)):
        for how in CLOSENESS:
            for dim, k in (("x", None), ("y", None), ("z", None), ("e", 1), ("e", 2), ("e", 3)):
                if not ctx.thorough() and rng.random() < 0.34 and dim in "yz":
                    continue
                n, m = rng.choice([1, 3, 6, 9]), rng.choice([0, 1, 4, 7])
                data = scaled_family(rng, how, dim, k, n, m)
                case += 1
                data["case"] = case
                env = build(data)
                d = data["dim"]
                tail = list(env["get"]().shape[1:])
                sib = ("xyz"["xyz".index(d) + 1 - 3] if d in "xyz" else rng.choice("xyz")) if not tail else d
                tag = "scaled" + ("" if not tail else f" {tail[0]}-element") + (" xyz" if d in "xyz" else " extra" if not tail else "")
                ctx.count(f"multi-view scalings {how}")
                for name, fn, args, kw in multi_view_calls(rng, n, m, tail, ["rec", 0, d], ["rec", 1, d], ["rec", 2, d], ["rec", 0, sib],
                                                          ["rec", 0, first_bit_view(data["format"])], True):
                    sw.check(f"multi-view {tag} {name} (scalings {how})", data, ["call", fn, args, kw], env, ("mv", case, name), quiet_viewraises=False)
    # ---- sub-fields: same byte / another byte / another record of the format / of another format (same name, another mask)
    for rep in range(ctx.n(30, 200)):
        fmt, name, composed, mask = rng.choice(sfs)
        n, m = rng.choice([1, 3, 9]), rng.choice([0, 2, 9])
        data = rand_subfield_data(rng, sfs, n, fmt, name)
        same = [q for f, q, c, mm in sfs if f == fmt and c == composed and q != name]
        diff = [q for f, q, c, mm in sfs if f == fmt and c != composed]
        ofmt = rng.choice([fmt, rng.choice([f for f in sorted({q[0] for q in sfs}) if any(g == f and q == name for g, q, c, mm in sfs)])])
        rel = rng.choice(["same byte"] * bool(same) + ["another byte"] * bool(diff) + ["same field"])
        sib = rng.choice(same) if rel == "same byte" else rng.choice(diff) if rel == "another byte" else name
        data["others"] = [rand_subfield_data(rng, sfs, n, ofmt, name), rand_subfield_data(rng, sfs, m, ofmt, name)]
        case += 1
        data["case"] = case
        env = build(data)
        why = f"{rel}, other record of {'the same' if ofmt == fmt else 'another'} format"
        ctx.count(f"multi-view sub-fields {why}")
        for nm, fn, args, kw in multi_view_calls(rng, n, m, [], ["rec", 0, name], ["rec", 1, name], ["rec", 2, name], ["rec", 0, sib],
                                                 ["rec", 0, first_bit_view(fmt)], False):
            sw.check(f"multi-view subfield {nm} ({why})", data, ["call", fn, args, kw], env, ("mv", case, nm))
    # ---- views of different classes in one call: scaled + sub-field + plain dimension
    for rep in range(ctx.n(14, 80)):
        how = rng.choice(CLOSENESS)
        n, m = rng.choice([2, 5, 9]), rng.choice([0, 3])
        data = scaled_family(rng, how, rng.choice("xyz"), None, n, m)
        case += 1
        data["case"] = case
        env = build(data)
        d = data["dim"]
        fmt = data["format"]
        f1 = rng.choice([q for f, q, c, mm in sfs if f == fmt])
        for nm, fn, args, kw in multi_view_calls(rng, n, m, [], ["rec", 0, d], ["rec", 1, f1], ["rec", 2, rng.choice([d, f1, "intensity"])],
                                                 ["rec", 0, rng.choice([f1, "intensity"])], ["rec", 1, first_bit_view(fmt)], True):
            sw.check(f"multi-view mixed {nm}", data, ["call", fn, args, kw], env, ("mv", case, nm))


# --------------------------------------------------------------------------------------------
# sizes: records above 2^20 points and of an exact multiple of 65536 points
# --------------------------------------------------------------------------------------------
def sweep_sizes(sw, sfs):
    ctx, rng = sw.ctx, sw.ctx.rng
    sizes = [2 ** 20 + 3, 2 * 65536] if not ctx.thorough() else [2 ** 20 + 3, 2 * 65536, 65536, 2 ** 21, 2 ** 20 - 1]
    for n in sizes:
        fmt, name, composed, mask = rng.choice([q for q in sfs if q[0] in (0, 1, 6)])
        maxv = mask >> lsb_of(mask)
        data = {"kind": "subfield", "format": fmt, "field": name, "pattern": ["pattern", n, rng.choice([1, 3, 7, 37, 101]), rng.randrange(256)], "via": "item"}
        env = build(data)
        exprs = [["op", op, ["int", str(c)]] for op in CMP for c in (1, maxv, maxv + 1)] \
            + [["op", "lt", ["float", fhex(1.5)]], ["op", "ge", ["np", "uint8", str(maxv)]], ["op", "add", ["int", "1"]], ["op", "eq", ["self"]]] \
            + [["fn", f] for f in ("np.sum", "np.max", "max()", "min()", "np.unique_counts", "np.count_nonzero", "np.concatenate_self", "np.bincount", "np.array", "np.argmax", "np.mean")] \
            + [["seq", ["idx", ["slice", 65535, 65538, None]], ["op", "le", ["int", str(maxv)]]], ["seq", ["idx", ["slice", None, None, 65536]], ["fn", "np.array"]],
               ["seq", ["idx", ["slice", 2 ** 16 - 1, None, None]], ["fn", "np.sum"]], ["idx", ["int", n - 1]], ["idx", ["int", 65536]],
               ["idx", ["nparr", [65536, n - 1, -1, -65537] + [65535 + 37 * j for j in range(1, 30)], "int32"]],
               ["idx", ["nparr", [65536 + 5, n - 2] + [n - 1 - 1001 * j for j in range(30)], "uint32"]],
               ["idx", ["nparr", [70000, -70000] + [-65537 - 91 * j for j in range(30)], "int64"]], ["idx", ["range", n - 1, 65000, -4099]],
               ["idx", ["npint", 65536 + 9, "uint32"]],
               ["call", "np.add", [["self"], ["int", "1"]], {"out": ["fill", "float64", [n], 0], "where": ["cmp", "ne", ["self"], ["int", "0"]]}],
               ["call", "np.concatenate", [["lst", [["rec", 0, name, ["slice", None, 65536, None]], ["rec", 0, name, ["slice", 65536, None, None]]]]], {}],
               ["call", "np.isin", [["self"], ["lit", [0, maxv]]], {}]]
        for e in exprs:
            sw.check(f"size subfield {expr_str(e).split('(')[0][:24]} n={'2^20+3' if n == 2 ** 20 + 3 else n}", data, e, env, ("size", n, str(e)))
        sdata = {"kind": "scaled", "format": rng.choice([0, 3, 6]), "scales": [fhex(rng.choice(SCALES)) for _ in range(3)],
                 "offsets": [fhex(rng.choice(OFFSETS)) for _ in range(3)], "xyz": ["pattern", n, rng.choice([1, 977, 4099]), rng.randrange(-10 ** 6, 10 ** 6)],
                 "via": "item", "dim": rng.choice("xyz")}
        env = build(sdata)
        d = sdata["dim"]
        exprs = [["op", op, o] for op in ARITH for o in (["int", "2"], ["float", fhex(0.5)])] \
            + [["fn", f] for f in ("np.sum", "np.max", "np.min", "max()", "min()", "np.mean", "np.concatenate_self", "np.array", "np.argmax", "np.ptp", "np.unique")] \
            + [["seq", ["idx", ["slice", 65535, 65538, None]], ["fn", "np.array"]], ["seq", ["idx", ["slice", None, None, 65536]], ["fn", "max()"]],
               ["seq", ["idx", ["slice", 2 ** 16, None, None]], ["fn", "min()"]], ["idx", ["int", n - 1]], ["idx", ["int", 65536]],
               ["idx", ["nparr", [65536, n - 1, -1, -65537] + [65535 + 37 * j for j in range(1, 30)], "int32"]],
               ["idx", ["nparr", [65536 + 5, n - 2] + [n - 1 - 1001 * j for j in range(30)], "uint32"]],
               ["idx", ["nparr", [70000, -70000] + [-65537 - 91 * j for j in range(30)], "int64"]], ["idx", ["range", n - 1, 65000, -4099]],
               ["call", "np.multiply", [["self"], ["float", fhex(2.0)]], {"out": ["fill", "float64", [n], 0], "where": ["cmp", "gt", ["rec", 0, d.upper()], ["int", "0"]]}],
               ["call", "np.concatenate", [["lst", [["rec", 0, d, ["slice", None, 65536, None]], ["rec", 0, d, ["slice", 65536, None, None]]]]], {}],
               ["call", "np.hypot", [["self"], ["rec", 0, "xyz"[("xyz".index(d) + 1) % 3]]], {}]]
        for e in exprs:
            sw.check(f"size scaled {expr_str(e).split('(')[0][:24]} n={'2^20+3' if n == 2 ** 20 + 3 else n}", sdata, e, env, ("size", n, str(e)))


# --------------------------------------------------------------------------------------------
# index forms: python ranges of every sign combination, integer index arrays of every dtype, tuples, nested lists,
# Ellipsis - on every class of view, alone and followed by the expressions the selection is used in
# --------------------------------------------------------------------------------------------
def range_grid(n):
    h = max(n // 2, 1)
    starts = [0, 1, n - 1, n, -1, -n, -h, -n - 1]
    stops = [0, 1, n - 1, n, -1, -n, -h, -n - 1]
    return [["range", a, b, c] for a in starts for b in stops for c in (1, 2, -1, -3)]


def index_forms_1d(n):
    """deterministic forms on an axis of n >= 3 points -> [(index spec, class)]"""
    out = [(r, "range") for r in range_grid(n)]
    for dt in INT_DTYPES + ["intp"]:
        signed = not dt.startswith("u")
        out += [(["nparr", [0, n - 1, 1], dt], "index array"), (["nparr", [], dt], "index array"), (["nparr", 2, dt], "0-d index array"),
                (["nparr", [[0, 1], [n - 1, 0]], dt], "nested index list"), (["npint", n - 1, dt], "numpy int")]
        if signed:
            out += [(["nparr", [-1, 0, -n, n - 1], dt], "index array"), (["nparr", [-n - 1], dt], "index array"), (["npint", -1, dt], "numpy int"),
                    (["nparr", -1, dt], "0-d index array")]
    full = ["slice", None, None, None]
    inner = [["int", 1], ["int", -1], ["slice", 1, -1, None], ["slice", None, None, -1], ["list", [0, -1]], ["list", []], ["range", n - 1, -1, -1],
             ["range", -2, 0, 1], ["nparr", [-1, 0], "int8"], ["nparr", [1], "uint16"], ["mask", [i % 2 == 0 for i in range(n)]], ["npint", 1, "int64"]]
    for q in inner:
        out += [(["tuple", [q]], "tuple"), (["tuple", [q, ["ellipsis"]]], "tuple"), (["tuple", [["ellipsis"], q]], "tuple")]
    out += [(["ellipsis"], "ellipsis"), (["tuple", []], "ellipsis"), (["tuple", [["ellipsis"]]], "ellipsis"),
            (["list", [[0, 1], [2, 0]]], "nested index list"), (["list", [[-1]]], "nested index list"), (["list", [[], []]], "nested index list"),
            (["list", [True, False] + [True] * (n - 2)], "mask"), (["tuple", [full]], "tuple"), (["tuple", [full, full]], "tuple")]
    return out


def index_forms_2d(n, k):
    """(rows, cols) pairs of every two axis forms on a (n, k) view, n >= 3"""
    rows = [["int", 1], ["int", -1], ["npint", 0, "int32"], ["slice", None, None, -1], ["slice", 1, None, 2], ["list", [0, -1]], ["range", n - 1, -1, -1],
            ["range", -2, 0, 1], ["range", 0, n, 2], ["nparr", [-1, 0], "int8"], ["nparr", [1, 0], "uint64"], ["mask", [i % 2 == 0 for i in range(n)]],
            ["ellipsis"]]
    cols = [["int", 0], ["int", -1], ["npint", k - 1, "uint8"], ["slice", None, None, None], ["slice", None, None, -1], ["list", [k - 1, 0]],
            ["range", k - 1, -1, -1], ["range", -1, 0, 1], ["range", 0, k, 1], ["nparr", [-1, 0], "int16"], ["nparr", [0], "uint8"], ["ellipsis"]]
    out = []
    for a in rows:
        for b in cols:
            if a[0] == "ellipsis" and b[0] == "ellipsis":
                continue
            out.append((["tuple", [a, b]], f"({a[0]}, {b[0]})"))
    return out


def sweep_index_forms(sw, sfs):
    ctx, rng = sw.ctx, sw.ctx.rng
    datasets = []
    picked = rng.sample(sfs, ctx.n(5, 40)) + [q for q in sfs if q[1] == "return_number" and q[0] in (1, 6)]
    for fmt, name, composed, mask in picked:
        n = rng.choice([9, 9, 12, 40])
        datasets.append((rand_subfield_data(rng, sfs, n, fmt, name), "subfield", mask))
    for dim, k in [("x", None), ("z", None), ("e", 1), ("e", 2), ("e", 3)] * ctx.n(1, 4):
        datasets.append((rand_scaled_data(rng, dim=dim, n=rng.choice([9, 12]), k=k), None, None))
    # 300 points: entries above 127 / 255 and negative entries whose 8-bit wrap is again a valid position
    fmt, name, composed, mask = rng.choice(sfs)
    datasets.append(({"kind": "subfield", "format": fmt, "field": name, "pattern": ["pattern", 300, rng.choice([3, 7, 37]), rng.randrange(256)], "via": "item"}, "subfield", mask))
    for dim, k in (("x", None), ("e", 2)):
        datasets.append((rand_scaled_data(rng, dim=dim, n=300, k=k), None, None))
    for di, (data, tag, mask) in enumerate(datasets):
        env = build(data)
        shape = tuple(env["get"]().shape)
        n = shape[0]
        multi = len(shape) > 1
        if tag is None:
            tag = "scaled" + ("" if not multi else f" {shape[1]}-element") + (" xyz" if data["dim"] in "xyz" else " extra" if not multi else "")
        maxv = (mask >> lsb_of(mask)) if mask else 3
        if n == 300:
            forms = [(["nparr", e, dt], "index array") for dt in INT_DTYPES[2:] + ["intp"]
                     for e in ([299, 256, 255, 128, 1], [200], [[257, 3], [130, 299]]) + (([-1, -44, -300, -129, 256], [-257]) if not dt.startswith("u") else ())]
            forms += [(["npint", e, dt], "numpy int") for dt in ("int16", "uint16", "int64") for e in (299, 256, 200)] + [(["npint", -257, "int16"], "numpy int")]
            forms += [(["range", 299, 250, -7], "range"), (["range", -300, -40, 128], "range"), (["list", [256, -257, 299]], "index list")]
            if multi:
                forms += [(["tuple", [q, ["int", 1]]], f"({c}, int)") for q, c in forms[:12]]
        else:
            forms = index_forms_1d(n) + (index_forms_2d(n, shape[1]) if multi else [])
        for ix, cls in forms:
            v = sw.check(f"{tag} index {cls}", data, ["idx", ix], env, ("ixf", di, str(ix)), quiet_viewraises=True)
            if v != "same" or (cls == "range" and rng.random() < 0.6):
                continue
            if tag == "subfield":
                follow = rng.choice([["op", rng.choice(CMP), ["int", str(rng.choice([1, maxv, maxv + 1]))]], ["fn", rng.choice(["max()", "np.sum", "np.unique"])],
                                     ["op", rng.choice(ARITH), ["int", "2"]]])
            else:
                follow = rng.choice([["fn", rng.choice(["max()", "min()", "np.sum", "np.max", "np.asarray_f32"])], ["op", rng.choice(ARITH), ["float", fhex(2.5)]]])
            fname = follow[1] if follow[0] == "fn" else SYM[follow[1]]
            sw.check(f"{tag} index {cls} then {fname}", data, ["seq", ["idx", ix], follow], env, ("ixf2", di, str(ix), str(follow)), quiet_viewraises=True)


# --------------------------------------------------------------------------------------------
# the view as the RIGHT operand of a python number / sequence, unary operators, operators the views do not define,
# augmented assignments.  Where the view raises TypeError there is no result (counted); where it answers, numpy's answer
# on np.array(view) is the reference.
# --------------------------------------------------------------------------------------------
def left_operands(shape, maxv):
    n = shape[0]
    k = shape[1] if len(shape) > 1 else None
    out = [["int", str(v)] for v in (0, 1, 2, 3, 10, 100, -1, -7, 255, 256, maxv, maxv + 1, 2 ** 31, 2 ** 70)]
    out += [["float", fhex(v)] for v in (0.0, 0.5, 2.5, 1000.0, -1.5, 1e300, float("nan"), float("inf"))]
    out += [["bool", True], ["bool", False]]
    ints = [(i * 7 + 3) % (maxv + 2) for i in range(n)]
    if k is None:
        out += [["list", ints], ["tuple", ints], ["list", [fhex(v + 0.5) for v in ints]], ["list", []], ["tuple", [3]], ["list", [2]],
                ["list", [bool(v & 1) for v in ints]], ["list", [ints, ints]]]
    else:
        out += [["list", [[v] for v in ints]], ["tuple", [[v] for v in ints]], ["list", list(range(1, k + 1))], ["tuple", [fhex(v + 0.5) for v in range(k)]],
                ["list", [[v + j for j in range(k)] for v in ints]], ["list", ints], ["list", []]]
    out += [["np", "int64", "3"], ["np", "uint8", "2"], ["npfloat", "float32", fhex(1.5)], ["npbool", True],
            ["arr", "int64", list(shape), [(i * 5 + 1) % 9 for i in range(int(np.prod(shape)))]],
            ["none"], ["str", "a"], ["complex", 1.0, 2.0]]
    return out


def left_class(o):
    return {"int": "python int", "float": "python float", "bool": "python bool", "list": "python list", "tuple": "python tuple", "np": "numpy scalar",
            "npfloat": "numpy scalar", "npbool": "numpy scalar", "arr": "array"}.get(o[0], "other")


def sweep_reflected(sw, data, env, tag, scaled, maxv, full=True):
    """full=False: the operators that do not depend on the mask (delegations / TypeError) on a sample of the left operands"""
    ctx = sw.ctx
    shape = tuple(env["get"]().shape)
    key = (tag, data.get("field"), data.get("format"), data.get("case"))
    lefts = left_operands(shape, maxv)
    some = set(ctx.rng.sample(range(len(lefts)), 8)) if not full else None
    for j, o in enumerate(lefts):
        for op in OPS + EXTRA_BIN:
            if scaled and op in CMP:
                continue        # comparisons of scaled views are excluded by the property (c < v is v > c)
            if some is not None and op not in CMP and j not in some:
                continue
            python_left = o[0] in ("int", "float", "bool", "list", "tuple", "none", "str", "complex")
            # python reflects a comparison onto the view's own method: a result is expected; arithmetic with a python object on
            # the left needs a reflected method the views do not have: TypeError, no result
            quiet = (python_left and op not in CMP) or op in EXTRA_BIN
            sw.check(f"{tag} reflected {SYM[op]} {left_class(o)} on the left", data, ["rop", op, o], env, ("refl", key, op, str(o)[:60]), quiet_viewraises=quiet)
    for o in left_operands(shape, maxv)[:26:3] if full else []:
        for op in EXTRA_BIN:
            sw.check(f"{tag} {SYM[op]} {left_class(o)}", data, ["op", op, o], env, ("xop", key, op, str(o)[:60]), quiet_viewraises=True)
        for fn in ("divmod", "rdivmod"):
            sw.check(f"{tag} {fn} {left_class(o)}", data, ["fn", fn, o], env, ("xop", key, fn, str(o)[:60]), quiet_viewraises=True)
    for u in UNARY:
        sw.check(f"{tag} unary {UNARY[u]}", data, ["unary", u], env, ("unary", key, u), quiet_viewraises=True)


def inplace_operands(shape, maxv):
    n = shape[0]
    cnt = int(np.prod(shape))
    return [["int", "1"], ["int", "2"], ["int", "0"], ["int", str(maxv)], ["int", "300"], ["int", "-1"], ["float", fhex(0.5)], ["float", fhex(2.0)],
            ["bool", True], ["np", "uint8", "2"], ["np", "int64", "100"], ["npfloat", "float32", fhex(1.5)],
            ["arr", "int64", list(shape), [(i * 5 + 1) % 4 + 1 for i in range(cnt)]], ["arr", "uint8", [n] + [1] * (len(shape) - 1), [(i % 3) + 1 for i in range(n)]],
            ["arr", "float64", list(shape), [fhex(i * 0.5 + 0.5) for i in range(cnt)]], ["list", [2] * n] if len(shape) == 1 else ["list", [[2]] * n], ["self"]]


def sweep_inplace(sw, data, tag, maxv, shape):
    ctx, rng = sw.ctx, sw.ctx.rng
    key = (tag, data.get("field"), data.get("format"), data.get("case"))
    opnds = inplace_operands(shape, maxv)
    for op in INPLACE:
        for o in (opnds if ctx.thorough() or op in INPLACE[:5] else rng.sample(opnds, 4)):
            sw.check(f"{tag} in-place {ISYM[op]} {operand_class(o)}", data, ["iop", op, o], None, ("iop", key, op, str(o)[:60]),
                     quiet_viewraises=op not in INPLACE[:5])
    for op in INPLACE[:5] + ["imod"]:
        for o in rng.sample(opnds[:15], 5) + [opnds[0]]:
            for via in ("item", "attr", "record"):
                d = dict(data, via=via)
                sw.check(f"{tag} in-place las.<dim> {ISYM[op]} {operand_class(o)}", d, ["iattr", op, o], None, ("iattr", key, via, op, str(o)[:60]),
                         quiet_viewraises=op == "imod")


def sweep_operand_sides(sw, sfs):
    ctx, rng = sw.ctx, sw.ctx.rng
    case = 0
    seen = set()
    for fmt, name, composed, mask in sfs:
        maxv = mask >> lsb_of(mask)
        data = arange_data(fmt, name, via=rng.choice(["item", "attr", "record"]))
        env = build(data)
        sweep_reflected(sw, data, env, "subfield", False, maxv, full=ctx.thorough() or mask not in seen)
        seen.add(mask)
    for fmt, name, composed, mask in rng.sample(sfs, ctx.n(4, 30)) + [q for q in sfs if q[:2] in ((1, "return_number"), (6, "classification_flags"))][:2]:
        case += 1
        data = rand_subfield_data(rng, sfs, rng.choice([1, 3, 9]), fmt, name)
        data["case"] = case
        sweep_inplace(sw, data, "subfield", mask >> lsb_of(mask), (len(bytes.fromhex(data["bytes"])),))
    for it in range(ctx.n(10, 60)):
        dim = ["x", "e", "e", "z", "e"][it % 5]
        k = [None, 1, 3, None, 2][it % 5]
        case += 1
        data = rand_scaled_data(rng, dim=dim, n=rng.choice([1, 2, 5, 9]), k=k)
        data["case"] = case
        env = build(data)
        shape = tuple(env["get"]().shape)
        multi = len(shape) > 1
        tag = "scaled" + ("" if not multi else f" {shape[1]}-element") + (" xyz" if data["dim"] in "xyz" else " extra" if not multi else "")
        sweep_reflected(sw, data, env, tag, True, 7)
        if it < ctx.n(5, 60):
            sweep_inplace(sw, data, tag, 7, shape)


# --------------------------------------------------------------------------------------------
# conversions of scaled views to a narrower floating type: values where a reduced-precision or double rounding shows
# --------------------------------------------------------------------------------------------
def sweep_conversions(sw):
    """np.asarray(view, dtype=float32 / float16) must be np.array(view).astype(dtype): stored integers above 2^24 (ordinary
    projected coordinates), large offsets, and values next to the halfway points of float16 / float32 (scale 2^-30: the value
    is 1 + an odd multiple of 2^-11 (2^-24) +- 2^-30, rounding through an intermediate precision goes the other way)"""
    ctx, rng = sw.ctx, sw.ctx.rng
    half16 = [2 ** 30 + (2 * k + 1) * 2 ** 19 + d for k in (0, 1, 2, 5, 100, 511) for d in (1, -1, 0)]
    half32 = [2 ** 30 + (2 * k + 1) * 2 ** 6 + d for k in (0, 1, 7, 1000, 2 ** 20) for d in (1, -1, 0)]
    utm = [63701224 + rng.randrange(150000) for _ in range(12)] + [485123017 + rng.randrange(150000) for _ in range(6)]
    sets = [("halfway", 2.0 ** -30, 0.0, half16 + half32), ("halfway negative", 2.0 ** -30, -2.0, half16 + half32), ("projected", 0.01, 0.0, utm),
            ("large offset", 0.001, 1e6, [rng.randrange(-2 ** 31, 2 ** 31) for _ in range(18)]),
            ("tiny scale", 1e-9, 123456.789, [rng.randrange(-2 ** 31, 2 ** 31) for _ in range(18)])]
    for it, (why, sc, of, grid) in enumerate(sets):
        for dim, k in (("x", None), ("e", 1), ("e", 3), ("z", None)):
            n = len(grid)
            data = {"kind": "scaled", "format": rng.choice([0, 1, 3, 6, 7]), "scales": [fhex(sc)] * 3, "offsets": [fhex(of)] * 3,
                    "xyz": [list(grid), list(grid[::-1]), list(grid)], "via": rng.choice(["item", "attr", "record"]), "dim": dim if dim != "e" else "edim",
                    "case": f"conv{it}{dim}{k}"}
            if dim == "e":
                rows = [[grid[(i + j) % n] for j in range(k)] for i in range(n)]
                data["extra"] = {"name": "edim", "type": (str(k) if k > 1 else "") + "int32", "scales": [fhex(sc)] * k, "offsets": [fhex(of)] * k, "grid": rows, "k": k}
            env = build(data)
            tag = "scaled conversion"
            for fn in CONVERSIONS + ["np.array_f32", "np.asarray", "np.array"]:
                sw.check(f"{tag} {fn} ({why})", data, ["fn", fn], env, ("conv", it, dim, k, fn))
            for dt in ("float32", "float16", "float64", "longdouble", "int64", "complex64"):
                for name, kw in (("np.asarray", {}), ("np.array", {"copy": ["lit", True]}), ("np.asanyarray", {}), ("np.ascontiguousarray", {})):
                    sw.check(f"{tag} {name} dtype={dt} ({why})", data, ["call", name, [["self"]], dict(kw, dtype=["dtype", dt])], env, ("convk", it, dim, k, name, dt))
                sw.check(f"{tag} np.concatenate dtype={dt} ({why})", data, ["call", "np.concatenate", [["lst", [["self"], ["self"]]]], {"dtype": ["dtype", dt], "casting": ["lit", "unsafe"]}],
                         env, ("convc", it, dim, k, dt))
                sw.check(f"{tag} np.add dtype={dt} ({why})", data, ["call", "np.add", [["self"], ["int", "0"]], {"dtype": ["dtype", dt], "casting": ["lit", "unsafe"]}],
                         env, ("conva", it, dim, k, dt))
            for ix in (["slice", None, None, 2], ["list", [0, -1, 3]], ["range", n - 1, -1, -1]):
                for fn in ("np.asarray_f16", "np.asarray_f32", "f16[:] = v"):
                    sw.check(f"{tag} index then {fn} ({why})", data, ["seq", ["idx", ix], ["fn", fn]], env, ("convi", it, dim, k, str(ix), fn), quiet_viewraises=True)


def run_sweep(ctx):
    sw = Sweep(ctx)
    sfs = sub_fields()
    with warnings.catch_warnings(), np.errstate(all="ignore"):
        warnings.simplefilter("ignore")
        sweep_subfield_operators(sw, sfs)
        sweep_subfield_functions(sw, sfs)
        sweep_scaled(sw, ctx.n(60, 600))
        sweep_scaled_multi(sw)
        sweep_stale(sw, sfs, ctx.n(300, 3000))
        sweep_keywords(sw, sfs)
        sweep_multi_view(sw, sfs)
        sweep_sizes(sw, sfs)
        sweep_index_forms(sw, sfs)
        sweep_operand_sides(sw, sfs)
        sweep_conversions(sw)
    return sw


_SWEEP = {}


def get_sweep(ctx):
    if "sw" not in _SWEEP:
        _SWEEP["sw"] = run_sweep(ctx)
    return _SWEEP["sw"]


# --------------------------------------------------------------------------------------------
# correspondence with the extracted model
# --------------------------------------------------------------------------------------------
class Spy:
    """an operand numpy refuses (__array_ufunc__ = None): the reflected method records the operator numpy was asked to
    evaluate and the array it was asked on"""
    __array_ufunc__ = None

    def __init__(self):
        self.log = None


def _spy_method(name):
    def f(self, other):
        self.log = (name, np.array(other))
        return "spy"
    return f


for _n, _refl in (("add", "__radd__"), ("sub", "__rsub__"), ("mul", "__rmul__"), ("truediv", "__rtruediv__"), ("floordiv", "__rfloordiv__"),
                  ("lt", "__gt__"), ("le", "__ge__"), ("gt", "__lt__"), ("ge", "__le__"), ("eq", "__eq__"), ("ne", "__ne__")):
    setattr(Spy, _refl, _spy_method(_n))
Spy.__hash__ = None


def triples(tok):
    return [] if tok == "-" else [tuple(int(q) for q in t.split(".")) for t in tok.split(",")]


def nd_expected(tok, env):
    """model nd token -> (squeezed shape, float64 array) evaluated as (x * scale[s]) + offset[o] in the grid's dtype"""
    if tok == "none":
        return None
    parts = tok.split(":")
    gdt = env["grid"]().dtype
    if parts[0] == "sc":
        ts, shape = triples(parts[1]), ()
    elif parts[0] == "a1":
        ts, shape = triples(parts[2]), (int(parts[1]),)
    else:
        ts, shape = triples(parts[3]), (int(parts[1]), int(parts[2]))
    xs = np.array([t[2] for t in ts], dtype=object).astype(gdt) if ts else np.zeros(0, dtype=gdt)
    sv = np.array([env["svec"][t[0]] for t in ts], dtype=np.float64)
    ov = np.array([env["ovec"][t[1]] for t in ts], dtype=np.float64)
    return ((xs * sv) + ov).reshape(shape)


def resolve_axis(s, n):
    """numpy's resolution of one axis index to ('i', position) | ('s', positions); None when numpy would raise"""
    t = s[0]
    try:
        mk_index(s)
    except Exception:
        return None           # the index itself cannot be built (np.uint8(-1), range(.., 0))
    if t == "int":
        i = s[1] + n if s[1] < 0 else s[1]
        return ("i", i) if 0 <= i < n else None
    if t == "slice":
        return ("s", list(range(n))[slice(s[1], s[2], s[3])], "slice")
    if t == "npint":
        i = s[1] + n if s[1] < 0 else s[1]
        return ("i", i) if 0 <= i < n else None
    if t in ("list", "nparr", "range"):
        flat = list(mk_index(s)) if t == "range" else s[1]
        if not isinstance(flat, list) or any(isinstance(p, list) for p in flat):
            return None       # 0-d / nested: not a form of the model
        ps = [p + n if p < 0 else p for p in flat]
        return ("s", ps, "adv") if all(0 <= p < n for p in ps) else None
    if t == "mask":
        if len(s[1]) != n:
            return None
        return ("s", [i for i, b in enumerate(s[1]) if b], "adv")
    if t == "ellipsis":
        return ("s", list(range(n)), "slice")
    return None


def zl(l):
    l = list(l)
    return ",".join(str(v) for v in l) if l else "-"


def model_ix(ix, n, k):
    """index spec -> token of the model's index language, None when outside the modelled forms / numpy raises"""
    t = ix[0]
    if t == "int":
        r = resolve_axis(ix, n)
        return f"int:{r[1]}" if r else None
    if t in ("slice", "list", "nparr", "mask", "range"):
        r = resolve_axis(ix, n)
        if r is None:
            return None
        return ("slice:" if t == "slice" else "adv:") + zl(r[1])
    if t == "tuple" and len(ix[1]) == 1 and ix[1][0][0] in ("slice", "list", "nparr", "mask", "range"):
        return model_ix(ix[1][0], n, k)       # v[(rows,)] is v[rows]
    if t == "tuple" and len(ix[1]) == 2 and k is not None:
        a, b = ix[1]
        if b[0] == "ellipsis":
            r = resolve_axis(a, n)
            if r is None or a[0] == "ellipsis":
                return None
            return "row:" + ("i%d" % r[1] if r[0] == "i" else "s" + zl(r[1]))
        ra, rb = resolve_axis(a, n), resolve_axis(b, k)
        if ra is None or rb is None:
            return None
        if ra[0] == "s" and rb[0] == "s" and ra[2] == "adv" and rb[2] == "adv":
            if len(ra[1]) != len(rb[1]):
                return None       # broadcasting of index lists of different lengths: not a form of the model
            return f"zip:{zl(ra[1])}:{zl(rb[1])}"
        f = lambda r: ("i%d" % r[1]) if r[0] == "i" else "s" + zl(r[1])     # noqa: E731
        return f"pair:{f(ra)}:{f(rb)}"
    return None


def view_tok(env):
    g = env["grid"]()
    if g.ndim == 1:
        return "1 " + zl(int(v) for v in g.tolist()), len(g), None
    rows = ";".join(zl(int(v) for v in r) for r in g.tolist()) if len(g) else "-"
    return f"2 {g.shape[1]} {rows}", g.shape[0], g.shape[1]


def bits(a):
    a = np.ascontiguousarray(np.asarray(a, dtype=np.float64)) + 0.0
    return [None if np.isnan(v) else int(np.float64(v).view(np.uint64)) for v in a.ravel()]


def col01(r):
    """a boolean column of 256 entries as a string of 0/1 (the model's format)"""
    a = np.asarray(r)
    if a.shape == (256,) and a.dtype == bool:
        return (a.astype(np.uint8) + 48).tobytes().decode("ascii")
    return f"shape {a.shape} {a.dtype}"


def correspond(ctx):
    import laspy.point.dims as dims
    ctx.extra["rule"] = (
        "search: every (format, sub-field) x 11 operators x right operands {python ints of any sign/magnitude incl. constants whose "
        "shift wraps in 8/16/32/64 bits, numpy scalars of the 8 integer dtypes at their extremes and wrap points, bools, floats "
        "(nan, inf), arrays of 6 dtypes/shapes, lists, other views, junk} on the 256 possible composed bytes; arrays/numpy scalars "
        "on the left; ~100 numpy functions and view methods (min max sum mean unique isin concatenate where + axis/keepdims "
        "variants) and index expressions (int, numpy int, slice, mask, list, index array), alone and followed by a comparison / "
        "arithmetic / reduction / second index, on random columns of 0..64 points; random scaled x/y/z and scaled extra "
        "dimensions of 1-3 elements of 10 grid types, per-element scales {all different, all equal, two equal} x per-element offsets "
        "{idem}, stored integers over the type's range or of one small range in every element: 5 arithmetic operators x operands, "
        "functions, the index forms of the property ((.., j), (i, ..), (i, j), (rows, cols) with ints, slices, lists, masks, "
        "negative indices, steps, empty selections), each followed by arithmetic, a numpy function, the result's own max()/min() "
        "(also with initial=/where=) or a second index; for every (2|3 elements, scale pattern, offset pattern, grid type): max/min/"
        "np.max/np.min/ptp without arguments and with axis=/keepdims=/initial=/where=/out=, sum, mean, on the view and on 10 "
        "selections of it (mask, slice, list, (mask, ..), (slice, column list/slice) = a view of a subset of the elements, ...); views kept while the record is modified through another handle; "
        "calls with the optional keywords: 28 binary / 18 unary / 3 two-output ufuncs x the view as first / second / both inputs x the other input "
        "{python int, float, numpy int / float, int / float / uint8 arrays, another view of the record, a view of another record} x keywords "
        "{out= (buffers of 9 dtypes pre-filled with a non-zero pattern, also a tuple, a broadcasting buffer, a partial tuple), where= (masks "
        "with False entries, a full-shape mask, a scalar, a mask computed from the view: v != 0, a view), dtype=, casting=, subok/order}, the "
        "methods reduce / accumulate / outer / reduceat / at and ~45 numpy functions with out= / where= / dtype= / axis= / initial= / "
        "weights= / bins= / copyto / putmask / put / place, np.asarray(view, dtype=) for 8 dtypes: the returned value, the contents of every "
        "buffer AFTER the call and whether the buffer itself is returned must be numpy's; numpy functions taking SEVERAL views (~85 forms of "
        "concatenate, stack, hstack, vstack, column_stack, append, block, r_, where, select, choose, isin, set functions, array_equal, allclose, "
        "searchsorted, digitize, interp, lexsort, outer, dot, histogram2d, maximum, hypot, arctan2 ..., view <op> view) where the views are "
        "the same dimension of DIFFERENT records whose scalings are identical / 1 ulp / 1e-9 / 1e-6 relative / one grid step of offset / "
        "1.0 of offset apart / clearly different, the next coordinate of the same record related the same way, chunks of one record, "
        "index forms on every class of view: python ranges (8 starts x 8 stops x 4 steps of every sign), index arrays of the 9 integer dtypes "
        "(negative entries, empty, 0-d, 2-d), numpy ints of every dtype, 1-tuples / Ellipsis combinations, nested lists, 13 x 12 (rows, cols) "
        "pairs of axis forms, each followed by a comparison / reduction / arithmetic / float32 conversion; the view as the RIGHT operand: "
        "19 binary operators x left operands {python ints, floats, bools, lists, tuples, nested / empty sequences, numpy scalars, arrays, junk}, "
        "unary operators, 12 augmented assignments x 17 operands on a bound name and as las.<dim> op= c through the three access paths; "
        "conversions np.asarray / np.array / asanyarray / ascontiguousarray / require / fromiter / stack(dtype=) / buffer[...] = view with "
        "float32, float16, longdouble, int64, complex64; "
        "sub-fields of the same byte / another byte / another record of the same or of another format (same name, another mask), and "
        "views of different classes in one call (on the numpy side EVERY view is np.array(view)); records of 2^20+3 and 2*65536 points. "
        "E(view) is compared with E(np.array(view)): kind of values, shape up to length-1 axes, values (binary64 bit patterns). "
        "non-trivial = both sides return a result; distinct by (mask or dataset, expression). Expressions raising on both sides, "
        "raising on the view only, or whose result cannot be materialised are counted as 'no result'. "
        "correspondence: operator routes vs a spy operand on live views; model columns (256 bytes) per (mask, operator, integer "
        "operand) vs every format's records; model view[ix][ix'] (values, and whether the result is plain values or a view) / "
        "numpy[ix][ix'] / max-min plan with and without initial= vs the implementation and numpy.")
    dis = []
    sfs = sub_fields()
    hdr_env = build(arange_data(6, "return_number"))
    sc_env = build(rand_scaled_data(ctx.rng, dim="e", n=5, k=3))
    x_env = build(rand_scaled_data(ctx.rng, dim="x", n=5))
    # ---- routes: generated tables vs the running classes
    classes = {"av": None, "sf": hdr_env, "sc": sc_env}
    lines = [f"route {c} {i}" for c in classes for i in range(len(OPS))]
    outs = dict(zip(lines, common.run_model(lines, name="c10")))
    pycls = {"av": dims.ArrayView, "sf": dims.SubFieldView, "sc": dims.ScaledArrayView}
    for c in classes:
        for i, op in enumerate(OPS):
            mo = outs[f"route {c} {i}"]
            own = ("__%s__" % op) in pycls[c].__dict__
            ctx.traces += 1
            ctx.count("route")
            expect_own = mo.startswith(("DoComparison", "GridComparison")) or c == "av"
            ok = mo != "none" and mo != "Inherited" and (own == expect_own)
            detail = None
            if ok and c != "av":
                for env in ((hdr_env,) if c == "sf" else (sc_env, x_env)):
                    v = env["get"]()
                    spy = Spy()
                    try:
                        r = getattr(operator, op)(v, spy)
                    except Exception as ex:
                        r = repr(ex)
                    want = OPS[int(mo.split()[1])]
                    if r != "spy" or spy.log is None or spy.log[0] != want or not same_value(spy.log[1], np.array(v)):
                        ok, detail = False, f"v {SYM[op]} <spy>: numpy was asked {spy.log[0] if spy.log else r!r}, model route {mo}"
            if not ok:
                dis.append({"kind": f"route {c} {SYM[op]}", "input": {"class": c, "operator": op}, "model": mo,
                            "impl": detail or f"defined by the class itself: {own}"})
    # ---- the view as right operand: reflected routes, in-place fallback
    arith_idx = [i for i, op in enumerate(OPS) if op in ARITH]
    lines = [f"rroute {c} {i}" for c in classes for i in arith_idx] + ["inplace"]
    outs = dict(zip(lines, common.run_model(lines, name="c10")))
    with warnings.catch_warnings(), np.errstate(all="ignore"):
        warnings.simplefilter("ignore")
        for c in classes:
            for i in arith_idx:
                op, mo = OPS[i], outs[f"rroute {c} {i}"]
                ctx.traces += 1
                ctx.count("reflected route")
                has = hasattr(pycls[c], f"__r{op}__")
                detail = None
                if mo not in ("Absent",) and not mo.startswith("Swapped"):
                    detail = "no route in the model"
                elif has != mo.startswith("Swapped"):
                    detail = f"the class has __r{op}__: {has}"
                elif c != "av":
                    for env in ((hdr_env,) if c == "sf" else (sc_env, x_env)):
                        v = env["get"]()
                        for left in (3, 2.5, [2] * len(v) if v.ndim == 1 else [[2]] * len(v)):
                            got = ev(lambda: getattr(operator, op)(left, v))
                            if mo == "Absent":
                                if got[0] != "err" or got[1] != "ETypeError" and "Type" not in got[1]:
                                    detail = f"{left!r:.20} {SYM[op]} v: {describe(got)}"
                            else:
                                want = ev(lambda: getattr(operator, OPS[int(mo.split()[1])])(left, np.array(v)))
                                if got[0] != want[0] or (got[0] == "ok" and not same_value(got[1], want[1])):
                                    detail = f"{left!r:.20} {SYM[op]} v: {describe(got)}; model: numpy's {describe(want)}"
                if detail:
                    dis.append({"kind": f"reflected route {c} {SYM[op]}", "input": {"class": c, "operator": op}, "model": mo, "impl": detail})
        mo = outs["inplace"]
        own = [f"{k.__name__}.__{q}__" for k in pycls.values() for q in INPLACE if ("__%s__" % q) in k.__dict__]
        rebound = [type(operator.iadd(env["get"](), 1)).__name__ for env in (hdr_env, sc_env, x_env)]
        ctx.traces += 1
        if mo != "fallback" or own or any(q != "ndarray" for q in rebound):
            dis.append({"kind": "in-place route", "input": {"statement": "v += 1"}, "model": mo, "impl": f"in-place methods {own}; v is bound to {rebound}"})
    # ---- sub-field comparisons: model column per (mask, op, integer operand) vs every format's record
    cols = {}
    cmds = []
    for fmt, name, composed, mask in sfs:
        for o in [("py", 0, "F", v) for v in py_int_operands(mask)] + [("np", np.iinfo(dt).bits, "T" if np.iinfo(dt).min < 0 else "F", v) for dt, v in np_int_operands(mask)] \
                + [("bool", 0, "F", 1), ("bool", 0, "F", 0)]:
            for i in range(6):
                for cmd in ("cmpcol", "rcmpcol"):
                    key = f"{cmd} {mask} {i} {o[0]} {o[1]} {o[2]} {o[3]}"
                    if key not in cols:
                        cols[key] = None
                        cmds.append(key)
    for key, out in zip(cmds, common.run_model(cmds, name="c10")):
        cols[key] = out
    with warnings.catch_warnings(), np.errstate(all="ignore"):
        warnings.simplefilter("ignore")
        for fmt, name, composed, mask in sfs:
            env = build(arange_data(fmt, name))
            v = env["get"]()
            opnds = [(("py", 0, "F", c), c) for c in py_int_operands(mask)] \
                + [(("np", np.iinfo(dt).bits, "T" if np.iinfo(dt).min < 0 else "F", c), np.dtype(dt).type(c)) for dt, c in np_int_operands(mask)] \
                + [(("bool", 0, "F", 1), True), (("bool", 0, "F", 0), np.bool_(False))]
            for (o, obj) in opnds:
                for i, op in enumerate(CMP):
                    mo = cols[f"cmpcol {mask} {i} {o[0]} {o[1]} {o[2]} {o[3]}"]
                    try:
                        r = getattr(operator, op)(v, obj)
                        im = col01(r)
                    except Exception as ex:
                        im = "err " + common.exc_kind(ex)
                    ctx.traces += 1
                    ctx.evaluations += 255
                    ctx.case(("col", mask, op, o), nontrivial=True)
                    ctx.count("model column")
                    if im != mo:
                        cls = operand_class(["int", str(o[3])], mask) if o[0] == "py" else ("bool" if o[0] == "bool" else f"numpy {type(obj).__name__}")
                        dis.append({"kind": f"subfield {SYM[op]} {cls}", "input": {"format": fmt, "field": name, "operator": op, "operand": f"{type(obj).__name__}({int(obj)})"},
                                    "model": mo[:64] + "...", "impl": im[:64] + "..."})
                    # the constant on the LEFT: python's mirrored comparison (python objects) / __array_ufunc__ (numpy scalars)
                    mo = cols[f"rcmpcol {mask} {i} {o[0]} {o[1]} {o[2]} {o[3]}"]
                    try:
                        r = getattr(operator, op)(obj, v)
                        im = col01(r)
                    except Exception as ex:
                        im = "err " + common.exc_kind(ex)
                    ctx.traces += 1
                    ctx.evaluations += 255
                    ctx.case(("rcol", mask, op, o), nontrivial=True)
                    ctx.count("model column, constant on the left")
                    if im != mo:
                        cls = operand_class(["int", str(o[3])], mask) if o[0] == "py" else ("bool" if o[0] == "bool" else f"numpy {type(obj).__name__}")
                        dis.append({"kind": f"subfield reflected {SYM[op]} {cls} on the left", "input": {"format": fmt, "field": name, "operator": op, "operand": f"{type(obj).__name__}({int(obj)})"},
                                    "model": mo[:64] + "...", "impl": im[:64] + "..."})
        # ---- sub-field indexing
        cases = []
        for _ in range(ctx.n(150, 1500)):
            fmt, name, composed, mask = ctx.rng.choice(sfs)
            n = ctx.rng.choice([1, 2, 9])
            col = bytes(ctx.rng.randrange(256) for _ in range(n))
            ix, cls = rand_index_1d(ctx.rng, n)
            tok = model_ix(ix, n, None)
            if tok is None or tok.startswith("int:"):
                continue
            env = build({"kind": "subfield", "format": fmt, "field": name, "bytes": col.hex()})
            try:
                im = zl(int(q) for q in np.array(env["get"]()[mk_index(ix)]).ravel().tolist())
            except Exception as ex:
                im = "err " + common.exc_kind(ex)
            cases.append((f"sfidx {mask} x{col.hex()} {tok.split(':')[1]}", im, (fmt, name, ix)))
        for (cmd, im, desc), mo in zip(cases, common.run_model([c[0] for c in cases], name="c10")):
            ctx.traces += 1
            ctx.count("model subfield index")
            ctx.case(cmd, nontrivial=True)
            if im != mo:
                dis.append({"kind": "subfield index", "input": {"format": desc[0], "field": desc[1], "index": desc[2]}, "model": mo, "impl": im})
        # ---- scaled views: indexing (one or two levels), kind of the result (values / view), max/min with and without initial=
        cases = []
        for it in range(ctx.n(1500, 15000)):
            data = rand_scaled_data(ctx.rng)
            env = build(data)
            vt, n, k = view_tok(env)
            v = env["get"]()
            a = np.array(v)
            ixs, toks, cls = [], [], "no index"
            if ctx.rng.random() < 0.8:
                ix, cls = rand_index_2d(ctx.rng, n, k) if k is not None else rand_index_1d(ctx.rng, n)
                tok = model_ix(ix, n, k)
                if tok is None:
                    continue
                ixs, toks = [ix], [tok]
                if ctx.rng.random() < 0.4:
                    try:
                        shp = a[mk_index(ix)].shape
                    except Exception:
                        shp = None
                    if shp is not None and len(shp) >= 1:
                        ix2, cls2 = rand_index_2d(ctx.rng, shp[0], shp[1]) if len(shp) == 2 and ctx.rng.random() < 0.6 else rand_index_1d(ctx.rng, shp[0])
                        tok2 = model_ix(ix2, shp[0], shp[1] if len(shp) == 2 else None)
                        if tok2 is not None:
                            ixs.append(ix2)
                            toks.append(tok2)
                            cls = cls + " then " + cls2

            def walk(x, ixs=ixs):
                for q in ixs:
                    x = x[mk_index(q)]
                return x
            expr = ["seq"] + [["idx", q] for q in ixs] if ixs else ["seq"]
            if ixs and ctx.rng.random() < 0.7:
                try:
                    res = walk(v)
                    iv = ("ok", freeze(res), "view" if is_view(res) else "value")
                except Exception as ex:
                    iv = ("err", common.exc_kind(ex), str(ex)[:60])
                inp = ev(lambda: walk(a))
                cases.append((f"index {vt} " + " ".join(toks), "index", env, data, expr, cls, iv, inp, k))
            else:
                r = ctx.rng.choice(["max", "min"])
                init = ctx.rng.choice([None, None, 0.25, -1e300, 1e300, 3])
                kw = {} if init is None else {"initial": init}
                iv = ev(lambda: getattr(walk(v), r)(**kw))
                inp = ev(lambda: getattr(walk(a), r)(**kw))
                negs = ",".join(str(j) for j, q in enumerate(env["svec"]) if not q > 0) or "-"
                cases.append((f"reduce {r} {'F' if init is None else 'T'} {negs} {vt} " + " ".join(toks), "reduce", env, data,
                              expr + [["fn", f"{r}()" if init is None else f"{r}(initial={init})"]], cls, iv, inp, (r, kw)))
        outs = common.run_model([c[0] for c in cases], name="c10")
        for (cmd, what, env, data, expr, cls, iv, inp, extra), mo in zip(cases, outs):
            ctx.traces += 1
            ctx.case(cmd, nontrivial=True)
            ctx.count("model scaled " + what + (" chain" if " then " in cls else ""))

            def agree(exp, got):
                if exp is None:
                    return got[0] != "ok"
                return got[0] == "ok" and squeeze_shape(np.asarray(got[1])) == squeeze_shape(np.asarray(exp)) and bits(got[1]) == bits(exp)
            if mo.startswith("fail"):
                dis.append({"kind": "model driver", "input": {"cmd": cmd[:200]}, "model": mo[:120], "impl": ""})
                continue
            if what == "index":
                mk, mv, mn = mo.split(" ")
                ev_, en_ = nd_expected(mv, env), nd_expected(mn, env)
                if not agree(ev_, iv):
                    dis.append({"kind": f"scaled index {cls}", "input": {"data": data, "expr": expr}, "model": mv[:120], "impl": describe(iv[:2] + ("",))[:160]})
                elif extra is not None and iv[0] == "ok" and mk != iv[2]:
                    dis.append({"kind": f"scaled index {cls}: kind of the result", "input": {"data": data, "expr": expr}, "model": mk, "impl": iv[2]})
                if not agree(en_, inp):
                    dis.append({"kind": f"model of numpy indexing {cls}", "input": {"data": data, "expr": expr}, "model": mn[:120], "impl": describe(inp)})
            else:
                r, kw = extra
                if mo == "nochain":
                    exp = None
                elif mo.startswith("grid:"):
                    exp = nd_expected("sc:" + mo[5:], env) if mo != "grid:none" else None
                elif mo.startswith("mat:"):
                    _, r2, hasinit, ndtok = mo.split(":", 3)
                    arr = nd_expected(ndtok, env)
                    if (hasinit == "init") != bool(kw):
                        exp = "?"
                    else:
                        try:
                            exp = getattr(np.asarray(arr), r2)(**kw)
                        except ValueError:
                            exp = None
                else:
                    exp = "?"
                ok = (not isinstance(exp, str)) and agree(exp, iv)
                if not ok:
                    dis.append({"kind": f"scaled {r}() after {cls}", "input": {"data": data, "expr": expr}, "model": mo[:120], "impl": describe(iv)})
        # ---- keywords: np.<ufunc>(view, c, out=buffer, where=mask, dtype=int64) against the model's sfv_ufunc_where
        cases = []
        for _ in range(ctx.n(300, 3000)):
            fmt, name, composed, mask = ctx.rng.choice(sfs)
            n = ctx.rng.choice([0, 1, 2, 9])
            col = bytes(ctx.rng.randrange(256) for _ in range(n))
            wm = [ctx.rng.random() < 0.5 for _ in range(n)]
            out = [ctx.rng.choice([-1, 7, 1000, -999, ctx.rng.randrange(-10 ** 6, 10 ** 6)]) for _ in range(n)]
            opn, c = ctx.rng.choice(["add", "sub", "mul"]), ctx.rng.randrange(0, 10)
            env = build({"kind": "subfield", "format": fmt, "field": name, "bytes": col.hex()})
            buf = np.array(out, dtype=np.int64)
            try:
                r = {"add": np.add, "sub": np.subtract, "mul": np.multiply}[opn](env["get"](), c, out=buf, where=np.array(wm, dtype=bool), dtype=np.int64)
                im = zl(buf.tolist()) if r is buf else "another array is returned"
            except Exception as ex:
                im = "err " + common.exc_kind(ex)
            cases.append((f"ufwhere {mask} x{col.hex()} {','.join('T' if b else 'F' for b in wm) or '-'} {zl(out)} {opn} {c}", im,
                          {"format": fmt, "field": name, "bytes": col.hex(), "where": wm, "out": out, "ufunc": opn, "operand": c}))
        for (cmd, im, desc), mo in zip(cases, common.run_model([c[0] for c in cases], name="c10")):
            ctx.traces += 1
            ctx.count("model ufunc out= where=")
            ctx.case(cmd, nontrivial=True)
            if im != mo:
                dis.append({"kind": "keyword-call subfield ufunc out where", "input": desc, "model": mo[:120], "impl": im[:120]})
        # ---- several scaled views of different records in one np.concatenate against the model's concatenate_views
        cases = []
        for _ in range(ctx.n(200, 2000)):
            how = ctx.rng.choice(CLOSENESS)
            dim, k = ctx.rng.choice([("x", None), ("y", None), ("z", None), ("e", 1), ("e", 2), ("e", 3)])
            fam = scaled_family(ctx.rng, how, dim, k, ctx.rng.choice([0, 1, 3, 6]), ctx.rng.choice([0, 1, 4]))
            envs = [build(fam)] + [build(o) for o in fam["others"]]
            pieces = [ctx.rng.randrange(3) for _ in range(ctx.rng.choice([1, 2, 2, 3]))]
            toks, svec, ovec = [], [], []
            for j in pieces:
                g, base = envs[j]["grid"](), len(svec)
                svec += envs[j]["svec"]
                ovec += envs[j]["ovec"]
                if g.ndim == 1:
                    toks.append(f"1s {base} {base} {zl(int(q) for q in g.tolist())}")
                else:
                    toks.append(f"2s {g.shape[1]} {base} " + (";".join(zl(int(q) for q in r) for r in g.tolist()) if len(g) else "-"))
            views = [envs[j]["get"]() for j in pieces]
            seq = views if ctx.rng.random() < 0.5 else tuple(views)
            iv = ev(lambda: np.concatenate(seq))
            penv = {"grid": (lambda g=envs[0]["grid"](): g), "svec": svec, "ovec": ovec}
            cases.append(("concat " + " ".join(toks), penv, iv, {"data": fam, "pieces": pieces, "scalings": how}))
        for (cmd, penv, iv, desc), mo in zip(cases, common.run_model([c[0] for c in cases], name="c10")):
            ctx.traces += 1
            ctx.count("model concatenate of several views")
            ctx.case(cmd, nontrivial=True)
            if mo.startswith("fail"):
                dis.append({"kind": "model driver", "input": {"cmd": cmd[:200]}, "model": mo[:120], "impl": ""})
                continue
            exp = nd_expected(mo.split(" ")[0], penv)
            ok = (iv[0] != "ok") if exp is None else (iv[0] == "ok" and squeeze_shape(np.asarray(iv[1])) == squeeze_shape(np.asarray(exp))
                                                     and bits(iv[1]) == bits(exp))
            if not ok:
                dis.append({"kind": f"multi-view scaled concatenate (scalings {desc['scalings']})", "input": desc, "model": mo.split(" ")[0][:120],
                            "impl": describe(iv)})
        # ---- the three routes of max/min
        for c in classes:
            for m in "TF":
                for a_ in "TF":
                    for r in ("max", "min"):
                        mo = common.run_model([f"red {c} {m} {a_} {r}"], name="c10")[0]
                        want = f"grid {r}" if (c == "sc" and m == "F" and a_ == "F") else f"mat {r}"
                        ctx.traces += 1
                        if mo != want:
                            dis.append({"kind": f"route {c} {r}()", "input": {"class": c, "multi": m, "args": a_}, "model": mo, "impl": want + " (observed on values above)"})
    # ---- expressions for which the model predicts a result (delegation) and the view raises
    sw = get_sweep(ctx)
    for k, d in sw.viewraises.items():
        dis.append({"kind": d["kind"], "input": d["input"], "model": "a result (what numpy computes on np.array(view))", "impl": d["observed"]})
    return dis


def search(ctx, seeds):
    sw = get_sweep(ctx)
    return list(sw.failing.values())[:8]


def replay(ctx, data):
    inp = data.get("failing_input", {}).get("input")
    if not inp or "data" not in inp:
        print("nothing to replay")
        return 0
    with warnings.catch_warnings(), np.errstate(all="ignore"):
        warnings.simplefilter("ignore")
        if "mutation" in inp:
            why = run_stale_any(inp["data"], inp["expr"], inp["mutation"])
        else:
            verdict, why = run_case(inp["data"], inp["expr"])
            if verdict not in ("differs", "npraises"):
                why = None
    print("REPRODUCED: " + why if why else "not reproduced")
    return 1 if why else 0
