"""C13 — extra dimensions stay consistent across add / remove histories.

Model: Model/ExtraDims.v (state = format, extra dimensions, per record name -> raw bytes, VLR list; operations add / remove /
assign / round trip) over the 192-byte descriptor layout, option bits, num_elements and scale/offset guards regenerated from
laspy/vlrs/known.py (Gen/GenExtraBytes.v) and the tables of Gen/GenDims.v.
Correspondence: histories of up to 12 operations through LasData.add_extra_dim(s) / remove_extra_dim(s), assignments of one
dimension, of the standard bytes and of the WHOLE record (las.points = a copy / a slice / the record of another LasData or of a
re-read file / a bare PackedPointRecord, with its own PointFormat object and any number of points; also records of a different
format, which must be refused) and write/read round trips; after EVERY step las.point_format, las.vlrs (payload bytes), the bytes of all records and the raw bytes
of every extra dimension are compared with the model; 192-byte descriptors decoded by ExtraBytesVlr.type_of_extra_dims vs dec_eb.
Search: the property stated on the implementation (no model): other dimensions keep their raw bytes, record length = standard +
extra bytes, exactly one extra-bytes VLR describing the current dimensions in order iff there are any (descriptors parsed with
struct from the ASPRS layout), round trip keeps names / types / scales / offsets / values / VLRs, a bad removal raises
LaspyException and changes nothing; a whole-record assignment of a record of the same format reads back byte for byte, keeps format
and VLRs, and the adds / removes after it behave as ever; a record of a different format is refused and changes nothing.
Round 3: histories also START from a format that already carries extra dimensions (laspy.create(point_format=fmt),
LasHeader(point_format=fmt); VLRs appended or assigned through the setter) and from the argument-less laspy.create() / LasHeader(),
optionally next to a sibling LasData built the same way (which must not be affected, nor affect the initial state); they contain
laspy.convert to any point format / version (extra dimensions with scales, offsets, descriptions, order, raw values and the VLR
survive; the source is untouched; model op Convert), round trips through laspy.open(mode="w") in chunks, and re-reads of files whose
extra-bytes VLR registers only the first k dimensions or is absent (model op Reread: the un-registered trailing bytes become ONE opaque
"ExtraBytes" dimension of exactly that many bytes; the next add / remove / convert registers it).
Round 4: (a) values are assigned in the element type the dimension was DECLARED with (not the one the record happens to have), the
record's own field types are part of every snapshot (they must be the declared ones), and every file a step writes is parsed with
struct: record length, the extra-bytes VLR and, dimension by dimension, the bytes at its place in every point record against the
values that were assigned; names come back — after a removal, after a round trip, in a LasData made after a sibling used them — with a
type of the same layout (element count and width) and another kind, in one process.  (b) Other live objects: a step may create another
object from the LasData through the public API (las[slice / step / mask / index list / index array / int / empty], a copy made of
deepcopy(header) + points.copy(), LasData(las.header, ...), laspy.open(source).read() once or twice, laspy.open(mode="w",
header=las.header)) and the history goes on with the new or with the old one; the LasData a round trip / conversion / re-read was made
from and the LasData whose record was assigned (las.points = other.points) stay alive too.  Every one of them is observed after every
later step: an add / remove on one must leave the others exactly as they were (format, record length, VLR, values), and at the end
each can still be written and read back (a writer writes the points it was opened for, a reader reads its file again).  Model: a world
= current LasData + the other live ones (WOp / WNew / WSelect / WCopy); the correspondence compares every live object with the world at
the end of the history.  (c) Round trips also through LasData.write(path) + laspy.read(path) and through laspy.mmap(path).
Round 5 — what belongs to the CALLER between two operations of a history.  (1) The objects it passed: scales / offsets handed over as
list, tuple, numpy scalars, a fresh float64 array, a view of ONE reusable buffer the caller refills for every dimension, a strided
view; the element type as string, dtype, (type, count) pair, scalar class, '1type' spelling; names / descriptions as str or np.str_;
the caller KEEPS the arrays, the ExtraBytesParams objects and the lists it passed to add_extra_dims / remove_extra_dims and later writes
into the arrays, rebinds or writes every attribute of the params objects, reverses / extends the lists, or re-uses a params object for
the next addition (all attributes set anew; scales rebound or written in place): nothing observable may change (op `caller`), and the
re-used object adds exactly the dimension it describes at that moment.  (2) The header's counters: a LasData made with the constructor
from a header that counts other points than the record has — a slice of the record or a chunk a reader returned (read_points after
seek, chunk_iterator) with a deep copy of the header of the whole, all the points with the header of a selection, header.point_count
assigned (bigger / smaller / 0), header.partial_reset() — then the history goes on (fork hows `rewrap`, `set_count`); the number of
points may not change by an add / remove, the header's point count is compared with the model's counter after every step.  (3) The
VLR list: between two operations the caller extends it with the list (or only the extra-bytes VLR) of another LasData that has extra
dimensions of its own (made in memory or read from a file; its extra-bytes VLR first or last, so that it comes to stand NEXT TO the
own one), with two foreign ones (three in a row), duplicates the own extra-bytes VLR (same object / deep copy, before / after),
reverses the list, moves the extra-bytes VLR to the front, takes it out, empties the list, adds user records — installed with list methods (extend, append, +=, insert, slice assignment,
reverse, pop, extract, clear: the next step is then an add or a valid remove) or through the vlrs setter (list, tuple, generator,
VLRList, las.vlrs += ..., las.header.vlrs = ...: (I3) must hold at once).  After the add / remove that follows: exactly one
extra-bytes VLR describing the current dimensions, the other records of the caller's list all there in the caller's order; the
LasData the VLRs were taken from is another live object.  Model: cworld = world + header point count + "list edited in place" flag +
the caller's params objects (cop: CW / CEditVlrs / CSetCount / CRewrap / CNewParam / CSetParam / CAddParams).  (4) extra dimensions
named like a standard dimension of ANOTHER point format.
Two observations of this round on the unchanged laspy: DimensionInfo kept the ExtraBytesParams object's own scales / offsets arrays
(repaired in 6ccc284; the caller writing into its params object in place, or re-using it in place for the next addition, is now
judged like every other caller action).  A hand-made laspy.VLR("LASF_Spec", 4, ...) the caller appends is NOT an extra-bytes VLR
of the header: C08 wants every record the header does not own kept verbatim (C08_sync_keeps_raw), so such lists are outside C13
and are not generated (see ASSUMPTIONS).
Round 6 — the hypothesis on names is now "the FIELD NAMES OF THE RECORD are pairwise different" (Model: rec_names): an extra dimension
may be called like a SUB FIELD of the current format (return_number, synthetic, withheld, overlap, scanner_channel ...: dimensions of the
PointFormat that are no fields of the packed record), like a sub field or a field of another format, like an alias or a coordinate.
Such names are drawn in the random stream (12% of the added dimensions; conversions then go to formats whose record has no field of
that name) and in a systematic family: every standard dimension name that the record of the format does not have x every format,
through add (next to ordinary dimensions, scaled or not), assignment of the extra dimension THROUGH THE RECORD'S ARRAY (las[name] names
the standard dimension), assignment of the standard sub field through las[name] (op assign_sub: the extra dimension keeps its bytes,
the composed field gets the bits), round trip, removal (single / list), re-addition, conversion, a refused removal of the name once it
is only the standard dimension's.  New observations in every snapshot: PointFormat.dimensions (names; the standard part must be that
of a fresh PointFormat(id), the model's dim_names is compared), the standard dimensions of the record's and the header's format (name,
bits), and for every extra dimension called like a standard dimension / alias: las[name] still gives the standard dimension.
The reader's side of (I3), stated on the implementation: a 192-byte descriptor is read (ExtraBytesVlr.parse_record_data +
type_of_extra_dims) as the SPECIFICATION says — data type 1..30 = element type and count, options bit 3 = scale relevant (else 1.0),
bit 4 = offset relevant (else 0.0), each on its own, data type 0 = that many opaque bytes, texts up to the first NUL — for every
documented type x {no flag, scale only, offset only, both, other option bits} and random descriptors (search: judge_descriptor;
theorem C13_option_bits pins the translated getter guards to bits 3 and 4 for all 30 x 256 (type, options) pairs)."""
import io
import struct

import numpy as np

from harness import common, lasio

DRIVER = "c13"
ASSUMPTIONS = [
    "names an add introduces are new: pairwise different, not a current extra dimension, not a FIELD OF THE RECORD of the format "
    "(hypothesis ops_okb of the theorems, round 6: the field names of the record are pairwise different — numpy refuses a duplicate "
    "field after the header was changed); names of sub fields of the current format, of standard dimensions of other formats and the "
    "aliases laspy resolves before looking at the record (x, y, z, the old laspy names) are names like any other (values of the extra "
    "dimension are then assigned through the record's array: las['x'] / las['synthetic'] name the standard dimension); a conversion "
    "goes to a format whose record has no field called like a current extra dimension; the random stream avoids the name 'ExtraBytes'",
    "names and descriptions are byte strings of 1..32 / 0..32 bytes without NUL (the generator uses ASCII and some multi-byte UTF-8)",
    "that a LAS file carries the point size, the VLR payloads and the point bytes verbatim is C01/C07/C08; the round trip of this model "
    "starts from (format id, point size, VLR list, record bytes)",
    "what laspy.convert makes of the STANDARD dimensions is C12: the model's Convert takes the converted standard blocks as a parameter "
    "(theorems quantify over all blocks; the correspondence passes the blocks laspy produced; the generator gives the points standard "
    "bytes every format can hold, so that no conversion is refused for a value that does not fit); the oracle still checks that "
    "standard dimensions both formats have keep their values",
    "a truncated re-read leaves at most 255 un-registered bytes (the property speaks of opaque arrays of 4..255 bytes) and the name "
    "'ExtraBytes' it introduces is not a registered dimension already (hypothesis op_okb of the theorems; generator-enforced)",
    "two LasData built from ONE PointFormat object the caller passes to both (laspy.create(point_format=fmt) twice with the same fmt) "
    "are not generated: every construction gets its own PointFormat",
    "one HEADER object in two live API objects is not judged: LasData(las.header, ...) made by the caller, and the LasData that "
    "LasReader.read() returns, which holds the reader's own header object by laspy's design (read() completes it with the EVLRs "
    "afterwards): what one does to the header reaches the other; both constellations are generated, the LasData the history goes on "
    "with is judged, the other one is only observed when it appears (were the header no longer shared, it would be judged like any "
    "other live object)",
    "values of another live object may follow an in-place assignment (las[name] = ..., whole-record assignment from a view) while both "
    "share the memory of their points: las[a:b] is a numpy view; format, record length and VLRs may never follow",
    "copy.copy / copy.deepcopy of a LasData are not generated (they raise RecursionError in the unchanged laspy: LasData.__getattr__ "
    "recurses on an instance without _points); nor is las[np.int64(i)] (AttributeError in PackedPointRecord.__getitem__)",
    "scaled values are compared as the stored raw bytes and scales/offsets as binary64 bit patterns; float presentation is C11",
    "while the caller holds the VLR list (it edited las.vlrs in place and no add / remove has synchronised it since) nothing is claimed "
    "about the extra-bytes VLR, and the generator lets an add or a valid remove follow at once (hypothesis cops_okb of the theorems: no "
    "file is written, nothing is selected or copied from a LasData in that state); the vlrs SETTER synchronises, so (I3) is judged right "
    "after it",
    "a record with the identity of the extra-bytes VLR that the header does not own — a laspy.VLR('LASF_Spec', 4, ...) the caller made by hand "
    "and put into the list — is not generated: _sync_extra_bytes_vlr takes out the records of the parsed class ExtraBytesVlr only and C08 "
    "(C08_sync_keeps_raw) wants every other record kept verbatim; C13 quantifies over add / remove histories, not over forged extra-bytes "
    "records (the model's is_eb_vlr goes by user id / record id, which coincides with the class on every list that is generated)",
    "extra-bytes records among the EVLRs are not generated or judged (the model's state is header.vlrs); a LaszipVlr is never put in a list",
    "a header object shared between a reader and the LasData wrapped around one of its chunks (LasData(reader.header, chunk)) is not "
    "generated: the chunk routes give the LasData a deep copy of the reader's header",
    "the header's point count is compared with the model's counter (refreshed by the points setter and by reading a file, carried over "
    "by laspy.convert, copied by a copy of the header); the other counters of the header (points by return, extrema) are not C13's subject",
    "a record assigned as a whole (las.points = r) either has exactly the extra dimensions of the LasData (bit-identical, or -0.0 for 0.0 "
    "among the offsets) or differs from them in something PointFormat.__eq__ looks at; DimensionInfo.__eq__ compares kind and total bits "
    "but not the element count (uint16 vs 2 x uint8 compare equal: modelled so by fmt_eqv, never generated); scales/offsets are never NaN",
]

BASE = ["u1", "i1", "u2", "i2", "u4", "i4", "u8", "i8", "f4", "f8"]     # ASPRS LAS 1.4 R15 table 24, data types 1..10 (x2: 11..20, x3: 21..30)
OPAQUE_SIZES = [4, 5, 7, 8, 9, 15, 16, 17, 24, 31, 32, 255]
OLD_NAMES = {"flag_byte", "return_num", "num_returns", "scan_dir_flag", "edge_flight_line", "pt_src_id", "wave_packet_desc_index",
             "byte_offset_to_waveform_data", "waveform_packet_size", "return_point_waveform_loc"}


OLD_TO_NEW = {"flag_byte": "bit_fields", "return_num": "return_number", "num_returns": "number_of_returns", "scan_dir_flag": "scan_direction_flag",
              "edge_flight_line": "edge_of_flight_line", "pt_src_id": "point_source_id", "wave_packet_desc_index": "wavepacket_index",
              "byte_offset_to_waveform_data": "wavepacket_offset", "waveform_packet_size": "wavepacket_size",
              "return_point_waveform_loc": "return_point_wave_location"}       # the old laspy names and what they stand for
ALIASES = sorted(OLD_NAMES | {"x", "y", "z"})     # names laspy resolves to a standard dimension before it looks at the record


def hx(b):
    return bytes(b).hex()


def reserved_names():
    import laspy.point.dims as dims
    out = set(OLD_NAMES) | {"x", "y", "z", "ExtraBytes"}
    for f in dims.POINT_FORMAT_DIMENSIONS:
        out |= set(dims.POINT_FORMAT_DIMENSIONS[f])
        for composed, subs in dims.COMPOSED_FIELDS[f].items():
            out.add(composed)
            out |= {s.name for s in subs}
    out |= set(dims.DIMENSIONS_TO_TYPE)
    return out


_TABLES = {}


def name_tables():
    """per point format: the field names of the record (numpy dtype), the sub fields as name -> (composed field, mask), the names of
    the standard dimensions of PointFormat(id) in order"""
    if not _TABLES:
        import laspy
        import laspy.point.dims as dims
        _TABLES["rec"] = {f: list(laspy.PointFormat(f).dtype().names) for f in range(11)}
        _TABLES["sub"] = {f: {s_.name: (comp, int(s_.mask)) for comp, subs in dims.COMPOSED_FIELDS[f].items() for s_ in subs} for f in range(11)}
        _TABLES["dims"] = {f: [(d.name, int(d.num_bits)) for d in laspy.PointFormat(f).dimensions] for f in range(11)}
        _TABLES["old"] = dict(OLD_TO_NEW)
    return _TABLES


def clash_pool(fmt):
    """names an extra dimension may carry although laspy knows them: every standard dimension name of any format, composed or
    unpacked, every alias and coordinate — minus the fields of THIS format's record"""
    t = name_tables()
    rec = set(t["rec"][fmt])
    return sorted(n for n in (reserved_names() - {"ExtraBytes"}) if n not in rec)


def convert_targets(shadow):
    """the formats whose record has no field called like one of the extra dimensions"""
    t = name_tables()
    names = {bytes.fromhex(d["name"]).decode() for d in shadow}
    return [g for g in range(11) if not (names & set(t["rec"][g]))]


def resolves_elsewhere(fmt, name):
    """las[name] does not name the extra dimension of that name: laspy resolves the name to a standard dimension first"""
    return name in ALIASES or name in name_tables()["sub"][fmt]


def name_class(fmt, name):
    """what laspy knows the name as (None: nothing)"""
    if name in name_tables()["sub"][fmt]:
        return "sub field of the format"
    if name in ("x", "y", "z"):
        return "coordinate"
    if name in ALIASES:
        return "old laspy name"
    if name in _TABLES.setdefault("known", reserved_names() - {"ExtraBytes"}):
        return "standard dimension of another format"
    return None


def shift_of(mask):
    return (mask & -mask).bit_length() - 1


def standard_view(arr, fmt, name):
    """the values of the standard dimension that `name` names when it is a sub field / an old laspy name, computed from the record's
    fields and the masks (None: not such a name, or a coordinate)"""
    t = name_tables()
    name = t["old"].get(name, name)
    if name in t["sub"][fmt]:
        comp, mask = t["sub"][fmt][name]
        return (arr[comp] & mask) >> shift_of(mask)
    if name in t["rec"][fmt]:
        return arr[name]
    return None


# ---------------------------------------------------------------------------------
# types
# ---------------------------------------------------------------------------------
def type_str(t):
    """model type token ('s', id) / ('o', n) -> numpy type string given to ExtraBytesParams"""
    if t[0] == "o":
        return f"{t[1]}u1"
    i = t[1] - 1
    n = i // 10 + 1
    return (str(n) if n > 1 else "") + BASE[i % 10]


def type_size(t):
    if t[0] == "o":
        return t[1]
    i = t[1] - 1
    return (i // 10 + 1) * int(BASE[i % 10][1:])


def type_elems(t):
    return t[1] if t[0] == "o" else (t[1] - 1) // 10 + 1


def spec_type(dt):
    """numpy dtype of a dimension -> model type token, from the specification's table (not from laspy's)"""
    base = dt.base
    n = dt.shape[0] if dt.ndim == 1 else 1
    b = f"{base.kind}{base.itemsize}"
    if b in BASE and 1 <= n <= 3:
        return ("s", BASE.index(b) + 1 + 10 * (n - 1))
    if b == "u1" and n > 3:
        return ("o", n)
    return ("?", str(dt))


def ttok(t):
    return f"{t[0]}{t[1]}"


# ---------------------------------------------------------------------------------
# history generator (JSON-able)
# ---------------------------------------------------------------------------------
NAME_ALPHA = "abcdefghijklmnopqrstuvwxyzABCDEFGHIJKLMNOPQRSTUVWXYZ0123456789_"
WIDE = ["é", "ß", "λ", "Ж", "点", "€"]
SCALES = [1.0, 0.5, 0.1, 0.01, 1e-9, 3.0, 1e300, -2.5, 0.3333333333333333, 5e-324]
OFFSETS = [0.0, -0.0, 10.0, -3.5, 1e9, 123456.789, -1e-7]


def rand_text(rng, nbytes, used=(), reserved=(), loose=False):
    """a string whose UTF-8 encoding has exactly nbytes bytes, without NUL"""
    for _ in range(200):
        s = ""
        left = nbytes
        while left > 0:
            if left >= 2 and rng.random() < 0.08:
                c = rng.choice(WIDE)
                if len(c.encode()) <= left:
                    s += c
                    left -= len(c.encode())
                    continue
            if loose and rng.random() < 0.15:
                s += rng.choice(" -.,:;#()[]/'\"!?+*=<>%&")
            else:
                s += rng.choice(NAME_ALPHA)
            left -= 1
        if s not in used and s not in reserved:
            return s
    raise RuntimeError("could not draw a fresh name")


def rand_len(rng):
    return rng.choice([1, 2, 3, 5, 8, 15, 16, 17, 30, 31, 32, 32, rng.randrange(1, 33)])


def rand_type(rng):
    k = rng.random()
    if k < 0.2:
        return ("o", rng.choice(OPAQUE_SIZES))
    return ("s", rng.randrange(1, 31))


def rand_dim(rng, used, reserved, t=None, scaled=None, name_len=None, desc_len=None, name=None):
    t = t or rand_type(rng)
    name = name if name is not None else rand_text(rng, name_len or rand_len(rng), used, reserved)
    dl = rng.choice([0, 0, 1, 5, 31, 32, rng.randrange(33)]) if desc_len is None else desc_len
    desc = rand_text(rng, dl, loose=True) if dl else ""
    sc = None
    if t[0] == "s" and (scaled if scaled is not None else rng.random() < 0.4):
        n = type_elems(t)
        sc = [[lasio.f64bits(rng.choice(SCALES) if rng.random() < 0.8 else rng.uniform(1e-6, 1e6)) for _ in range(n)],
              [lasio.f64bits(rng.choice(OFFSETS) if rng.random() < 0.8 else rng.uniform(-1e6, 1e6)) for _ in range(n)]]
    return {"name": hx(name.encode()), "type": list(t), "scale": sc, "desc": hx(desc.encode())}


def twin_types(t):
    """the element types with the same number of elements and the same element size as t but another kind (signed / unsigned /
    floating point): what a layout described by (name, count, width) cannot tell from t"""
    if t[0] == "o":
        return []
    i = t[1] - 1
    n, b = i // 10, BASE[i % 10]
    return [("s", BASE.index(b2) + 1 + 10 * n) for b2 in BASE if b2[1:] == b[1:] and b2 != b]


def twin_type(rng, t):
    """a type to re-use a name with: mostly one of equal layout and other kind, sometimes any other type (or the same again)"""
    tw = twin_types(t)
    if tw and rng.random() < 0.8:
        return rng.choice(tw)
    return rand_type(rng) if rng.random() < 0.7 else t


def np_base(t):
    """(little-endian numpy element type, elements per point) of a model type token"""
    return (np.dtype("u1"), t[1]) if t[0] == "o" else (np.dtype("<" + BASE[(t[1] - 1) % 10]), (t[1] - 1) // 10 + 1)


def rand_values(rng, t, scaled, npts):
    """raw bytes for npts records of a dimension: boundary-biased (int64 above 2^53, non-integer floats, NaN payloads ...)"""
    size = type_size(t)
    if t[0] == "o":
        return bytes(rng.getrandbits(8) for _ in range(size * npts))
    base = BASE[(t[1] - 1) % 10]
    w = int(base[1:])
    out = bytearray()
    for _ in range(npts * type_elems(t)):
        k = rng.random()
        if base[0] == "f":
            if k < 0.5:
                v = rng.choice([1.1, -0.1, 1e-3, 3.141592653589793, 1e30, -2.5e-7, 0.30000000000000004])
                out += struct.pack("<f" if w == 4 else "<d", v)
            elif k < 0.6:
                out += (b"\x01\x00\xc0\x7f" if w == 4 else b"\x01\x00\x00\x00\x00\x00\xf8\x7f")   # quiet NaN with payload
            else:
                out += bytes(rng.getrandbits(8) for _ in range(w))
                if w == 4 and (out[-1] & 0x7F) == 0x7F and (out[-2] & 0x80):   # keep NaNs quiet
                    out[-2] |= 0x40
                if w == 8 and (out[-1] & 0x7F) == 0x7F and (out[-2] & 0xF0) == 0xF0:
                    out[-2] |= 0x08
        else:
            if k < 0.25 and w == 8:
                v = rng.choice([2 ** 53 + 1, 2 ** 60 + 1, 2 ** 63 - 1, 2 ** 62 + 12345]) if base[0] == "i" else rng.choice([2 ** 53 + 1, 2 ** 64 - 1, 2 ** 63 + 1])
                out += (v % 2 ** 64).to_bytes(8, "little")
            elif k < 0.4:
                out += rng.choice([b"\x00" * w, b"\xff" * w, b"\xff" * (w - 1) + b"\x7f", b"\x00" * (w - 1) + b"\x80"])
            else:
                out += bytes(rng.getrandbits(8) for _ in range(w))
    return bytes(out)


_STD_DTYPE = {}


def std_dtype(fmt):
    """the record layout of the standard dimensions of a format (of a fresh PointFormat(fmt); a numpy dtype is immutable: kept)"""
    if fmt not in _STD_DTYPE:
        import laspy
        _STD_DTYPE[fmt] = laspy.PointFormat(fmt).dtype()
    return _STD_DTYPE[fmt]


def rand_std(rng, fmt, npts):
    size = std_dtype(fmt).itemsize
    pat = rng.choice(["random", "random", "ones", "small"])
    if pat == "random":
        return bytes(rng.getrandbits(8) for _ in range(size * npts))
    if pat == "ones":
        return b"\xff" * (size * npts)
    return bytes(rng.choice([0, 0, 1, 2, 255]) for _ in range(size * npts))


def type_kind(t):
    return "u" if t[0] == "o" else BASE[(t[1] - 1) % 10][0]


def rand_records(rng, fmt, dims, m):
    """raw bytes of m whole points of format (fmt, dims): standard block then every extra dimension"""
    out = bytearray()
    for _ in range(m):
        out += rand_std(rng, fmt, 1)
        for d in dims:
            out += rand_values(rng, tuple(d["type"]), d["scale"] is not None, 1)
    return bytes(out)


SOURCES = ["copy", "copy", "self", "slice", "other", "other", "reread", "packed"]
MISMATCHES = ["missing", "extra", "name", "desc", "type", "scaledness", "scale", "order"]
NEG_ZERO = 1 << 63


def mismatching_dims(rng, shadow, reserved, kind):
    """extra dimensions that PointFormat.__eq__ must tell from `shadow` (never differing ONLY in the element count of a type of
    the same kind and total size, which DimensionInfo.__eq__ does not look at); None if this kind does not apply"""
    dims = [dict(d) for d in shadow]
    used = {bytes.fromhex(d["name"]).decode() for d in shadow}
    if kind == "extra":
        return dims + [rand_dim(rng, used, reserved)]
    if not dims:
        return None
    i = rng.randrange(len(dims))
    d = dims[i]
    t = tuple(d["type"])
    if kind == "missing":
        del dims[i if rng.random() < 0.5 else -1]
    elif kind == "name":
        d["name"] = hx(rand_text(rng, rand_len(rng), used, reserved).encode())
    elif kind == "desc":
        old = bytes.fromhex(d["desc"])
        new = old
        while new == old:
            new = rand_text(rng, rng.choice([0, 1, 5, 32]) or 1, loose=True).encode() if rng.random() < 0.8 else b""
        d["desc"] = hx(new)
    elif kind == "type":
        for _ in range(50):
            t2 = rand_type(rng)
            if (type_kind(t2), type_size(t2)) != (type_kind(t), type_size(t)):
                break
        else:
            return None
        d["type"] = list(t2)
        if d["scale"] is not None:
            d["scale"] = None if t2[0] == "o" else [[lasio.f64bits(0.5)] * type_elems(t2), [lasio.f64bits(1.0)] * type_elems(t2)]
    elif kind == "scaledness":
        if t[0] == "o":
            return None
        d["scale"] = None if d["scale"] is not None else [[lasio.f64bits(1.0)] * type_elems(t), [lasio.f64bits(0.0)] * type_elems(t)]
    elif kind == "scale":
        if d["scale"] is None:
            return None
        which, j = rng.randrange(2), rng.randrange(type_elems(t))
        sc = [list(d["scale"][0]), list(d["scale"][1])]
        sc[which][j] = lasio.f64bits(lasio.bits_f64(sc[which][j]) + 1.0 if abs(lasio.bits_f64(sc[which][j])) < 1e15 else 7.0)
        d["scale"] = sc
    elif kind == "order":
        if len(dims) < 2:
            return None
        j = (i + 1 + rng.randrange(len(dims) - 1)) % len(dims)
        dims[i], dims[j] = dims[j], dims[i]
    return dims


def rand_set_points(rng, fmt, shadow, cur, reserved, source=None, mismatch=None):
    """las.points = <a record with its own PointFormat>: how the record is obtained (source), how many points it has, its own extra
    dimensions (those of the LasData unless `mismatch`) and the bytes of all its points"""
    dims = [dict(d) for d in shadow]
    if mismatch:
        dims = mismatching_dims(rng, shadow, reserved, mismatch)
        if dims is None:
            mismatch, dims = "extra", mismatching_dims(rng, shadow, reserved, "extra")
        source = source if source in ("other", "packed") else rng.choice(["other", "packed"])
    source = source or rng.choice(SOURCES)
    op = {"op": "set_points", "source": source}
    if source in ("copy", "self", "reread"):
        m = cur
    elif source == "slice":
        m = rng.randrange(cur + 1)
    else:
        m = rng.choice([0, 1, 2, 3, 5, cur, cur, cur + 1])
        if not mismatch and rng.random() < 0.25:
            # numerically equal, not bit-identical: 0.0 <-> -0.0 among the offsets (PointFormat.__eq__ compares numbers)
            for d in dims:
                if d["scale"] is not None:
                    d["scale"] = [list(d["scale"][0]), [b ^ NEG_ZERO if b in (0, NEG_ZERO) else b for b in d["scale"][1]]]
        op["one_by_one"] = rng.random() < 0.5
    size = std_dtype(fmt).itemsize + sum(type_size(tuple(d["type"])) for d in dims)
    op.update({"npts": m, "dims": dims, "size": size, "raw": hx(rand_records(rng, fmt, dims, m))})
    if mismatch:
        op["mismatch"] = mismatch
    return op


UNREG_NAME = b"ExtraBytes"
UNREG_DESC = b"Un-registered ExtraBytes"
BUILDS = ["header_record", "header_record", "header_fmt", "create_fmt", "create_int"]
SAFE_STD = [0, 0, 1, 2, 3]      # standard bytes whose every field fits every other point format (conversion cannot misfit)


def unreg_dim(n):
    """the dimension the reader makes of n bytes no descriptor registers (1..3 bytes: numpy gives a documented uint8 type)"""
    return {"name": hx(UNREG_NAME), "type": ["o", n] if n > 3 else ["s", {1: 1, 2: 11, 3: 21}[n]], "scale": None, "desc": hx(UNREG_DESC)}


def reread_effect(shadow, reg, keep):
    """what reading a file whose extra-bytes VLR keeps only its first `keep` descriptors (None: no such VLR) makes of the
    dimensions: (new dimensions, what the VLR registers afterwards: None = everything, k = the first k, "absent" = no VLR);
    `reg` says what the VLR registers now"""
    n_reg = len(shadow) if reg is None else (0 if reg == "absent" else reg)
    has_vlr = (reg is None and bool(shadow)) or isinstance(reg, int)
    if keep is None:
        k_eff, has_vlr = 0, False
    else:
        k_eff = min(keep, n_reg)
    kept, rest = shadow[:k_eff], shadow[k_eff:]
    if not rest:
        return list(shadow), None
    return kept + [unreg_dim(sum(type_size(tuple(d["type"])) for d in rest))], (k_eff if has_vlr else "absent")


def rand_reread(rng, shadow, reg):
    """a re-read the model's hypothesis allows: the invented name 'ExtraBytes' is new, at most 255 bytes stay un-registered"""
    n_reg = len(shadow) if reg is None else (0 if reg == "absent" else reg)
    cands = [None] + list(range(n_reg + 2))
    rng.shuffle(cands)
    for keep in cands:
        k_eff = 0 if keep is None else min(keep, n_reg)
        kept, rest = shadow[:k_eff], shadow[k_eff:]
        if rest and (any(d["name"] == hx(UNREG_NAME) for d in kept) or not 1 <= sum(type_size(tuple(d["type"])) for d in rest) <= 255):
            continue
        return {"op": "reread", "keep": keep, "via": rng.choice(["write", "write", "writer"])}
    return None


def rand_convert(rng, curfmt, curver):
    g = rng.choice([curfmt, rng.randrange(11), rng.randrange(11)])
    ver = None
    if rng.random() < 0.3:
        ver = rng.choice([v for v in lasio.VERSIONS if g in lasio.COMPAT[v]])
    return {"op": "convert", "fmt": g, "version": ver}


def version_after_convert(curver, g, ver):
    import laspy.point.dims as dims
    return ver or max(curver, dims.preferred_file_version_for_point_format(g))


def rand_vlrs(rng):
    out = []
    for _ in range(rng.choice([0, 0, 1, 2, 3])):
        uid = lasio.rand_ascii(rng, rng.choice([1, 8, 16]), [c for c in range(97, 123)])
        n = rng.choice([0, 1, 3, 192, 384, rng.randrange(200)])
        out.append([hx(uid.encode()), rng.choice([0, 4, 7, 65535]), hx(lasio.rand_ascii(rng, rng.choice([0, 5, 32]), [c for c in range(65, 91)]).encode()),
                    hx(bytes(rng.getrandbits(8) for _ in range(n)))])
    return out


SELECT_KINDS = ["slice", "slice", "step", "mask", "list", "array", "int", "empty"]
FORK_HOWS = ["select", "select", "select", "copy", "share_header", "reader", "reader_twice", "writer", "rewrap", "rewrap", "set_count"]
REWRAP_ROUTES = ["slice", "slice", "slice_copy", "chunk", "chunk", "chunk_iter", "smaller_header"]
ROUNDTRIP_VIAS = ["write", "write", "write", "writer", "writer", "path", "mmap"]


def rand_index(rng, n, kind=None, bad=False):
    """an index expression for las[...] on n points (JSON-able)"""
    kind = kind or rng.choice(SELECT_KINDS)
    if kind == "int" and n == 0:
        kind = "slice"
    if kind == "slice":
        a_, b_ = sorted((rng.randrange(n + 1), rng.randrange(n + 1)))
        a_ = rng.choice([a_, a_, None, a_ - n if n and a_ < n else a_])
        b_ = rng.choice([b_, b_, None, n + 3])
        return {"kind": "slice", "a": a_, "b": b_, "step": None}
    if kind == "step":
        return {"kind": "slice", "a": rng.choice([None, 0, 1]), "b": None, "step": rng.choice([2, 2, 3, -1, -2])}
    if kind == "mask":
        return {"kind": "mask", "bits": [rng.randrange(2) for _ in range(n)], "as": rng.choice(["array", "list"])}
    if kind == "empty":
        return {"kind": "list", "idx": []}
    if kind == "int":
        return {"kind": "int", "i": rng.randrange(-n, n)}
    idx = [rng.randrange(-n, n) for _ in range(rng.choice([1, 2, n, n + 2]))] if n else []
    if bad and kind == "list":
        idx.insert(rng.randrange(len(idx) + 1), rng.choice([n, n + 1, -n - 1]))
    if kind == "array":
        dt = rng.choice(["i8", "i8", "i4", "i2", "u4"])
        if dt == "u4":
            idx = [i % n for i in idx] if n else []
        return {"kind": "array", "idx": idx, "dtype": dt}
    return {"kind": "list", "idx": idx}


def resolve_index(spec, n):
    """the positions las[spec] selects among n points, in order (Python / numpy indexing rules); IndexError when numpy refuses"""
    k = spec["kind"]
    if k == "slice":
        return list(range(*slice(spec["a"], spec["b"], spec["step"]).indices(n)))
    if k == "mask":
        if len(spec["bits"]) != n:
            raise IndexError("mask length")
        return [i for i, b_ in enumerate(spec["bits"]) if b_]
    idx = [spec["i"]] if k == "int" else spec["idx"]
    for i in idx:
        if not -n <= i < n:
            raise IndexError("out of range")
    return [i % n for i in idx]


def index_object(spec):
    if spec["kind"] == "slice":
        return slice(spec["a"], spec["b"], spec["step"])
    if spec["kind"] == "mask":
        return np.array(spec["bits"], dtype=bool) if spec.get("as") != "list" or not spec["bits"] else [bool(b_) for b_ in spec["bits"]]
    if spec["kind"] == "int":
        return int(spec["i"])
    if spec["kind"] == "array":
        return np.array(spec["idx"], dtype=spec["dtype"])
    return list(spec["idx"])


def rand_rewrap(rng, cur, route=None, whole=False):
    """LasData(header', points') where header' counts other points than points' has: a slice of the record or a chunk a reader
    returned, with a copy of the header of the whole; all the points with the header of a selection"""
    route = route or rng.choice(REWRAP_ROUTES)
    if cur == 0 and route in ("smaller_header", "chunk_iter"):
        route = "chunk"
    op = {"op": "fork", "how": "rewrap", "route": route, "cont": "new"}
    if route == "smaller_header":
        op["count"] = rng.randrange(cur)
        op["index"] = {"kind": "slice", "a": 0, "b": cur, "step": None}
    elif route == "chunk_iter":
        size = rng.choice([1, 2, 3, max(1, cur - 1), cur, cur + 1])
        j = rng.randrange((cur + size - 1) // size)
        op["chunk"] = size
        op["index"] = {"kind": "slice", "a": j * size, "b": min(cur, (j + 1) * size), "step": None}
    else:
        a_, b_ = sorted((rng.randrange(cur + 1), rng.randrange(cur + 1)))
        if whole:
            a_, b_ = 0, cur
        elif b_ - a_ == cur and cur:
            b_ -= 1
        op["index"] = {"kind": "slice", "a": a_, "b": b_, "step": None}
    return op


def rand_set_count(rng, cur, route=None):
    route = route or rng.choice(["assign", "assign", "assign", "reset"])
    return {"op": "fork", "how": "set_count", "route": route, "cont": "self",
            "count": 0 if route == "reset" else rng.choice([0, cur + 1, cur + 7, max(0, cur - 1), 3 * cur + 5, cur + 1000])}


def rand_fork(rng, cur, how=None, cont=None, kind=None):
    how = how or rng.choice(FORK_HOWS)
    if how == "rewrap":
        return rand_rewrap(rng, cur)
    if how == "set_count":
        return rand_set_count(rng, cur)
    op = {"op": "fork", "how": how}
    if how == "select":
        op["index"] = rand_index(rng, cur, kind=kind, bad=rng.random() < 0.08)
        op["cont"] = cont or ("self" if op["index"]["kind"] == "int" else rng.choice(["new", "self"]))
    elif how in ("reader", "reader_twice"):
        op["cont"] = "new"          # the history goes on with the LasData the reader returned; the reader (its other LasData) stays
    elif how == "writer":
        op["cont"] = "self"         # the writer was given las.header; it gets the points it was opened for at the end
    else:
        op["cont"] = cont or rng.choice(["new", "self"])
    return op


EDIT_FLAVOURS = ["foreign_after", "foreign_after", "foreign_after", "foreign_before", "foreign_eb_only", "two_foreign", "duplicate_own",
                 "duplicate_own", "reverse", "eb_first", "drop_eb", "users_only", "empty"]


def rand_user_vlr(rng):
    uid = lasio.rand_ascii(rng, rng.choice([1, 8, 16]), [c for c in range(97, 123)])
    n = rng.choice([0, 1, 3, 192, rng.randrange(100)])
    return [hx(uid.encode()), rng.choice([0, 4, 7, 65535]), hx(lasio.rand_ascii(rng, rng.choice([0, 5, 32]), [c for c in range(65, 91)]).encode()),
            hx(bytes(rng.getrandbits(8) for _ in range(n)))]


TWIN_KINDS = ["scale", "offset", "desc", "all", "scaledness", "same", "one_element"]


def twin_dim(rng, d, kind=None):
    """round 7: a dimension of the same name and the same element type as d that ANOTHER file describes in its own way: other
    scales, other offsets, another description, everything different, scaled where d is not (or the reverse), or exactly the same"""
    t = tuple(d["type"])
    kind = kind or rng.choice(TWIN_KINDS)
    tw = {"name": d["name"], "type": list(d["type"]), "scale": None if d["scale"] is None else [list(d["scale"][0]), list(d["scale"][1])], "desc": d["desc"]}
    if t[0] == "o" and kind != "same":
        kind = "desc"          # an opaque array has nothing else
    n = type_elems(t)

    def other_of(pool, bits):
        return rng.choice([lasio.f64bits(x) for x in pool if lasio.f64bits(x) != bits])

    if kind == "scaledness" or (kind in ("scale", "offset", "one_element") and tw["scale"] is None):
        if tw["scale"] is None:
            tw["scale"] = [[lasio.f64bits(rng.choice(SCALES)) for _ in range(n)], [lasio.f64bits(rng.choice(OFFSETS)) for _ in range(n)]]
        else:
            tw["scale"] = None
    elif kind == "scale":
        tw["scale"][0] = [other_of(SCALES, b) for b in tw["scale"][0]]
    elif kind == "offset":
        tw["scale"][1] = [other_of(OFFSETS, b) for b in tw["scale"][1]]
    elif kind == "one_element":       # only the last element's scale (or offset) differs
        w = rng.randrange(2)
        tw["scale"][w][-1] = other_of([SCALES, OFFSETS][w], tw["scale"][w][-1])
    if kind in ("desc", "all"):
        old = bytes.fromhex(d["desc"]).decode()
        for _ in range(50):
            dl = rng.choice([0, 1, 5, 31, 32, rng.randrange(33)])
            desc = rand_text(rng, dl, loose=True) if dl else ""
            if desc != old:
                break
        tw["desc"] = hx(desc.encode())
    if kind == "all" and tw["scale"] is not None:
        tw["scale"] = [[other_of(SCALES, b) for b in tw["scale"][0]], [other_of(OFFSETS, b) for b in tw["scale"][1]]]
    return tw


def rand_other_seg(rng, reserved, part="all", ndims=None, eb_first=None, twins_of=None, twin_kind=None, layout=None):
    """the LasData the caller takes VLRs from.  twins_of (round 7): the current extra dimensions of the LasData under test — the other
    file then has dimensions of the SAME name and type described differently (twin_dim): `layout` = "same" (the same dimensions in
    the same order, each a twin), "some" (some of them, maybe in another order, next to dimensions of its own), "one" (one twin)"""
    used, dims = set(), []
    if twins_of:
        layout = layout or rng.choice(["same", "same", "some", "one"])
        if layout == "same":
            dims = [twin_dim(rng, d, twin_kind) for d in twins_of]
            if twin_kind is None and len(dims) > 1 and rng.random() < 0.5:      # only one of them differs
                keep = rng.randrange(len(dims))
                dims = [tw if i == keep else twin_dim(rng, d, "same") for i, (tw, d) in enumerate(zip(dims, twins_of))]
        else:
            pick = rng.sample(twins_of, 1 if layout == "one" else rng.randrange(1, len(twins_of) + 1))
            used = {bytes.fromhex(d["name"]).decode() for d in twins_of}
            for d in pick:
                if layout == "some" and rng.random() < 0.4:
                    o = rand_dim(rng, used, reserved)
                    used.add(bytes.fromhex(o["name"]).decode())
                    dims.append(o)
                dims.append(twin_dim(rng, d, twin_kind))
        return {"seg": "other", "dims": dims, "twins": layout, "users": [rand_user_vlr(rng) for _ in range(rng.choice([0, 1, 1, 2]))] if part == "all" else [],
                "eb_first": rng.random() < 0.6 if eb_first is None else eb_first, "via": rng.choice(["memory", "memory", "file"]), "part": part}
    for _ in range(rng.choice([1, 1, 2, 3]) if ndims is None else ndims):
        d = rand_dim(rng, used, reserved)
        used.add(bytes.fromhex(d["name"]).decode())
        dims.append(d)
    return {"seg": "other", "dims": dims, "users": [rand_user_vlr(rng) for _ in range(rng.choice([0, 1, 1, 2]))] if part == "all" else [],
            "eb_first": rng.random() < 0.6 if eb_first is None else eb_first, "via": rng.choice(["memory", "memory", "file"]), "part": part}


TWIN_FLAVOURS = ["take_over", "take_over", "twin_after", "twin_before", "twin_eb_only", "twin_eb_alone"]
TAKE_OVER_INSTALLS = ["slice", "setter_list", "setter_tuple", "setter_iter", "setter_vlrlist", "header_setter", "setter_donor_list", "header_setter_donor_list"]


def rand_edit_vlrs(rng, reserved, flavour=None, install=None, shadow=None, twin_kind=None, layout=None):
    """the caller edits las.vlrs between two operations of the history (JSON-able: segments the new list is made of + how it is
    installed).  shadow: the current extra dimensions; the round-7 flavours (TWIN_FLAVOURS) need some: the VLRs of ANOTHER file that
    has dimensions of the same names and types with its own scales / offsets / descriptions are taken over (`b.vlrs = a.vlrs`: the
    whole list replaces the own one, through a setter — the donor's very list object included — or in place) or put next to the own
    records"""
    if flavour is None:
        flavour = rng.choice(TWIN_FLAVOURS) if shadow and rng.random() < 0.4 else rng.choice(EDIT_FLAVOURS)
    if flavour in TWIN_FLAVOURS and not shadow:
        flavour = "foreign_after"
    cur = {"seg": "cur"}
    if flavour == "take_over":
        segs, inst = [rand_other_seg(rng, reserved, twins_of=shadow, twin_kind=twin_kind, layout=layout)], TAKE_OVER_INSTALLS
    elif flavour == "twin_after":
        segs, inst = [cur, rand_other_seg(rng, reserved, twins_of=shadow, twin_kind=twin_kind, layout=layout)], ["extend", "append", "iadd_inplace", "slice"] + SETTER_INSTALLS
    elif flavour == "twin_before":
        segs = [rand_other_seg(rng, reserved, twins_of=shadow, twin_kind=twin_kind, layout=layout), cur]
        inst = ["insert_front", "slice", "setter_list", "setter_tuple", "setter_iter", "setter_vlrlist", "header_setter"]
    elif flavour == "twin_eb_only":
        segs, inst = [cur, rand_other_seg(rng, reserved, part="eb", twins_of=shadow, twin_kind=twin_kind, layout=layout)], ["extend", "append", "slice"] + SETTER_INSTALLS
    elif flavour == "twin_eb_alone":         # the own extra-bytes VLR is replaced by the other file's
        segs = [{"seg": "cur_no_eb"}, rand_other_seg(rng, reserved, part="eb", twins_of=shadow, twin_kind=twin_kind, layout=layout)]
        inst = ["slice", "setter_list", "setter_tuple", "setter_vlrlist", "header_setter"]
    elif flavour == "foreign_after":
        segs, inst = [cur, rand_other_seg(rng, reserved)], ["extend", "extend", "append", "iadd_inplace", "slice"] + SETTER_INSTALLS
    elif flavour == "foreign_before":
        segs, inst = [rand_other_seg(rng, reserved), cur], ["insert_front", "slice", "setter_list", "setter_tuple", "setter_iter", "setter_vlrlist", "header_setter"]
    elif flavour == "foreign_eb_only":
        segs, inst = [cur, rand_other_seg(rng, reserved, part="eb")], ["extend", "append", "slice"] + SETTER_INSTALLS
    elif flavour == "two_foreign":
        segs = [cur, rand_other_seg(rng, reserved, part="eb"), rand_other_seg(rng, reserved, part=rng.choice(["eb", "all"]), eb_first=True)]
        inst = ["extend", "append", "iadd_inplace", "slice"] + SETTER_INSTALLS
    elif flavour == "duplicate_own":
        form = rng.randrange(4)
        segs = [[cur, {"seg": "cur_eb"}], [cur, {"seg": "cur_eb_copy"}], [{"seg": "cur_eb_copy"}, cur], [cur, {"seg": "cur_eb_copy"}, {"seg": "cur_eb"}]][form]
        inst = (["insert_front", "slice"] if form == 2 else ["extend", "append", "slice", "setter_iadd"]) + ["setter_list", "setter_vlrlist", "header_setter"]
    elif flavour == "reverse":
        segs, inst = [{"seg": "cur_rev"}], ["reverse", "slice", "setter_list", "setter_iter"]
    elif flavour == "eb_first":
        segs, inst = [{"seg": "cur_eb"}, {"seg": "cur_no_eb"}], ["slice", "setter_list", "setter_tuple"]
    elif flavour == "drop_eb":
        segs, inst = [{"seg": "cur_no_eb"}], ["pop_eb", "extract_eb", "slice", "setter_list", "header_setter"]
    elif flavour == "users_only":
        segs, inst = [cur, {"seg": "user", "vlr": rand_user_vlr(rng)}, {"seg": "user", "vlr": rand_user_vlr(rng)}], ["extend", "append", "setter_iadd", "setter_list"]
    elif flavour == "empty":
        segs, inst = [], ["clear", "slice", "setter_list", "setter_tuple", "header_setter"]
    else:
        raise ValueError("unknown flavour " + flavour)
    return {"op": "edit_vlrs", "flavour": flavour, "install": install or rng.choice(inst), "segs": segs}


def rand_sync_op(rng, shadow, reserved):
    """an add or a valid remove: what gives the VLR list back to the header after the caller edited it in place"""
    if shadow and rng.random() < 0.5:
        names = rng.sample([d["name"] for d in shadow], rng.choice([1, 1, len(shadow)]))
        return {"op": "remove", "names": names, "single": len(names) == 1 and rng.random() < 0.5, "as": rng.choice(["list", "tuple", "iter"])}
    used = {bytes.fromhex(d["name"]).decode() for d in shadow}
    return {"op": "add", "dims": [rand_dim(rng, used, reserved)], "single": rng.random() < 0.5}


REFMT_BUILDS = ("header_refmt", "header_setver", "create_refmt")     # round 7: the header had ANOTHER PointFormat first (h["prior_dims"])


def gen_history(rng, reserved, fmt=None, steps=None, npts=None, plan=None, build=None, init=None, sibling=None, sib_ops=None, init_dims=None,
                prior_kind=None, prior_layout=None):
    """a history: how the LasData is built (header parameters, the extra dimensions its PointFormat carries from the start, the bytes
    of its points, VLRs and how they are installed, an optional sibling LasData built the same way), and up to 12 operations ending
    with a round trip.  `plan` (optional) is a list of forced first operations given as callables(shadow, current number of points) -> op."""
    fmt = rng.randrange(11) if fmt is None else fmt
    ver = rng.choice([v for v in lasio.VERSIONS if fmt in lasio.COMPAT[v]])
    if build is None:
        build = rng.choice(BUILDS)
        if fmt == 3 and rng.random() < 0.5:
            build = rng.choice(["default_create", "default_header"])
        elif rng.random() < 0.08:
            build = rng.choice(REFMT_BUILDS)
    if build.startswith("default"):
        fmt, ver = 3, "1.2"
    npts = rng.choice([0, 1, 2, 3, 5, 17]) if npts is None else npts
    shadow = []      # current extra dimensions as the property expects them
    if build in ("header_fmt", "create_fmt") + REFMT_BUILDS:
        used = set()
        for _ in range(rng.choice([0, 1, 1, 2, 3]) if init is None else init):
            d = rand_dim(rng, used, reserved)
            used.add(bytes.fromhex(d["name"]).decode())
            shadow.append(d)
        if init_dims is not None:       # the PointFormat carries exactly these from the start
            shadow = [dict(d) for d in init_dims]
    if sibling is None and rng.random() < (0.6 if build.startswith("default") else 0.15):
        sibling = rng.choice(["older", "younger"])
    sib = None
    retired = []     # (name, type) of dimensions that existed in this process under that name: removed here, or the sibling's
    if sibling:
        used = {bytes.fromhex(d["name"]).decode() for d in shadow}
        d1 = rand_dim(rng, used, reserved)
        d2 = rand_dim(rng, used | {bytes.fromhex(d1["name"]).decode()}, reserved)
        sops = [{"op": "add", "dims": [d1, d2], "single": False}]
        if rng.random() < 0.4:
            sops.append({"op": "remove", "names": [rng.choice([d1, d2])["name"]], "single": True})
        if sib_ops is not None:
            sops = sib_ops
        sib = {"when": sibling, "ops": sops if sibling == "older" else []}
        for o in sib["ops"]:
            retired.extend((d["name"], tuple(d["type"])) for d in o.get("dims", []))
    prior = None
    if build in REFMT_BUILDS:
        # the PointFormat the header was made with and that header.point_format = .. / set_version_and_point_format replaced: mostly
        # dimensions of the same names and types described differently (twin_dim)
        prior = rand_other_seg(rng, reserved, twins_of=shadow, twin_kind=prior_kind, layout=prior_layout)["dims"] if shadow and rng.random() < 0.85 \
            else rand_other_seg(rng, reserved)["dims"]
    h = {"version": ver, "fmt": fmt, "npts": npts, "build": build, "init_dims": [dict(d) for d in shadow], "prior_dims": prior,
         "raw": hx(rand_records(rng, fmt, shadow, npts)), "vlrs": rand_vlrs(rng), "vlr_install": rng.choice(["append", "append", "setter"]),
         "sibling": sib, "ops": [],
         "own_format": rng.random() < 0.5}      # LasData(header, record) with a record that carries its own PointFormat object
    steps = rng.choice([2, 4, 6, 8, 11]) if steps is None else steps
    import laspy.point.dims as dims
    queue = list(plan or [])
    cur = npts       # whole-record assignments and selections change the number of points
    curfmt, curver = fmt, ver     # conversions change the point format and may raise the version
    reg = None       # what the extra-bytes VLR registers: None = every dimension, k = the first k, "absent" = there is no VLR
    force_sync = False      # the caller edited the VLR list in place: the next operation is an add or a valid remove
    last_kept = None        # the dimension the caller's last kept ExtraBytesParams object describes
    while len(h["ops"]) < steps or (force_sync and not queue):
        std_names = list(std_dtype(curfmt).names) + [s.name for subs in dims.COMPOSED_FIELDS[curfmt].values() for s in subs]
        if force_sync and not queue:
            op = rand_sync_op(rng, shadow, reserved)
        elif queue:
            op = queue.pop(0)(shadow, cur)
            if op is None:
                continue
            if callable(op):       # needs the tracked state: (shadow, cur, curfmt, curver, reg) -> op
                op = op(shadow, cur, curfmt, curver, reg)
                if op is None:
                    continue
        else:
            k = rng.random()
            used = {bytes.fromhex(d["name"]).decode() for d in shadow}
            k0 = rng.random()
            if k0 < 0.10:
                op = rand_set_points(rng, curfmt, shadow, cur, reserved, mismatch=rng.choice(MISMATCHES) if rng.random() < 0.2 else None)
            elif k0 < 0.17:
                op = rand_convert(rng, curfmt, curver)
                if op["fmt"] not in convert_targets(shadow):        # the target's record has a field called like an extra dimension
                    op["fmt"] = rng.choice([g for g in convert_targets(shadow) if g != curfmt] or [curfmt])
                    if op["version"] is not None and op["fmt"] not in lasio.COMPAT[op["version"]]:
                        op["version"] = None
                if op["fmt"] != curfmt and len(h["ops"]) < steps - 1:
                    h["ops"].append({"op": "assign_std", "size": std_dtype(curfmt).itemsize,
                                     "raw": hx(bytes(rng.choice(SAFE_STD) for _ in range(std_dtype(curfmt).itemsize * cur))), "safe": True})
                elif op["fmt"] != curfmt:
                    op["fmt"] = curfmt
                    if op["version"] is not None and curfmt not in lasio.COMPAT[op["version"]]:
                        op["version"] = None
            elif k0 < 0.22 and shadow:
                op = rand_reread(rng, shadow, reg)
                if op is None:
                    continue
            elif k0 < 0.32:
                op = rand_fork(rng, cur)
            elif k0 < 0.38:
                op = rand_edit_vlrs(rng, reserved, shadow=shadow)
            elif k0 < 0.42 and last_kept is not None:
                op = {"op": "caller", "what": rng.choice(CALLER_WHATS)}
            elif k < 0.36 or (not shadow and k < 0.7):
                dims_ = []
                for _ in range(rng.choice([1, 1, 1, 2, 3])):
                    again = [r for r in retired if bytes.fromhex(r[0]).decode() not in used and bytes.fromhex(r[0]).decode() not in name_tables()["rec"][curfmt]]
                    if again and rng.random() < 0.5:
                        # a name that was in use before (in this LasData or in the sibling) comes back, mostly with a type of the
                        # same layout (element count and width) and another kind
                        nm, t_old = rng.choice(again)
                        d = rand_dim(rng, used, reserved, t=twin_type(rng, t_old), name=bytes.fromhex(nm).decode())
                    elif rng.random() < 0.12 and [n for n in clash_pool(curfmt) if n not in used]:
                        # round 6: a name laspy knows — a sub field of this format (half of them), a standard dimension of another
                        # format, an alias, a coordinate —, legal because the record of this format has no field of that name
                        pool = [n for n in clash_pool(curfmt) if n not in used]
                        subs_here = [n for n in pool if n in name_tables()["sub"][curfmt]]
                        d = rand_dim(rng, used, reserved, name=rng.choice(subs_here if subs_here and rng.random() < 0.5 else pool))
                    else:
                        d = rand_dim(rng, used, reserved)
                    used.add(bytes.fromhex(d["name"]).decode())
                    dims_.append(d)
                op = {"op": "add", "dims": dims_, "single": len(dims_) == 1 and rng.random() < 0.5}
                if last_kept is not None and rng.random() < 0.2:
                    # the caller re-uses the params object it kept from an earlier addition
                    inplace = (rng.random() < 0.5 and dims_[0]["scale"] is not None and last_kept["scale"] is not None
                               and len(dims_[0]["scale"][0]) == len(last_kept["scale"][0]))
                    op = {"op": "add", "dims": dims_[:1], "single": True, "pass": {"reuse": "inplace" if inplace else "rebind", "retain": True}}
                elif rng.random() < 0.5:
                    op["pass"] = {"arrays": rng.choice(ARRAY_REPS), "retain": True, "type": rng.choice(TYPE_REPS), "text": rng.choice(["str", "str", "np_str"])}
            elif k < 0.56 and shadow:
                cnt = rng.choice([1, 1, 2, len(shadow), len(shadow)])
                names = rng.sample([d["name"] for d in shadow], min(cnt, len(shadow)))
                op = {"op": "remove", "names": names, "single": len(names) == 1 and rng.random() < 0.5, "as": rng.choice(["list", "tuple", "iter"]),
                      "retain": rng.random() < 0.5}
            elif k < 0.71 and shadow:
                op = assign_op(rng, rng.choice(shadow), cur)
            elif k < 0.73 and [d for d in shadow if bytes.fromhex(d["name"]).decode() in name_tables()["sub"][curfmt]]:
                # las[name] = values where an extra dimension is called like the sub field `name`: the STANDARD sub field is assigned
                d = rng.choice([d for d in shadow if bytes.fromhex(d["name"]).decode() in name_tables()["sub"][curfmt]])
                op = assign_sub_op(rng, curfmt, bytes.fromhex(d["name"]).decode(), cur)
            elif k < 0.76:
                op = {"op": "assign_std", "size": std_dtype(curfmt).itemsize, "raw": hx(rand_std(rng, curfmt, cur))}
            elif k < 0.86:
                op = {"op": "roundtrip", "via": rng.choice(ROUNDTRIP_VIAS)}
            else:
                good = [d["name"] for d in shadow]
                bad_kind = rng.choice(["standard", "unknown", "duplicate", "empty"]) if good else rng.choice(["standard", "unknown", "empty"])
                if bad_kind == "standard":
                    bad = [hx(rng.choice([n for n in std_names if n not in used]).encode())]     # (a sub field's name may be an extra dimension's)
                elif bad_kind == "unknown":
                    bad = [hx(rand_text(rng, rand_len(rng), used, reserved).encode())]
                elif bad_kind == "duplicate":
                    bad = [rng.choice(good)]
                else:
                    bad = []
                pre = rng.sample(good, rng.randrange(len(good) + 1)) if good else []
                if bad_kind == "duplicate" and bad[0] not in pre:
                    pre.insert(rng.randrange(len(pre) + 1), bad[0])
                cut = rng.randrange(len(pre) + 1)
                names = pre[:cut] + bad + pre[cut:]
                if bad_kind == "duplicate":
                    names = pre + bad if rng.random() < 0.5 else names
                op = {"op": "remove", "names": names, "single": False, "as": rng.choice(["list", "tuple", "iter"])}
                if bad_kind != "empty":
                    op["bad"] = bad_kind
        h["ops"].append(op)
        if op["op"] == "add":
            shadow.extend(op["dims"])
            reg = None
            force_sync = False
            if (op.get("pass") or {}).get("retain"):
                last_kept = op["dims"][-1]
        elif op["op"] == "remove" and remove_is_valid(shadow, op["names"]):
            retired.extend((d["name"], tuple(d["type"])) for d in shadow if d["name"] in op["names"])
            shadow[:] = [d for d in shadow if d["name"] not in op["names"]]
            reg = None
            force_sync = False
        elif op["op"] == "edit_vlrs":
            if op["install"] in INPLACE_INSTALLS:
                force_sync = True
            else:
                reg = None
        elif op["op"] == "caller" and op["what"] in ("params_rebind", "params_inplace") and last_kept is not None:
            last_kept = changed_param(last_kept, op["what"])
        elif op["op"] == "set_points" and not op.get("mismatch"):
            cur = op["npts"]
        elif op["op"] == "convert":
            curver = version_after_convert(curver, op["fmt"], op["version"])
            curfmt = op["fmt"]
            reg = None
        elif op["op"] == "reread":
            shadow[:], reg = reread_effect(shadow, reg, op["keep"])
        elif op["op"] == "fork" and op["how"] in ("select", "rewrap") and op["cont"] == "new":
            try:
                cur = len(resolve_index(op["index"], cur))
            except IndexError:
                pass
    h["ops"].append({"op": "roundtrip", "via": rng.choice(["write", "writer"])})
    return h


def assign_sub_op(rng, fmt, name, cur):
    """las[name] = values for the standard sub field `name` (values over the whole width of the sub field)"""
    comp, mask = name_tables()["sub"][fmt][name]
    top = mask >> shift_of(mask)
    return {"op": "assign_sub", "name": hx(name.encode()), "composed": comp, "mask": mask,
            "vals": [rng.choice([0, top, rng.randrange(top + 1)]) for _ in range(cur)], "how": rng.choice(["item", "item", "attr"])}


def assign_op(rng, d, cur):
    """values for one extra dimension, given in the element type the dimension was DECLARED with"""
    t = tuple(d["type"])
    return {"op": "assign", "name": d["name"], "size": type_size(t), "type": list(t), "raw": hx(rand_values(rng, t, d["scale"] is not None, cur))}


def remove_is_valid(shadow, names):
    cur = [d["name"] for d in shadow]
    return all(n in cur for n in names) and len(set(names)) == len(names)


# ---------------------------------------------------------------------------------
# running a history on the implementation
# ---------------------------------------------------------------------------------
def init_dims_of(h):
    return h.get("init_dims", [])


def init_raw_of(h):
    return h["raw"] if "raw" in h else h["std"]       # histories of the earlier rounds: standard bytes only


def make_las(h, sibling=False):
    """the LasData a history starts from, built the way h['build'] says; a sibling is built the same way (own PointFormat object,
    one zeroed point, no foreign VLRs)"""
    import laspy
    build = h.get("build", "header_record")
    fmt, ver = h["fmt"], h["version"]

    def point_format():
        pf = laspy.PointFormat(fmt)
        for d in init_dims_of(h):
            pf.add_extra_dimension(mk_param(d))
        return pf

    def prior_format():
        pf = laspy.PointFormat(fmt)
        for d in h.get("prior_dims") or []:
            pf.add_extra_dimension(mk_param(d))
        return pf

    if build == "header_record":
        hdr = laspy.LasHeader(version=ver, point_format=fmt)
    elif build == "header_refmt":
        hdr = laspy.LasHeader(version=ver, point_format=prior_format())
        hdr.point_format = point_format()
    elif build == "header_setver":
        from laspy.header import Version
        hdr = laspy.LasHeader(version=ver, point_format=prior_format())
        hdr.set_version_and_point_format(Version.from_str(ver), point_format())
    elif build == "create_refmt":
        las = laspy.create(point_format=prior_format(), file_version=ver)
        las.header.point_format = point_format()
        las = laspy.LasData(las.header)
    elif build == "header_fmt":
        hdr = laspy.LasHeader(version=ver, point_format=point_format())
    elif build == "default_header":
        hdr = laspy.LasHeader()
    elif build == "create_fmt":
        las = laspy.create(point_format=point_format(), file_version=ver)
    elif build == "create_int":
        las = laspy.create(point_format=fmt, file_version=ver)
    elif build == "default_create":
        las = laspy.create()
    else:
        raise ValueError("unknown build " + build)
    vlrs = [] if sibling else [laspy.VLR(user_id=bytes.fromhex(u).decode(), record_id=r, description=bytes.fromhex(d).decode(), record_data=bytes.fromhex(p))
                               for u, r, d, p in h["vlrs"]]
    npts = 1 if sibling else h["npts"]
    if build in ("header_record", "header_fmt", "default_header", "header_refmt", "header_setver"):
        if h.get("vlr_install") == "setter":
            hdr.vlrs = vlrs
        else:
            for v in vlrs:
                hdr.vlrs.append(v)
        own = point_format() if h.get("own_format") and not sibling else hdr.point_format
        dt = own.dtype()
        arr = np.zeros(npts, dt) if sibling or not npts else np.frombuffer(bytes.fromhex(init_raw_of(h)), dtype=dt).copy()
        return laspy.LasData(hdr, laspy.PackedPointRecord(arr, own))
    if h.get("vlr_install") == "setter":
        las.vlrs = vlrs
    else:
        for v in vlrs:
            las.vlrs.append(v)
    if npts or h.get("own_format"):
        rec = laspy.ScaleAwarePointRecord.zeros(npts, header=las.header)
        if npts and not sibling:
            rec.array[...] = np.frombuffer(bytes.fromhex(init_raw_of(h)), dtype=rec.array.dtype)
        las.points = rec
    return las


ARRAY_REPS = ["ndarray", "ndarray", "list", "tuple", "npscalars", "buffer", "strided"]
TYPE_REPS = ["str", "str", "dtype", "pair", "class", "one_prefixed"]


def new_env():
    """what the CALLER keeps after its calls: the arrays it passed as scales / offsets, its ExtraBytesParams objects, the lists it
    passed to add_extra_dims / remove_extra_dims, the LasData whose VLRs it copied"""
    return {"arrays": [], "params": [], "lists": []}


def mk_param(d, how=None, env=None):
    """the ExtraBytesParams of a dimension; `how` says in which representation the caller hands over scales and offsets (all of
    them carry the very binary64 numbers) and whether it keeps the objects (env) to re-use or change them later"""
    import laspy
    how = how or {}
    rep = how.get("arrays", "ndarray")
    keep = env is not None and how.get("retain")
    kw = {}
    if d["scale"] is not None:
        sc = [lasio.bits_f64(b) for b in d["scale"][0]]
        of = [lasio.bits_f64(b) for b in d["scale"][1]]
        n = len(sc)
        if rep == "list":
            kw = dict(scales=list(sc), offsets=list(of))
        elif rep == "tuple":
            kw = dict(scales=tuple(sc), offsets=tuple(of))
        elif rep == "npscalars":
            kw = dict(scales=[np.float64(x) for x in sc], offsets=[np.float64(x) for x in of])
        elif rep == "buffer" and env is not None:
            # one reusable buffer for the scales and one for the offsets, filled for the dimension that is about to be added
            if "buf_s" not in env:
                env["buf_s"], env["buf_o"] = np.zeros(3, dtype=np.float64), np.zeros(3, dtype=np.float64)
                env["arrays"] += [env["buf_s"], env["buf_o"]]
            env["buf_s"][:n] = sc
            env["buf_o"][:n] = of
            kw = dict(scales=env["buf_s"][:n], offsets=env["buf_o"][:n])
        elif rep == "strided":
            big_s, big_o = np.zeros(6, dtype=np.float64), np.zeros(6, dtype=np.float64)
            big_s[::2][:n] = sc
            big_o[::2][:n] = of
            kw = dict(scales=big_s[::2][:n], offsets=big_o[::2][:n])
            if keep:
                env["arrays"] += [big_s, big_o]
        else:
            kw = dict(scales=np.array(sc, dtype=np.float64), offsets=np.array(of, dtype=np.float64))
            if keep:
                env["arrays"] += [kw["scales"], kw["offsets"]]
    t = tuple(d["type"])
    ty = type_str(t)
    trep = how.get("type", "str")
    if trep == "dtype":
        ty = np.dtype(ty)
    elif trep == "pair":                       # (element type, count) as numpy spells a sub-array type
        base, n = np_base(t)
        ty = np.dtype((base, (n,))) if (t[0] == "o" or n > 1) else np.dtype(base)
    elif trep == "class" and t[0] == "s" and type_elems(t) == 1:
        ty = np.dtype(ty).type              # np.uint8, np.float64 ...
    elif trep == "one_prefixed" and t[0] == "s" and type_elems(t) == 1:
        ty = "1" + ty                       # the spelling numpy deprecated, which ExtraBytesParams accepts
    name, desc = bytes.fromhex(d["name"]).decode(), bytes.fromhex(d["desc"]).decode()
    if how.get("text") == "np_str":
        name, desc = np.str_(name), np.str_(desc)
    p = laspy.ExtraBytesParams(name, ty, description=desc, **kw)
    if keep:
        env["params"].append(p)
    return p


def reuse_param(d, how, env):
    """the caller re-uses the ExtraBytesParams object of its last addition for the next one: every attribute is set anew; the scales
    and offsets either as new arrays (rebind) or written into the arrays the object already has (inplace)"""
    p = env["params"][-1]
    p.name = bytes.fromhex(d["name"]).decode()
    p.type = np.dtype(type_str(tuple(d["type"])))
    p.description = bytes.fromhex(d["desc"]).decode()
    if d["scale"] is None:
        p.scales = p.offsets = None
        return p
    sc = [lasio.bits_f64(b) for b in d["scale"][0]]
    of = [lasio.bits_f64(b) for b in d["scale"][1]]
    if how.get("reuse") == "inplace" and p.scales is not None and p.offsets is not None and len(p.scales) == len(sc):
        p.scales[...] = sc
        p.offsets[...] = of
    else:
        p.scales = np.array(sc, dtype=np.float64)
        p.offsets = np.array(of, dtype=np.float64)
    return p


CALLER_WHATS = ["arrays", "arrays", "params_rebind", "lists", "params_inplace", "params_inplace"]
CHANGED_DESC = b"changed by the caller"


def changed_param(d, what):
    """what a params object describing d describes after the caller changed it (apply_caller)"""
    if what == "params_rebind":
        return {"name": d["name"] + hx(b"_x"), "type": ["s", 10], "scale": None, "desc": hx(CHANGED_DESC)}
    if what == "params_inplace" and d["scale"] is not None:
        n = len(d["scale"][0])
        return {"name": d["name"], "type": d["type"], "scale": [[lasio.f64bits(3.5)] * n, [lasio.f64bits(-1.25)] * n], "desc": d["desc"]}
    return d


def apply_caller(what, env):
    """the caller changes objects it owns and has passed to earlier calls"""
    import laspy
    if what == "arrays":
        for a in env["arrays"]:
            a[...] = 7.25
    elif what == "params_rebind":
        for p in env["params"]:
            p.name = p.name + "_x"
            p.type = np.dtype("f8")
            p.description = CHANGED_DESC.decode()
            p.scales = None
            p.offsets = None
    elif what == "params_inplace":
        for p in env["params"]:
            if p.scales is not None and p.offsets is not None:
                p.scales[...] = 3.5
                p.offsets[...] = -1.25
    elif what == "lists":
        for l in env["lists"]:
            l.reverse()
            l.append(laspy.ExtraBytesParams("appended_later", "u1") if l and not isinstance(l[0], str) else "appended_later")
            del l[0]
    else:
        raise ValueError("unknown caller action " + what)


def build_record(las, op):
    """the record a whole-record assignment assigns: obtained the way op['source'] says, then filled with op['raw'];
    returns (record, the other LasData the record was taken from or None)"""
    import laspy
    from laspy.point import record
    src, m = op["source"], op["npts"]
    fmt = las.header.point_format.id
    donor = None
    if src == "self":
        rec = las.points
    elif src == "copy":
        rec = las.points.copy()
    elif src == "slice":
        rec = las.points[:m]
    elif src == "reread":
        bio = io.BytesIO()
        las.write(bio)
        donor = laspy.read(io.BytesIO(bio.getvalue()))
        rec = donor.points
    elif src == "other":
        other = laspy.LasData(laspy.LasHeader(version=str(las.header.version), point_format=fmt))
        ps = [mk_param(d) for d in op["dims"]]
        if op.get("one_by_one"):
            for p_ in ps:
                other.add_extra_dim(p_)
        elif ps:
            other.add_extra_dims(ps)
        other.points = record.ScaleAwarePointRecord.zeros(m, header=other.header)
        rec = other.points
        donor = other
    elif src == "packed":
        pf = laspy.PointFormat(fmt)
        for d in op["dims"]:
            pf.add_extra_dimension(mk_param(d))
        rec = laspy.PackedPointRecord.zeros(m, pf)
    else:
        raise ValueError("unknown source " + src)
    if len(rec.array) != m:
        raise RuntimeError(f"harness: source {src} gave {len(rec.array)} points, wanted {m}")
    if m:
        rec.array[...] = np.frombuffer(bytes.fromhex(op["raw"]), dtype=rec.array.dtype)
    return rec, donor


_TMP = [0]


def tmp_path():
    import os
    _TMP[0] += 1
    return f"/var/tmp/c13_{os.getpid()}_{_TMP[0]}.las"


def write_file(las, via):
    """the bytes of the LAS file `las` is written to: LasData.write to a stream / to a path, or laspy.open(mode="w") + write_points
    in up to 3 chunks"""
    import laspy
    import os
    if via == "writer" and las.points.array.ndim == 0:
        via = "write"           # one point selected by an integer: nothing to cut into chunks
    if via == "writer":
        bio = io.BytesIO()
        n = len(las.points)
        cuts = sorted({0, n, n // 3, (2 * n + 2) // 3})
        with laspy.open(bio, mode="w", header=las.header, closefd=False) as w:
            for a_, b_ in zip(cuts, cuts[1:]):
                w.write_points(las.points[a_:b_])
        return bio.getvalue()
    if via in ("path", "mmap"):
        path = tmp_path()
        try:
            las.write(path)
            with open(path, "rb") as f:
                return f.read()
        finally:
            if os.path.exists(path):
                os.remove(path)
    bio = io.BytesIO()
    las.write(bio)
    return bio.getvalue()


def read_file(data, via):
    """file bytes -> LasData: laspy.read of a stream / of a path, or laspy.mmap of a path"""
    import laspy
    import os
    if via in ("path", "mmap"):
        path = tmp_path()
        try:
            with open(path, "wb") as f:
                f.write(data)
            return laspy.mmap(path) if via == "mmap" else laspy.read(path)
        finally:
            os.remove(path)         # a mapped file stays readable and writable after it was unlinked
    return laspy.read(io.BytesIO(data))


def write_read(las, via, aux=None):
    data = write_file(las, via)
    if aux is not None:
        aux["file"] = data
    return read_file(data, via)


def same_values(a, b):
    a, b = np.asarray(a), np.asarray(b)
    return (a.dtype == b.dtype and a.shape == b.shape and a.tobytes() == b.tobytes()) or np.array_equal(a, b)


SNAP_KEYS = ("fmt", "extras", "names", "ftypes", "bytes", "vlrs", "hdr_vlrs", "itemsize", "pf_size", "hdr_pf_size", "npts", "same_format", "dim_names", "std_dims")


class WriterWitness:
    """a writer that was given las.header, and the points it was opened for: they are written when the history is over"""

    def __init__(self, las):
        import laspy
        self.bio = io.BytesIO()
        self.saved = las.points.copy()
        self.writer = laspy.open(self.bio, mode="w", header=las.header, closefd=False)

    def finish(self):
        import laspy
        self.writer.write_points(self.saved)
        self.writer.close()
        return laspy.read(io.BytesIO(self.bio.getvalue()))


class ReaderWitness:
    """a reader that returned a LasData and stays open: it reads its file again when the history is over"""

    def __init__(self, reader):
        self.reader = reader

    def finish(self):
        if self.reader.header.point_count:
            self.reader.seek(0)
        return self.reader.read()


def typed_values(op, npts):
    """the values an assignment gives, as an array of the element type the dimension was declared with"""
    base, n = np_base(tuple(op["type"]))
    vals = np.frombuffer(bytes.fromhex(op["raw"]), dtype=base)
    return vals.reshape((npts, n)) if (op["type"][0] == "o" or n > 1) else vals


def apply_op(las, op, env=None):
    """returns (las, status, aux) — aux: observations the property speaks about that are not part of the resulting state;
    aux['_witnesses']: (kind, object, role) of every other live object this step leaves behind; env: what the caller keeps"""
    import laspy
    import copy
    aux = {}
    wit = aux.setdefault("_witnesses", [])
    env = env if env is not None else new_env()
    try:
        k = op["op"]
        if k == "add":
            how = op.get("pass") or {}
            if how.get("reuse") and env["params"]:
                ps = [reuse_param(op["dims"][0], how, env)]
            else:
                ps = [mk_param(d, how, env) for d in op["dims"]]
            if op.get("single"):
                las.add_extra_dim(ps[0])
            else:
                if how.get("retain"):
                    env["lists"].append(ps)
                las.add_extra_dims(ps)
        elif k == "remove":
            names = [bytes.fromhex(n).decode() for n in op["names"]]
            if op.get("single"):
                las.remove_extra_dim(names[0])
            else:
                if op.get("as") == "list" and op.get("retain"):
                    env["lists"].append(names)
                las.remove_extra_dims(names if op.get("as") == "list" else tuple(names) if op.get("as") == "tuple" else (n for n in names))
        elif k == "caller":
            apply_caller(op["what"], env)
        elif k == "edit_vlrs":
            apply_edit_vlrs(las, op, aux, wit)
        elif k == "assign":
            name = bytes.fromhex(op["name"]).decode()
            arr = las.points.array
            if "type" in op:
                vals = typed_values(op, arr.size)
                if arr.ndim == 0:
                    vals = vals[0]
            else:                      # histories recorded by earlier rounds
                sub = arr.dtype.fields[name][0]
                vals = np.frombuffer(bytes.fromhex(op["raw"]), dtype=sub.base).reshape((len(arr),) + sub.shape)
            dim = [d_ for d_ in las.point_format.extra_dimensions if d_.name == name][0]
            if dim.is_scaled or resolves_elsewhere(las.point_format.id, name):
                # stored values; the scaled presentation is C11's subject; las["x"], las["return_num"], las["synthetic"] ... name the
                # standard dimension, the extra dimension of that name is reached through the record's array
                arr[name] = vals
            else:
                las[name] = vals
        elif k == "assign_sub":
            name = bytes.fromhex(op["name"]).decode()
            vals = np.array(op["vals"], dtype="u1")
            if las.points.array.ndim == 0:
                vals = vals[0]
            if op.get("how") == "attr":
                setattr(las, name, vals)
            else:
                las[name] = vals
        elif k == "assign_std":
            dt = std_dtype(las.point_format.id)
            blk = np.frombuffer(bytes.fromhex(op["raw"]), dtype=dt)
            for f in dt.names:
                las.points.array[f] = blk[f] if las.points.array.ndim else blk[f][0]
        elif k == "set_points":
            try:
                rec, donor = build_record(las, op)
            except Exception as ex:   # noqa: BLE001 — not the outcome of the assignment itself
                return las, "err:obtaining the record (" + op["source"] + "):" + common.exc_kind(ex), aux
            if donor is not None:
                wit.append(("the LasData whose record was assigned (" + op["source"] + ")", donor, "donor"))
            las.points = rec
        elif k == "roundtrip":
            new = write_read(las, op.get("via", "write"), aux)
            wit.append(("source of a round trip", las, "old"))
            las = new
        elif k == "convert":
            src = las
            before = snapshot(src)
            kw = {"point_format_id": op["fmt"]}
            if op.get("version"):
                kw["file_version"] = op["version"]
            new = laspy.convert(src, **kw)
            after = snapshot(src)
            aux["source_changed"] = [c for c in SNAP_KEYS if before[c] != after[c]]
            new_std = {d.name for d in new.point_format.standard_dimensions}
            aux["std_changed"] = [d.name for d in src.point_format.standard_dimensions if d.name in new_std and not same_values(src[d.name], new[d.name])]
            aux["version"] = str(new.header.version)
            wit.append(("source of a conversion", src, "old"))
            las = new
        elif k == "reread":
            # a file whose extra-bytes VLR registers only the first `keep` dimensions, or that has no such VLR: written from a copy
            # of the LasData whose VLR list was cut
            cut = laspy.LasData(copy.deepcopy(las.header), las.points.copy())
            ebs = cut.vlrs.get("ExtraBytesVlr")
            if op["keep"] is None:
                if ebs:
                    cut.vlrs.extract("ExtraBytesVlr")
            elif ebs:
                ebs[0].extra_bytes_structs = ebs[0].extra_bytes_structs[:op["keep"]]
            new = write_read(cut, op.get("via", "write"), aux)
            wit.append(("source of a re-read", las, "old"))
            las = new
        elif k == "fork":
            las = apply_fork(las, op, aux, wit)
        return las, "ok", aux
    except Exception as ex:   # noqa: BLE001 — canonicalised
        return las, "err:" + common.exc_kind(ex), aux


def apply_fork(las, op, aux, wit):
    """another live object is obtained from `las` through the public API; the history goes on with one of the two"""
    import laspy
    import copy
    how = op["how"]
    if how == "select":
        new, kind = las[index_object(op["index"])], "selection " + op["index"]["kind"]
    elif how == "copy":
        new, kind = laspy.LasData(copy.deepcopy(las.header), las.points.copy()), "copy (header deep-copied, points.copy())"
    elif how == "share_header":
        new = laspy.LasData(las.header, las.points.copy())
        aux["header_shared"] = new.header is las.header
        if op["cont"] == "new":
            wit.append(("LasData whose header object was given to another LasData", las, "shared"))
            return new
        wit.append(("LasData made from the SAME header object", new, "shared"))
        return las
    elif how in ("reader", "reader_twice"):
        data = write_file(las, "write")
        aux["file"] = data
        reader = laspy.open(io.BytesIO(data))
        new, kind = reader.read(), "LasData returned by a reader"
        aux["header_shared"] = new.header is reader.header
        # LasReader.read() hands its own header object to the LasData (and completes it afterwards with the EVLRs): while that is
        # so, what the LasData does to its header reaches the reader and every other LasData of that reader (pinned, not judged)
        if how == "reader_twice":
            if reader.header.point_count:
                reader.seek(0)
            wit.append(("second LasData returned by the same reader", reader.read(), "twin", aux["header_shared"]))
        else:
            wit.append(("reader that returned the LasData", ReaderWitness(reader), "reader", aux["header_shared"]))
    elif how == "writer":
        wit.append(("writer that was given the header", WriterWitness(las), "writer"))
        return las
    elif how == "set_count":
        # the header's point count is a public attribute next to the record
        if op["route"] == "reset":
            las.header.partial_reset()
        else:
            las.header.point_count = op["count"]
        return las
    elif how == "rewrap":
        new, kind = rewrap(las, op), "LasData(header, points) whose header counts other points (" + op["route"] + ")"
    else:
        raise ValueError("unknown fork " + how)
    if op["cont"] == "new":
        wit.append(("parent of: " + kind, las, "old"))
        return new
    wit.append((kind, new, "new"))
    return las


def rewrap(las, op):
    """a LasData made with the constructor from a header that was NOT made for these points (no update_header): the header's point
    count and the record disagree, as for every chunk of a file wrapped with the file's header"""
    import laspy
    import copy
    route, spec = op["route"], op["index"]
    a_, b_, _ = slice(spec["a"], spec["b"], None).indices(len(las.points))
    b_ = max(a_, b_)
    if route == "slice":
        return laspy.LasData(copy.deepcopy(las.header), las.points[a_:b_])
    if route == "slice_copy":
        return laspy.LasData(copy.deepcopy(las.header), las.points[a_:b_].copy())
    if route == "smaller_header":
        # the header of a selection of the first m points, given all the points
        return laspy.LasData(copy.deepcopy(las[:op["count"]].header), las.points.copy())
    data = write_file(las, "write")
    with laspy.open(io.BytesIO(data)) as reader:
        hdr = copy.deepcopy(reader.header)
        if route == "chunk":
            if a_ and b_ > a_:       # (LasReader.seek refuses the position after the last point; an empty chunk needs no seek)
                reader.seek(a_)
            chunk = reader.read_points(b_ - a_)
        elif route == "chunk_iter":
            size = op["chunk"]
            chunk = None
            for j, c in enumerate(reader.chunk_iterator(size)):
                if j * size == a_:
                    chunk = c
                    break
            if chunk is None:
                raise RuntimeError("harness: no chunk starts at " + str(a_))
        else:
            raise ValueError("unknown route " + route)
        return laspy.LasData(hdr, chunk)


def is_eb_obj(v):
    return type(v).__name__ == "ExtraBytesVlr"


def other_with_vlrs(las, seg):
    """another LasData (same version and point format id) that has the extra dimensions seg['dims'] and the user VLRs seg['users'];
    its extra-bytes VLR comes first or last in its list; made in memory or read from the file it was written to"""
    import laspy
    other = laspy.LasData(laspy.LasHeader(version=str(las.header.version), point_format=las.header.point_format.id))
    users = [laspy.VLR(user_id=bytes.fromhex(u).decode(), record_id=r, description=bytes.fromhex(d).decode(), record_data=bytes.fromhex(p_))
             for u, r, d, p_ in seg.get("users", [])]
    if not seg.get("eb_first"):
        other.vlrs.extend(users)
    if seg["dims"]:
        other.add_extra_dims([mk_param(d) for d in seg["dims"]])
    if seg.get("eb_first"):
        other.vlrs.extend(users)
    if seg.get("via") == "file":
        other = write_read(other, "write")
    return other


INPLACE_INSTALLS = ["extend", "append", "iadd_inplace", "insert_front", "slice", "reverse", "pop_eb", "extract_eb", "clear"]
SETTER_INSTALLS = ["setter_list", "setter_tuple", "setter_iter", "setter_vlrlist", "setter_iadd", "header_setter"]
DONOR_INSTALLS = ["setter_donor_list", "header_setter_donor_list"]       # round 7: `b.vlrs = a.vlrs`, the donor's own list object is handed over


def apply_edit_vlrs(las, op, aux, wit):
    """the caller edits the VLR list of the LasData: the new list is made of the records that are there (all, reversed, without /
    only the extra-bytes VLR, copies), new user records, the list (or the extra-bytes VLR) of another LasData that has extra
    dimensions of its own; it is installed with list methods (in
    place) or through the vlrs setter"""
    import laspy
    import copy
    from laspy.vlrs.vlrlist import VLRList
    cur = list(las.vlrs)
    new = []
    donor = None
    for seg in op["segs"]:
        kind = seg["seg"]
        if kind == "cur":
            new += cur
        elif kind == "cur_rev":
            new += cur[::-1]
        elif kind == "cur_no_eb":
            new += [v for v in cur if not is_eb_obj(v)]
        elif kind == "cur_eb":
            new += [v for v in cur if is_eb_obj(v)]
        elif kind == "cur_eb_copy":
            new += [copy.deepcopy(v) for v in cur if is_eb_obj(v)]
        elif kind == "user":
            u, r, d, p_ = seg["vlr"]
            new.append(laspy.VLR(user_id=bytes.fromhex(u).decode(), record_id=r, description=bytes.fromhex(d).decode(), record_data=bytes.fromhex(p_)))
        elif kind == "other":
            other = other_with_vlrs(las, seg)
            wit.append(("the LasData whose VLRs were copied", other, "vlr_donor"))
            donor = other
            new += [v for v in other.vlrs if seg.get("part", "all") == "all" or is_eb_obj(v)]
        else:
            raise ValueError("unknown segment " + kind)
    aux["edit_list"] = [(lasio.vlr_tuple(v), is_eb_obj(v)) for v in new]
    inst = op["install"]
    tail = new[len(cur):]
    if inst in ("extend", "append", "iadd_inplace", "setter_iadd") and not (len(new) >= len(cur) and all(a is b_ for a, b_ in zip(new, cur))):
        raise RuntimeError("harness: the new list does not start with the current one")
    if inst == "extend":
        las.vlrs.extend(tail)
    elif inst == "append":
        for v in tail:
            las.vlrs.append(v)
    elif inst == "iadd_inplace":
        lst = las.vlrs
        lst += tail
    elif inst == "insert_front":
        head = new[:len(new) - len(cur)]
        if not all(a is b_ for a, b_ in zip(new[len(head):], cur)):
            raise RuntimeError("harness: the new list does not end with the current one")
        for j, v in enumerate(head):
            las.vlrs.insert(j, v)
    elif inst == "slice":
        las.vlrs[:] = new
    elif inst == "reverse":
        las.vlrs.reverse()
    elif inst == "pop_eb":
        for j in reversed(range(len(cur))):
            if is_eb_obj(cur[j]):
                las.vlrs.pop(j)
    elif inst == "extract_eb":
        las.vlrs.extract("ExtraBytesVlr")
    elif inst == "clear":
        las.vlrs.clear()
    elif inst == "setter_list":
        las.vlrs = list(new)
    elif inst == "setter_tuple":
        las.vlrs = tuple(new)
    elif inst == "setter_iter":
        las.vlrs = (v for v in new)
    elif inst == "setter_vlrlist":
        las.vlrs = VLRList(new)
    elif inst == "setter_iadd":
        las.vlrs += tail
    elif inst == "header_setter":
        las.header.vlrs = list(new)
    elif inst in DONOR_INSTALLS:
        if donor is None or len(op["segs"]) != 1 or not (len(new) == len(donor.vlrs) and all(a is b_ for a, b_ in zip(new, donor.vlrs))):
            raise RuntimeError("harness: the new list is not the whole list of the donor")
        if inst == "setter_donor_list":
            las.vlrs = donor.vlrs
        else:
            las.header.vlrs = donor.header.vlrs
    else:
        raise ValueError("unknown install " + inst)
    if inst in INPLACE_INSTALLS and not (len(las.vlrs) == len(new) and all(a is b_ for a, b_ in zip(las.vlrs, new))):
        raise RuntimeError("harness: the list methods did not produce the intended list")


def snapshot(las):
    """everything the property can observe after a step"""
    pf = las.point_format
    arr = np.atleast_1d(las.points.array)         # las[i] holds a 0-d record
    extras = []
    for d in pf.extra_dimensions:
        t = spec_type(d.dtype)
        sc = None
        if d.scales is not None or d.offsets is not None:
            sc = [[lasio.f64bits(x) for x in np.atleast_1d(d.scales)] if d.scales is not None else None,
                  [lasio.f64bits(x) for x in np.atleast_1d(d.offsets)] if d.offsets is not None else None]
        extras.append({"name": d.name.encode(), "type": t, "scale": sc, "desc": d.description.encode()})
    fields = {}
    ftypes = {}
    nstd = len(std_dtype(pf.id).names)
    for j, n in enumerate(arr.dtype.names):
        sub = arr.dtype.fields[n][0]
        fields[n] = (arr.dtype.fields[n][1], sub.itemsize, bytes(np.ascontiguousarray(arr[n]).tobytes()))
        if j >= nstd:
            ftypes[n] = spec_type(sub) if sub.base.byteorder in "<|=" else ("?", str(sub))     # the type the RECORD stores the values with
    hextras = [(d.name, str(d.dtype), None if d.scales is None else tuple(lasio.f64bits(x) for x in d.scales),
                None if d.offsets is None else tuple(lasio.f64bits(x) for x in d.offsets), d.description) for d in las.header.point_format.extra_dimensions]
    pextras = [(d.name, str(d.dtype), None if d.scales is None else tuple(lasio.f64bits(x) for x in d.scales),
                None if d.offsets is None else tuple(lasio.f64bits(x) for x in d.offsets), d.description) for d in pf.extra_dimensions]
    resolved = {}
    for d in pf.extra_dimensions:
        if d.name in ALIASES or d.name in name_tables()["sub"].get(pf.id, {}):
            want = standard_view(arr, pf.id, d.name)
            if want is not None:
                try:
                    got = np.atleast_1d(np.asarray(las[d.name]))
                    want = np.atleast_1d(want)
                    resolved[d.name] = bool(got.shape == want.shape and (got.tobytes() == want.tobytes() if got.dtype == want.dtype else np.array_equal(got, want)))
                except Exception as ex:   # noqa: BLE001
                    resolved[d.name] = common.exc_kind(ex)
    return {
        "dim_names": [d.name for d in pf.dimensions],
        "std_dims": [[(d.name, int(d.num_bits)) for d in f_.dimensions if d.is_standard] for f_ in (pf, las.header.point_format)],
        "resolved": resolved,
        "fmt": pf.id, "extras": extras, "names": list(arr.dtype.names), "fields": fields, "ftypes": ftypes, "itemsize": arr.dtype.itemsize,
        "pf_size": pf.size, "hdr_pf_size": las.header.point_format.size, "same_format": hextras == pextras and las.header.point_format.id == pf.id,
        "bytes": bytes(np.ascontiguousarray(arr).tobytes()), "npts": len(arr),
        "vlrs": [lasio.vlr_tuple(v) for v in las.vlrs], "hdr_vlrs": [lasio.vlr_tuple(v) for v in las.header.vlrs],
        "eb_class": [type(v).__name__ == "ExtraBytesVlr" for v in las.vlrs],
        "hdr_count": int(las.header.point_count),
    }


def safe_snapshot(obj):
    try:
        return ("ok", snapshot(obj))
    except Exception as ex:   # noqa: BLE001
        return ("err:" + common.exc_kind(ex), None)


def run_impl(h):
    """snapshots after the construction and after every operation: [(status, snapshot, aux)]; the construction's aux holds the
    observations about the sibling LasData and about every other object the history left alive (aux0['witnesses'])"""
    sib, sib0 = None, None
    spec = h.get("sibling")
    aux0 = {}
    try:
        if spec and spec["when"] == "older":
            sib = make_las(h, sibling=True)
            for op in spec["ops"]:
                sib, st, _ = apply_op(sib, op)
                if st != "ok":
                    aux0["sibling_setup"] = st
            sib0 = snapshot(sib)
        las = make_las(h)
        if spec and spec["when"] == "younger":
            sib = make_las(h, sibling=True)
            sib0 = snapshot(sib)
        status = "ok"
    except Exception as ex:   # noqa: BLE001
        import laspy
        las = laspy.LasData(laspy.LasHeader(version=h["version"], point_format=h["fmt"]))
        status = "err:" + common.exc_kind(ex)
    snaps = [(status, snapshot(las), aux0)]
    witnesses = []       # every other object a step left alive: observed after each later step, written / finished at the end
    env = new_env()      # what the caller keeps of what it passed
    for i, op in enumerate(h["ops"]):
        shares = [w["role"] not in ("reader", "writer") and bool(np.shares_memory(w["obj"].points.array, las.points.array)) for w in witnesses]
        las, status, aux = apply_op(las, op, env)
        for w, sh in zip(witnesses, shares):
            if w["role"] not in ("reader", "writer"):
                w["snaps"].append((i, sh) + safe_snapshot(w["obj"]))
        for kind, obj, role, *rest in aux.pop("_witnesses", []):
            w = {"kind": kind, "role": role, "born": i, "obj": obj, "snaps": [], "final": None, "pinned": bool(rest and rest[0])}
            if role not in ("reader", "writer"):
                w["snaps"].append((i, False) + safe_snapshot(obj))
            witnesses.append(w)
        snaps.append((status, snapshot(las), aux))
    for w in witnesses:          # when the history is over every one of them can still be written and read back / do its job
        try:
            if w["role"] in ("reader", "writer"):
                w["final"] = ("ok", snapshot(w["obj"].finish()))
            else:
                w["final"] = ("ok", snapshot(write_read(w["obj"], "write")))
        except Exception as ex:   # noqa: BLE001
            w["final"] = ("err:" + common.exc_kind(ex), None)
        del w["obj"]
    aux0["witnesses"] = witnesses
    if sib is not None:
        aux0["sibling"] = (sib0, snapshot(sib))
    # after the history: a LasData built the same way must again start as constructed.  Whatever it has beyond that is given back
    # through the public API, so that what one history leaves behind cannot reach the next one (every failing input stays reproducible
    # on its own, in a fresh process)
    try:
        probe = make_las(h, sibling=True)
        aux0["fresh_after"] = snapshot(probe)
        left = [d.name for d in probe.point_format.extra_dimensions][len(init_dims_of(h)):]
        if left:
            probe.remove_extra_dims(left)
    except Exception as ex:   # noqa: BLE001
        aux0["fresh_after_err"] = common.exc_kind(ex)
    return snaps


# ---------------------------------------------------------------------------------
# model side
# ---------------------------------------------------------------------------------
def dim_tok(d):
    sc = "-" if d["scale"] is None else common.zl(d["scale"][0]) + "/" + common.zl(d["scale"][1])
    return f"x{d['name']}~{ttok(tuple(d['type']))}~{sc}~x{d['desc']}"


def op_tok(op):
    """the model operation of a step (world operations of Model/ExtraDims.v); None: the step has no counterpart in the model (it
    leaves the LasData of the history as it is and creates an object the model does not have: a writer)"""
    k = op["op"]
    if k == "add":
        how = op.get("pass") or {}
        if how.get("retain") and "_pidx" in op:
            # the caller keeps its params objects: they are made (Y) or changed (Z: a re-used one), then passed (Q)
            pre = [("Z!" + str(i) + "!" if how.get("reuse") else "Y!") + dim_tok(d) for i, d in zip(op["_pidx"], op["dims"])]
            return "&".join(pre + ["Q!" + ",".join(str(i) for i in op["_pidx"])])
        return "A!" + "+".join(dim_tok(d) for d in op["dims"])
    if k == "caller":
        return "&".join(f"Z!{i}!{dim_tok(d)}" for i, d in op.get("_heap_after", [])) or None
    if k == "edit_vlrs":
        vl = "|".join(f"x{hx(u)}:{r}:x{hx(d)}:x{hx(p_)}" for (u, r, d, p_), _ in op["_edit_list"]) or "-"
        return "V!" + ("F" if op["install"] in INPLACE_INSTALLS else "T") + "!" + vl
    if k == "remove":
        return "R!" + (",".join("x" + n for n in op["names"]) or "-")
    if k == "assign":
        return f"S!x{op['name']}!{op['size']}!x{op['raw']}"
    if k == "assign_std":
        return f"T!{op['size']}!x{op['raw']}"
    if k == "assign_sub":        # the standard block with the bits of the sub field replaced (computed from the state before, not observed)
        return f"T!{op['_size']}!x{op['_std_after']}"
    if k == "set_points":
        return "P!" + ("+".join(dim_tok(d) for d in op["dims"]) or "-") + f"!{op['size']}!x{op['raw']}"
    if k == "convert":       # returns a LasData; the source stays alive
        return f"N:C!{op['fmt']}!{std_dtype(op['fmt']).itemsize}!x{op.get('_std_after', '')}"
    if k == "reread":
        return "N:U!" + ("-" if op["keep"] is None else str(op["keep"]))
    if k == "fork":
        how = op["how"]
        if how == "select":
            spec = op["index"]
            if spec["kind"] in ("slice", "mask"):
                try:
                    idx = resolve_index(spec, op["_npts"])       # positions, by Python's slice rule / the mask
                except IndexError:
                    idx = [op["_npts"]]          # a mask of another length than the record (the implementation lost or gained points): refused
            else:
                idx = [spec["i"]] if spec["kind"] == "int" else spec["idx"]
            return "F!" + ("T" if op["cont"] == "new" else "F") + "!" + common.zl(idx)
        if how in ("copy", "share_header"):
            return "K"
        if how in ("reader", "reader_twice"):
            return "N:W"
        if how == "set_count":
            return "H!" + str(op["count"])
        if how == "rewrap":
            # the header of the file counts the points that were written; a copy of the header keeps the count it has
            cnt = str(op["_npts"]) if op["route"] in ("chunk", "chunk_iter") else str(op["count"]) if op["route"] == "smaller_header" else "-"
            return "G!" + common.zl(resolve_index(op["index"], op["_npts"])) + "!" + cnt
        return None
    return "N:W"


MODELLED_ROLES = ("old", "new", "shared")       # the live objects the model's world has, in order of appearance


def caller_heap(h):
    """the caller's params objects along the history (a pure function of the history): which object an addition passes, what each
    object describes after the caller changed it"""
    heap = []
    for op in h["ops"]:
        how = op.get("pass") or {}
        if op["op"] == "add" and how.get("retain"):
            if how.get("reuse") and heap:
                op["_pidx"] = [len(heap) - 1]
                heap[-1] = op["dims"][0]
            elif how.get("reuse"):
                op.pop("_pidx", None)        # nothing to re-use: an ordinary addition
            else:
                op["_pidx"] = list(range(len(heap), len(heap) + len(op["dims"])))
                heap.extend(op["dims"])
        elif op["op"] == "caller" and op["what"] in ("params_rebind", "params_inplace"):
            heap[:] = [changed_param(d, op["what"]) for d in heap]
            op["_heap_after"] = list(enumerate(heap))


def observe_converted(h, snaps):
    """the standard blocks laspy.convert produced (property C12's subject) are an input of the model's Convert"""
    caller_heap(h)
    for op, before, after in zip(h["ops"], snaps, snaps[1:]):
        if op["op"] == "fork":
            op["_npts"] = before[1]["npts"]
        if op["op"] == "edit_vlrs":
            # the list the caller made (the payload of a foreign extra-bytes VLR is what laspy put there: an input here)
            op["_edit_list"] = after[2].get("edit_list", [])
        if op["op"] == "assign_sub":
            op["_size"] = std_dtype(before[1]["fmt"]).itemsize
            op["_std_after"] = hx(sub_assigned_std(before[1], op))
    for op, (status, sn, _) in zip(h["ops"], snaps[1:]):
        if op["op"] == "convert":
            size = std_dtype(op["fmt"]).itemsize
            if status == "ok" and sn["fmt"] == op["fmt"] and sn["itemsize"] >= size:
                w = sn["itemsize"]
                op["_std_after"] = hx(b"".join(sn["bytes"][i * w:i * w + size] for i in range(sn["npts"])))
            else:
                op["_std_after"] = hx(bytes(size * sn["npts"]))


def sub_assigned_std(sn, op):
    """the standard blocks of all points after las[sub field] = values: the bits of the mask in the composed field replaced"""
    size = std_dtype(sn["fmt"]).itemsize
    w = sn["itemsize"]
    off = sn["fields"][op["composed"]][0]
    out = bytearray()
    sh = shift_of(op["mask"])
    for i in range(sn["npts"]):
        blk = bytearray(sn["bytes"][i * w:i * w + size])
        if i < len(op["vals"]):
            blk[off] = (blk[off] & ~op["mask"] & 0xFF) | ((op["vals"][i] << sh) & op["mask"])
        out += blk
    return bytes(out)


def model_cmd(h):
    vl = "|".join(f"x{u}:{r}:x{d}:x{p}" for u, r, d, p in h["vlrs"]) or "-"
    dims = init_dims_of(h)
    size = std_dtype(h["fmt"]).itemsize + sum(type_size(tuple(d["type"])) for d in dims)
    toks = [t for t in (op_tok(o) for o in h["ops"]) if t is not None]
    return (f"hist5 {h['fmt']} " + ("+".join(dim_tok(d) for d in dims) or "-") + f" {size} x{init_raw_of(h)} {vl} "
            + ("T" if h.get("vlr_install") == "setter" else "F") + " " + (";".join(toks) or "-") + " " + str(h.get("_count0", h["npts"])))


def snap_tokens(status, sn, nstd):
    ex = []
    for d in sn["extras"]:
        if d["scale"] is None:
            sc = "-"
        else:
            sc = ("?" if d["scale"][0] is None else common.zl(d["scale"][0])) + "/" + ("?" if d["scale"][1] is None else common.zl(d["scale"][1]))
        ex.append(f"{common.hexb(d['name'])}~{ttok(d['type'])}~{sc}~{common.hexb(d['desc'])}")
    fl = []
    for d in sn["extras"]:
        n = d["name"].decode()
        fl.append(common.hexb(d["name"]) + ":" + (common.hexb(sn["fields"][n][2]) if n in sn["fields"] else "missing"))
    return [status, "+".join(ex) or "-", common.hexb(sn["bytes"]), ",".join(fl) or "-", lasio.vlrs_tok(sn["vlrs"]), str(sn.get("hdr_count", "?")),
            ",".join(common.hexb(n.encode()) for n in sn.get("dim_names", []))]


def op_label(op):
    return op_label0(op)


def op_label0(op):
    k = op["op"]
    if k == "convert":
        return "convert"
    if k == "assign_sub":
        return "las[sub field] = values where an extra dimension has the same name"
    if k == "caller":
        return "the caller changes what it passed earlier (" + op["what"] + ")"
    if k == "edit_vlrs":
        return "the caller edits the VLR list (" + op["flavour"] + ", " + ("in place" if op["install"] in INPLACE_INSTALLS else "through the setter") + ")"
    if k == "fork" and op["how"] == "rewrap":
        return "LasData(header, points) with a header that counts other points (" + op["route"] + ")"
    if k == "fork" and op["how"] == "set_count":
        return "header.point_count assigned"
    if k == "add" and (op.get("pass") or {}).get("reuse"):
        return "add with a re-used params object (" + op["pass"]["reuse"] + ")"
    if k == "reread":
        return "re-read of a file whose VLR registers " + ("nothing (no VLR)" if op["keep"] is None else "a prefix of the dimensions")
    if k == "set_points":
        return "whole-record assignment (" + op["source"] + (", other format: " + op["mismatch"] if op.get("mismatch") else "") + ")"
    if k == "fork":
        return "another live object (" + op["how"] + (" " + op["index"]["kind"] if op["how"] == "select" else "") + "), history goes on with the " + (
            "new one" if op["cont"] == "new" else "old one")
    return k + (" bad " + op["bad"] if op.get("bad") else "")


COMPONENTS = ["outcome", "point format", "record bytes", "dimension values", "vlrs", "header point count", "dimension list of the point format"]


def compare(h, snaps, mline):
    """-> list of (step index, op kind, component) where model and implementation differ (step -1: the construction; step = number
    of operations: another live object at the end of the history)"""
    out = []
    parts = mline.split(" ")
    if parts[0] != "fresh=T" or len(parts) != 3:
        raise RuntimeError("generator produced a history outside the model's hypothesis: " + mline[:80])
    steps = parts[1].split(";")
    modelled = [i for i, o in enumerate(h["ops"]) if op_tok(o) is not None]
    if len(steps) != len(modelled) + 1:
        return [(-1, "protocol", f"model returned {len(steps)} states for {len(modelled)} operations: {mline[:100]}", "", "")]
    nstd = len(std_dtype(h["fmt"]).names)
    labels = ["initial state" + (" next to a sibling" if h.get("sibling") else "")] + [op_label(o) for o in h["ops"]]
    expect = [steps[0]]
    for i, o in enumerate(h["ops"]):          # a step without counterpart leaves the current object as it is
        expect.append(steps[1 + modelled.index(i)] if i in modelled else "ok@" + expect[-1].split("@", 1)[1])
    for i, mst in enumerate(expect):
        mt = mst.split("@")
        it = snap_tokens(snaps[i][0], snaps[i][1], nstd)
        for c, (a, b) in enumerate(zip(mt, it)):
            if a != b:
                out.append((i - 1, labels[i], COMPONENTS[c], a[:160], b[:160]))
                break
        if out:
            return out
    # the other live objects, as the history leaves them
    others = parts[2].split("#") if parts[2] != "-" else []
    wits = [w for w in snaps[0][2].get("witnesses", []) if w["role"] in MODELLED_ROLES]
    if len(others) != len(wits):
        return [(len(h["ops"]), "other live objects", "count", str(len(others)), str(len(wits)))]
    for mo, w in zip(others, wits):
        if w["role"] == "shared" or not w["snaps"]:
            continue          # one header object in two LasData by the caller's own doing: not compared
        j, _, st, sn = w["snaps"][-1]
        touched = any(sh and h["ops"][jj]["op"] in IN_PLACE for jj, sh, _, _ in w["snaps"])     # a numpy view followed an in-place assignment
        mt = ["ok"] + mo.split("@")
        it = snap_tokens(st, sn, nstd) if sn is not None else [st, "?", "?", "?", "?"]
        for c, (a, b) in enumerate(zip(mt, it)):
            if a != b and not (touched and COMPONENTS[c] in ("record bytes", "dimension values")):
                out.append((len(h["ops"]), "another live LasData at the end of the history (" + w["kind"] + ")", COMPONENTS[c], a[:160], b[:160]))
                break
        if out:
            break
    return out


# ---------------------------------------------------------------------------------
# the property on the implementation (no model)
# ---------------------------------------------------------------------------------
EB_UID, EB_RID = b"LASF_Spec", 4


def parse_descriptors(payload):
    """ASPRS LAS 1.4 R15 table 23: reserved 2, data_type 1, options 1, name 32, unused 4, no_data 24, min 24, max 24, scale 24, offset 24, description 32"""
    out = []
    for i in range(0, len(payload), 192):
        b = payload[i:i + 192]
        out.append({"type": b[2], "options": b[3], "name": b[4:36], "scale": struct.unpack("<3Q", b[112:136]), "offset": struct.unpack("<3Q", b[136:160]), "desc": b[160:192]})
    return out


def expected_descriptor(d):
    t = tuple(d["type"])
    n = type_elems(t)
    return {"type": 0 if t[0] == "o" else t[1], "opaque": t[0] == "o", "n": n, "name": bytes.fromhex(d["name"]).ljust(32, b"\0"),
            "desc": bytes.fromhex(d["desc"]).ljust(32, b"\0"), "scale": d["scale"]}


def check_descriptors(described, payload):
    """the 192-byte descriptors of an extra-bytes VLR against the dimensions they have to describe; a text or None"""
    for d, got_d in zip(described, parse_descriptors(payload)):
        e = expected_descriptor(d)
        what = None
        if got_d["type"] != e["type"]:
            what = f"data type {got_d['type']} expected {e['type']}"
        elif e["opaque"] and got_d["options"] != e["n"]:
            what = f"opaque array of {e['n']} bytes described with options {got_d['options']}"
        elif got_d["name"] != e["name"]:
            what = f"name {got_d['name']!r}"
        elif got_d["desc"] != e["desc"]:
            what = f"description {got_d['desc']!r}"
        elif not e["opaque"]:
            flags = got_d["options"] & 0x18
            if e["scale"] is None and flags:
                what = f"unscaled dimension described with options {got_d['options']:#x}"
            elif e["scale"] is not None and (flags != 0x18 or list(got_d["scale"][:e["n"]]) != e["scale"][0] or list(got_d["offset"][:e["n"]]) != e["scale"][1]):
                what = f"scales/offsets {got_d['scale'][:e['n']]} {got_d['offset'][:e['n']]} options {got_d['options']:#x}"
        if what:
            return f"descriptor of {bytes.fromhex(d['name'])!r}: {what}"
    return None


def check_state(shadow, sn, fmt, reg=None):
    """(I2) and (I3) and format = expected dimensions; returns a (kind, text) or None.  reg: what the extra-bytes VLR has to
    register — None: every dimension (I3); k: exactly the first k (a file with un-registered trailing bytes was read and no add /
    remove / conversion has rebuilt the VLR yet); "absent": that file had no extra-bytes VLR"""
    if sn["fmt"] != fmt:
        return ("point format id", f"point format {sn['fmt']}, expected {fmt}")
    if "std_dims" in sn:
        # the standard dimensions of the point format are those of the format id, whatever the extra dimensions are called
        want = [tuple(x) for x in name_tables()["dims"][fmt]]
        for which, got_std in zip(("las.point_format", "las.header.point_format"), sn["std_dims"]):
            if [tuple(x) for x in got_std] != want:
                lost = [n for n, _ in want if n not in [g[0] for g in got_std]]
                return ("standard dimensions of the point format changed", f"{which} of format {fmt} has the standard dimensions {[g[0] for g in got_std]}"
                        + (f": {lost} lost" if lost else f", PointFormat({fmt}) has {[n for n, _ in want]}"))
    std = std_dtype(fmt).itemsize
    exp_size = std + sum(type_size(tuple(d["type"])) for d in shadow)
    if not (sn["itemsize"] == sn["pf_size"] == sn["hdr_pf_size"] == exp_size):
        return ("record length", f"record {sn['itemsize']} bytes, point_format.size {sn['pf_size']}, header format {sn['hdr_pf_size']}, standard + extra = {exp_size}")
    if len(sn["bytes"]) != sn["npts"] * exp_size:
        return ("record length", "array bytes")
    if not sn["same_format"]:
        return ("header and record formats differ", "las.header.point_format and las.point_format describe different dimensions")
    if "std_dims" in sn:
        want = [tuple(x) for x in name_tables()["dims"][fmt]]
        exp_names = [n for n, _ in want] + [bytes.fromhex(d["name"]).decode() for d in shadow]
        if sn["dim_names"] != exp_names:
            return ("dimension list of the point format", f"point_format.dimension_names is {sn['dim_names']}, expected the standard dimensions then {exp_names[len(want):]}")
        for n, ok in sn.get("resolved", {}).items():
            if ok is not True:
                return ("las[name] does not give the standard dimension where an extra dimension has the same name",
                        f"las[{n!r}] " + ("raises " + ok if isinstance(ok, str) else "differs from the bits of the standard dimension in the record"))
    got = [(d["name"], d["type"], None if d["scale"] is None else [d["scale"][0], d["scale"][1]], d["desc"]) for d in sn["extras"]]
    exp = [(bytes.fromhex(d["name"]), tuple(d["type"]), d["scale"], bytes.fromhex(d["desc"])) for d in shadow]
    if got != exp:
        return ("point format", f"extra dimensions {[(g[0], g[1]) for g in got]} expected {[(e[0], e[1]) for e in exp]}" if [(g[0], g[1]) for g in got] != [(e[0], e[1]) for e in exp]
                else "scales / offsets / descriptions of the extra dimensions differ from what was added")
    # layout of the record: extra dimensions after the standard ones, in order, contiguous, stored with the declared element type
    pos = std
    names = sn["names"]
    nstd = len(std_dtype(fmt).names)
    if names[nstd:] != [bytes.fromhex(d["name"]).decode() for d in shadow]:
        return ("record fields", f"record has extra fields {names[nstd:]}")
    for d in shadow:
        nm = bytes.fromhex(d["name"]).decode()
        off, size, _ = sn["fields"][nm]
        if off != pos or size != type_size(tuple(d["type"])):
            return ("record layout", f"field {bytes.fromhex(d['name'])!r} at {off} size {size}, expected at {pos}")
        if "ftypes" in sn and sn["ftypes"].get(nm) != tuple(d["type"]):
            return ("record stores a dimension with another element type than declared",
                    f"dimension {nm!r} is declared {type_str(tuple(d['type']))} (point format and VLR) but the record stores it as "
                    f"{type_str(sn['ftypes'][nm]) if sn['ftypes'].get(nm, ('?',))[0] in 'so' else sn['ftypes'].get(nm)}")
        pos += size
    # (I3)
    if sn["vlrs"] != sn["hdr_vlrs"]:
        return ("vlrs", "las.vlrs differs from las.header.vlrs")
    if reg == "edited":
        return None          # the caller edited the list in place: what is in it is the caller's business until the next add / remove
    ebs = [v for v, c in zip(sn["vlrs"], sn["eb_class"]) if c or (v[0] == EB_UID and v[1] == EB_RID)]
    described = shadow if reg is None else [] if reg == "absent" else shadow[:reg]
    if reg == "absent" or (reg is None and not shadow):
        if ebs:
            return ("stale extra-bytes VLR", f"{len(ebs)} extra-bytes VLR(s) although " + ("there is no extra dimension" if not shadow else "the file had none"))
        return None
    if len(ebs) != 1:
        return ("extra-bytes VLR count", f"{len(ebs)} extra-bytes VLRs for {len(shadow)} extra dimensions: the list is "
                f"{[('ExtraBytesVlr' if c else 'VLR', v[0].decode('latin-1'), v[1], len(v[3])) for v, c in zip(sn['vlrs'], sn['eb_class'])]}")
    v = ebs[0]
    if v[0] != EB_UID or v[1] != EB_RID or len(v[3]) != 192 * len(described):
        return ("extra-bytes VLR identity", f"user id {v[0]!r} record id {v[1]} payload {len(v[3])} bytes for {len(described)} dimensions")
    what = check_descriptors(described, v[3])
    if what:
        return ("descriptor", what)
    return None


def parse_las(data):
    """what a LAS file says, read with struct from the ASPRS layout (public header block, VLR headers), independent of laspy"""
    if data[:4] != b"LASF":
        raise ValueError("no LASF signature")
    minor = data[25]
    hsize, off, nvlr = struct.unpack_from("<HII", data, 94)
    fmt, psize, legacy = struct.unpack_from("<BHI", data, 104)
    npts = struct.unpack_from("<Q", data, 247)[0] if minor >= 4 else legacy
    vlrs, pos = [], hsize
    for _ in range(nvlr):
        uid = data[pos + 2:pos + 18].rstrip(b"\0")
        rid, ln = struct.unpack_from("<HH", data, pos + 18)
        vlrs.append((uid, rid, data[pos + 54:pos + 54 + ln]))
        pos += 54 + ln
    return {"fmt": fmt & 0x3F, "psize": psize, "npts": npts, "offset": off, "vlrs": vlrs, "points": data[off:off + npts * psize]}


def decode_values(t, raw, limit=4):
    """the first values of a dimension as its declared type reads them (for messages)"""
    base, n = np_base(t)
    return np.frombuffer(raw[:base.itemsize * n * limit], dtype=base).tolist()


def check_file(data, shadow, described_n, sn, assigned=None):
    """the written file, through its raw bytes: the record length is standard + extra bytes, its extra-bytes VLR declares the
    dimensions (described_n: how many of them, None = all, "absent" = there must be no such VLR), and every extra dimension holds, at
    its place in every point record, the bytes the LasData held (sn: its snapshot before the write) — which the oracle has already
    compared with the values that were assigned in the DECLARED type.  Returns (kind, text) or None"""
    try:
        f = parse_las(data)
    except Exception as ex:   # noqa: BLE001
        return ("written file cannot be parsed", repr(ex))
    std = std_dtype(sn["fmt"]).itemsize
    exp_size = std + sum(type_size(tuple(d["type"])) for d in shadow)
    if f["fmt"] != sn["fmt"] or f["psize"] != exp_size or f["npts"] != sn["npts"] or len(f["points"]) != exp_size * sn["npts"]:
        return ("written file: record length", f"file says format {f['fmt']}, {f['npts']} points of {f['psize']} bytes ({len(f['points'])} bytes of points); "
                f"expected format {sn['fmt']}, {sn['npts']} points of standard + extra = {exp_size} bytes")
    ebs = [v for v in f["vlrs"] if v[0] == EB_UID and v[1] == EB_RID]
    described = shadow if described_n is None else [] if described_n == "absent" else shadow[:described_n]
    if described_n == "absent" or (described_n is None and not shadow):
        if ebs:
            return ("written file: stale extra-bytes VLR", f"{len(ebs)} extra-bytes VLR(s) in the file")
    else:
        if len(ebs) != 1 or len(ebs[0][2]) != 192 * len(described):
            return ("written file: extra-bytes VLR", f"{len(ebs)} extra-bytes VLRs" + (f", payload {len(ebs[0][2])} bytes" if ebs else "") + f" for {len(described)} dimensions")
        what = check_descriptors(described, ebs[0][2])
        if what:
            return ("written file: descriptor", what)
    pos = std
    for d in shadow:
        t = tuple(d["type"])
        size = type_size(t)
        nm = bytes.fromhex(d["name"]).decode()
        got = b"".join(f["points"][i * exp_size + pos:i * exp_size + pos + size] for i in range(sn["npts"]))
        held = sn["fields"].get(nm, (0, 0, None))[2]
        want = (assigned or {}).get(nm)
        if want is not None and got != want:
            return ("written file: the bytes of a dimension are not the assigned values in the declared type",
                    f"dimension {nm!r} declared {type_str(t)}: the file holds {got[:16].hex()} = {decode_values(t, got)}, assigned were "
                    f"{want[:16].hex()} = {decode_values(t, want)}")
        if held is not None and got != held:
            return ("written file: the bytes of a dimension are not its values in the declared type",
                    f"dimension {nm!r} declared {type_str(t)}: the file holds {got[:16].hex()} = {decode_values(t, got)}, the LasData held "
                    f"{held[:16].hex()} = {decode_values(t, held)}")
        pos += size
    return None


def extra_fields(sn, shadow):
    return {bytes.fromhex(d["name"]).decode(): sn["fields"].get(bytes.fromhex(d["name"]).decode(), (0, 0, None))[2] for d in shadow}


VALUE_KEYS = ("extras", "names", "ftypes", "bytes", "vlrs", "npts")
IN_PLACE = ("assign", "assign_std", "assign_sub", "set_points")      # operations that write into the array the LasData holds


def non_eb(sn):
    """the VLRs that are not extra-bytes records (by class or by identity), in order"""
    return [v for v, c in zip(sn["vlrs"], sn["eb_class"]) if not (c or (v[0] == EB_UID and v[1] == EB_RID))]


def snap_diff(a, b, keys=SNAP_KEYS):
    return [c for c in keys if a.get(c) != b.get(c)]


def pick_rows(sn, rows):
    w = sn["itemsize"]
    return b"".join(sn["bytes"][i * w:(i + 1) * w] for i in rows)


def describe_snap(sn):
    return (f"extra dimensions {[d['name'].decode() for d in sn['extras']]}, record {sn['itemsize']} bytes x {sn['npts']}, point_format.size {sn['pf_size']}, "
            f"header format size {sn['hdr_pf_size']}, {sum(sn['eb_class'])} extra-bytes VLR(s)")


def oracle(h, snaps):
    """the property on the observed snapshots; returns list of (kind, step, text)"""
    out = []
    shadow = [dict(d) for d in init_dims_of(h)]
    fmt = h["fmt"]
    reg = None
    status0, prev, aux0 = snaps[0]
    how = " after the history of a sibling" if (h.get("sibling") or {}).get("when") == "older" else ""
    built = "built by " + h.get("build", "header_record") + ": "
    if status0 != "ok":
        return [(f"construction{how} failed", -1, built + f"outcome {status0}")]
    if aux0.get("sibling_setup"):
        return [("sibling: add / remove failed", -1, aux0["sibling_setup"])]
    bad = check_state(shadow, prev, fmt)
    if bad is None and h["npts"] and prev["bytes"] != bytes.fromhex(init_raw_of(h)):
        bad = ("record bytes", "the points do not hold the bytes they were given")
    if bad:
        return [(f"initial state{how}: " + bad[0], -1, built + bad[1])]
    assigned = {}        # dimension name -> the bytes of the values last assigned to it in its declared type (while they must still be there)
    track = []           # per step: what the LasData of the history had to be before and after it
    labels = []
    single = False       # the LasData is one point selected by an integer (a 0-d record)
    for i, op in enumerate(h["ops"]):
        status, sn, aux = snaps[i + 1]
        k = op["op"]
        named = set()
        expect_err = False
        new_reg = reg
        new_fmt = fmt
        if k == "add":
            named = {bytes.fromhex(d["name"]).decode() for d in op["dims"]}
            new_shadow = shadow + op["dims"]
            new_reg = None
        elif k == "remove":
            named = {bytes.fromhex(n).decode() for n in op["names"]}
            if remove_is_valid(shadow, op["names"]):
                new_shadow = [d for d in shadow if d["name"] not in op["names"]]
                new_reg = None
            else:
                expect_err, new_shadow = True, shadow
        elif k == "assign":
            named = {bytes.fromhex(op["name"]).decode()}
            new_shadow = shadow
        elif k == "assign_sub":
            named = {op["composed"]}        # the field of the record that holds the sub field; the extra dimension of that name is not named
            new_shadow = shadow
        elif k == "convert":
            new_shadow, new_reg, new_fmt = shadow, None, op["fmt"]
        elif k == "reread":
            new_shadow, new_reg = reread_effect(shadow, reg, op["keep"])
        elif k == "edit_vlrs":
            new_shadow, new_reg = shadow, ("edited" if op["install"] in INPLACE_INSTALLS else None)
        else:
            new_shadow = shadow
        label = k + (" bad name " + op["bad"] if op.get("bad") else "")
        if k in ("add", "remove", "assign") and not expect_err and {name_class(fmt, n) for n in named} - {None}:
            label += " (a name laspy knows: " + ", ".join(sorted({name_class(fmt, n) for n in named} - {None})) + ")"
        if k == "assign_sub":
            label = "las[sub field] = values where an extra dimension has the same name"
        if k in ("caller", "edit_vlrs") or (k == "add" and (op.get("pass") or {}).get("reuse")):
            label = op_label0(op)
        if k == "set_points":
            label = "whole-record assignment (" + op["source"] + ")"
        if k == "reread":
            label = "re-read of a file whose VLR registers " + ("nothing (no VLR)" if op["keep"] is None else "only the first dimensions")
        if k == "roundtrip" and op.get("via", "write") != "write":
            label = {"writer": "roundtrip through laspy.open(mode='w')", "path": "roundtrip through a path", "mmap": "roundtrip through a path and laspy.mmap"}[op["via"]]
        if k == "fork":
            label = {"select": "selection las[" + op.get("index", {}).get("kind", "") + "]", "copy": "copy of header and points",
                     "share_header": "LasData(las.header, ...)", "reader": "reader.read()", "reader_twice": "reader.read() twice",
                     "writer": "laspy.open(mode='w', header=las.header)", "rewrap": op_label0(op), "set_count": op_label0(op)}[op["how"]]
        if single:
            label += " on one point selected by an integer"
        labels.append(label)
        rows = None
        if k == "fork" and op["how"] in ("select", "rewrap"):
            try:
                rows = resolve_index(op["index"], prev["npts"])
            except IndexError:
                expect_err = True
        if k == "set_points" and op.get("mismatch"):
            # a record of another format: refused, nothing changes (were it taken, header / VLR and record would disagree)
            if status.startswith("err:obtaining the record"):
                out.append((f"a record with these extra dimensions could not be made ({op['source']})", i, f"outcome {status}"))
            elif status != "err:ELaspy":
                out.append((f"record of a different format ({op['mismatch']}) not refused with LaspyException", i, f"outcome {status}"))
            changed = [c for c in ("extras", "names", "bytes", "vlrs", "itemsize", "pf_size", "hdr_pf_size", "npts", "dim_names", "std_dims") if sn.get(c) != prev.get(c)]
            if changed:
                out.append((f"refused whole-record assignment ({op['mismatch']}) not atomic", i, f"after the refusal these changed: {changed}"))
        elif expect_err and k == "fork":
            if status != "err:EIndex":
                out.append(("selection with an index out of range not refused with IndexError", i, f"outcome {status}"))
            if snap_diff(prev, sn):
                out.append(("refused selection changed the LasData", i, f"changed: {snap_diff(prev, sn)}"))
        elif expect_err:
            if status != "err:ELaspy":
                out.append((f"remove of a {op.get('bad', 'bad')} name not refused with LaspyException", i, f"outcome {status}"))
            changed = [c for c in ("extras", "names", "bytes", "vlrs", "itemsize", "pf_size", "hdr_pf_size", "dim_names", "std_dims") if sn.get(c) != prev.get(c)]
            if changed:
                out.append((f"remove of a {op.get('bad', 'bad')} name not atomic", i, f"after the refused removal these changed: {changed}"))
        else:
            if status != "ok":
                out.append((f"{label} failed", i, f"outcome {status}"))
            # (I1) every dimension not named by the operation keeps its raw bytes in every record
            std_now = std_dtype(fmt).names
            if k == "assign_std":
                keep = [n for n in prev["names"] if n not in std_now]
            elif k == "set_points":
                keep = []            # every dimension is assigned
                if status == "ok":
                    if sn["bytes"] != bytes.fromhex(op["raw"]) or sn["npts"] != op["npts"]:
                        out.append(("whole-record assignment does not read back", i, f"{sn['npts']} points, expected {op['npts']}"
                                    if sn["npts"] != op["npts"] else "the bytes of the record differ from the assigned ones"))
                    if sn["vlrs"] != prev["vlrs"]:
                        out.append(("whole-record assignment changed the VLRs", i,
                                    f"{[(v[0], v[1], len(v[3])) for v in prev['vlrs']]} -> {[(v[0], v[1], len(v[3])) for v in sn['vlrs']]}"))
            elif k == "convert":
                keep = [n for n in prev["names"] if n not in std_now]          # the standard dimensions are C12's subject
            elif k == "reread":
                kept_names = {bytes.fromhex(d["name"]).decode() for d in new_shadow[:-1]} if new_shadow != shadow else None
                keep = [n for n in prev["names"] if n in std_now or kept_names is None or n in kept_names]
            elif k == "fork" and rows is not None and op["cont"] == "new":
                keep = []
                if status == "ok":
                    if sn["npts"] != len(rows) or sn["bytes"] != pick_rows(prev, rows):
                        out.append((f"{label}: the selection does not hold the selected points", i, f"{sn['npts']} points, expected {len(rows)}"
                                    if sn["npts"] != len(rows) else "the bytes of the selected points differ"))
                    if sn["vlrs"] != prev["vlrs"]:
                        out.append((f"{label} changed the VLRs", i, f"{len(prev['vlrs'])} -> {len(sn['vlrs'])}"))
            else:
                keep = [n for n in prev["names"] if n not in named]
            for n in keep:
                if n not in sn["fields"]:
                    out.append((f"{label}: other dimension lost", i, f"dimension {n!r} disappeared"))
                    break
                if sn["fields"][n][2] != prev["fields"][n][2]:
                    out.append((f"{label}: other dimension changed", i, f"dimension {n!r}: {prev['fields'][n][2][:24].hex()} -> {sn['fields'][n][2][:24].hex()}"))
                    break
            if k == "assign_sub" and status == "ok":
                size = std_dtype(fmt).itemsize
                got_std = b"".join(sn["bytes"][j * sn["itemsize"]:j * sn["itemsize"] + size] for j in range(sn["npts"]))
                if sn["npts"] == prev["npts"] and got_std != sub_assigned_std(prev, op):
                    out.append(("assignment to a standard sub field (an extra dimension has the same name) does not read back", i,
                                f"las[{bytes.fromhex(op['name']).decode()!r}] = {op['vals'][:4]}: field {op['composed']!r} "
                                f"{prev['fields'][op['composed']][2][:8].hex()} -> {sn['fields'][op['composed']][2][:8].hex()}"))
            if k in ("add", "remove", "assign", "assign_std", "assign_sub", "caller", "edit_vlrs") and status == "ok" and sn["npts"] != prev["npts"]:
                out.append((f"{label} changed the number of points", i, f"{prev['npts']} points -> {sn['npts']}"
                            + (f" (the header counted {prev['hdr_count']})" if prev.get("hdr_count") != prev["npts"] else "")))
            if k in ("add", "remove") and status == "ok" and non_eb(sn) != non_eb(prev):
                out.append((f"{label} changed the other VLRs", i, f"{[(v[0], v[1], len(v[3])) for v in non_eb(prev)]} -> {[(v[0], v[1], len(v[3])) for v in non_eb(sn)]}"))
            if k == "caller" and status == "ok" and snap_diff(prev, sn):
                out.append((f"{label}: the LasData changed", i, f"changed: {snap_diff(prev, sn)}; it had {describe_snap(prev)}; it now has {describe_snap(sn)}"
                            + (f"; scales / offsets {[d['scale'] for d in prev['extras']]} -> {[d['scale'] for d in sn['extras']]}" if prev["extras"] != sn["extras"] else "")))
            if k == "edit_vlrs" and status == "ok":
                d_ = [c for c in snap_diff(prev, sn) if c not in ("vlrs", "hdr_vlrs")]
                if d_:
                    out.append((f"{label}: the LasData changed", i, f"changed: {d_}"))
                made = aux.get("edit_list", [])
                if op["install"] in INPLACE_INSTALLS:
                    if sn["vlrs"] != [t for t, _ in made]:
                        out.append((f"{label}: the list does not hold what was put in it", i, f"{len(made)} records put, {len(sn['vlrs'])} found"))
                elif non_eb(sn) != [t for t, c in made if not (c or (t[0] == EB_UID and t[1] == EB_RID))]:
                    out.append((f"{label}: the other VLRs of the assigned list are not kept in order", i,
                                f"assigned {[(t[0], t[1], len(t[3])) for t, _ in made]}, found {[(v[0], v[1], len(v[3])) for v in sn['vlrs']]}"))
            if k == "add" and status == "ok":
                for n in named:
                    if n in sn["fields"] and any(sn["fields"][n][2]):
                        out.append(("added dimension not zero-initialised", i, f"dimension {n!r} starts as {sn['fields'][n][2][:16].hex()}"))
                        break
            if k == "assign" and status == "ok":
                n = bytes.fromhex(op["name"]).decode()
                if n in sn["fields"] and sn["fields"][n][2] != bytes.fromhex(op["raw"]):
                    t = tuple(op["type"]) if "type" in op else None
                    out.append(("assignment does not read back", i, f"dimension {n!r}" + (
                        f" declared {type_str(t)}: assigned {decode_values(t, bytes.fromhex(op['raw']))}, the record holds bytes that the declared type "
                        f"reads as {decode_values(t, sn['fields'][n][2])}" if t else "")))
            if (k == "roundtrip" or (k == "fork" and op["how"] not in ("select", "rewrap"))) and status == "ok":
                if sn["vlrs"] != prev["vlrs"]:
                    out.append((f"{label} changed the VLRs", i, f"{[(v[0], v[1], len(v[3])) for v in prev['vlrs']]} -> {[(v[0], v[1], len(v[3])) for v in sn['vlrs']]}"))
                if sn["bytes"] != prev["bytes"] or sn["names"] != prev["names"]:
                    out.append((f"{label} changed values", i, f"fields {prev['names'][-3:]} -> {sn['names'][-3:]}"))
            if k == "fork" and op["cont"] == "self" and status == "ok" and snap_diff(prev, sn):
                out.append((f"{label} changed the LasData it was applied to", i, f"changed: {snap_diff(prev, sn)}"))
            if k == "reread" and status == "ok":
                if sn["bytes"] != prev["bytes"] or sn["npts"] != prev["npts"]:
                    out.append((f"{label}: the points do not keep their bytes", i, f"{prev['npts']} points of {prev['itemsize']} bytes -> {sn['npts']} of {sn['itemsize']}"))
                other = lambda x: [v for v, c in zip(x["vlrs"], x["eb_class"]) if not c]      # noqa: E731
                if other(sn) != other(prev):
                    out.append((f"{label} changed the other VLRs", i, f"{len(other(prev))} -> {len(other(sn))}"))
            if k == "convert" and status == "ok":
                if aux.get("source_changed"):
                    out.append(("convert modified its source", i, f"changed: {aux['source_changed']}"))
                if aux.get("std_changed"):
                    out.append(("convert: a standard dimension of both formats changed its values", i, f"{aux['std_changed']}"))
                if sn["npts"] != prev["npts"]:
                    out.append(("convert changed the number of points", i, f"{prev['npts']} -> {sn['npts']}"))
                other = lambda x: [v for v, c in zip(x["vlrs"], x["eb_class"]) if not c]      # noqa: E731
                if other(sn) != other(prev):
                    out.append(("convert changed the other VLRs", i, f"{len(other(prev))} -> {len(other(sn))}"))
            if not out and aux.get("file") is not None and status == "ok":
                # the file this step wrote, through its raw bytes
                described = new_reg if k == "reread" else reg
                badf = check_file(aux["file"], shadow, described, prev, assigned)
                if badf:
                    out.append((f"{label}: {badf[0]}", i, badf[1]))
        if out and k in ("convert", "reread"):
            break
        # the values that must still be found, in the declared type, in the files written from now on
        if status == "ok" and not expect_err:
            if k == "assign":
                assigned[bytes.fromhex(op["name"]).decode()] = bytes.fromhex(op["raw"])
            elif k == "remove":
                for n in named:
                    assigned.pop(n, None)
            elif k == "add":
                for d in op["dims"]:
                    assigned[bytes.fromhex(d["name"]).decode()] = bytes(type_size(tuple(d["type"])) * prev["npts"])
            elif k in ("set_points", "reread") or (k == "fork" and op["how"] in ("select", "rewrap") and op["cont"] == "new"):
                assigned.clear()
        track.append((shadow, fmt, reg, new_shadow, new_fmt, new_reg))
        shadow, reg, fmt = new_shadow, new_reg, new_fmt
        if k in ("roundtrip", "convert", "reread") or (k == "fork" and op["cont"] == "new" and not expect_err):
            single = k == "fork" and op["how"] == "select" and op["index"]["kind"] == "int"
        bad = check_state(shadow, sn, fmt, reg)
        if bad:
            out.append((f"{label}: {bad[0]}", i, bad[1]))
        prev = sn
        if out:
            break
    if not out:
        out.extend(oracle_witnesses(h, snaps, track, labels, aux0.get("witnesses", [])))
    sib = aux0.get("sibling")
    if sib and not out:
        before, after = sib
        changed = [c for c in SNAP_KEYS if before[c] != after[c]]
        if changed:
            out.append(("another LasData built the same way changed during the history", len(h["ops"]), f"changed: {changed}; its extra dimensions "
                        f"{[d['name'] for d in before['extras']]} -> {[d['name'] for d in after['extras']]}, record {before['itemsize']} -> {after['itemsize']} bytes, "
                        f"point_format.size {before['pf_size']} -> {after['pf_size']}"))
    if not out and aux0.get("fresh_after_err"):
        out.append(("a LasData built the same way after the history cannot be made", len(h["ops"]), aux0["fresh_after_err"]))
    if not out and aux0.get("fresh_after") is not None:
        bad = check_state([dict(d) for d in init_dims_of(h)], aux0["fresh_after"], h["fmt"])
        if bad:
            out.append(("a LasData built the same way after the history does not start as constructed: " + bad[0], len(h["ops"]), bad[1]))
    return out


def oracle_witnesses(h, snaps, track, labels, witnesses):
    """every other live object a step of the history left behind (the LasData a selection / copy / conversion / round trip was made
    from, or the one it made; the LasData whose record was assigned; a second LasData of the same reader; a reader; a writer that got
    the header) is a LasData of its own: whatever is added to / removed from the LasData of the history afterwards, it keeps its
    extra dimensions, record length = standard + extra bytes, its extra-bytes VLR, its values, and can still be written and read
    back.  (Values may follow an in-place assignment while the two share the memory of their points: a slice is a numpy view.)"""
    out = []
    for w in witnesses:
        if w.get("pinned"):
            continue         # shares its header object with the LasData of the history by laspy's own design
        b = w["born"]
        op = h["ops"][b]
        before, after = snaps[b][1], snaps[b + 1][1]
        shadow0, fmt0, reg0, shadow1, fmt1, reg1 = track[b]
        role = w["role"]
        what = w["kind"]
        # what it has to be when it appears
        if role == "donor":
            exp, wsh, wfmt, wreg = None, [dict(d) for d in op["dims"]], fmt0, (reg0 if op["source"] == "reread" else None)
        elif role == "vlr_donor":
            exp, wsh, wfmt, wreg = None, None, fmt0, None
        elif role == "new" and op.get("how") == "select":
            exp, wsh, wfmt, wreg = None, shadow0, fmt0, reg0
        else:       # the LasData the step started from; a copy of it, a LasData made from its header, a second read; reader / writer
            exp, wsh, wfmt, wreg = before, shadow0, fmt0, reg0
        last = exp
        if role not in ("reader", "writer"):
            for j, shared_mem, st, sn in w["snaps"]:
                label = labels[j] if j < len(labels) else "?"
                if st != "ok":
                    out.append((f"{h['ops'][j]['op']} left another live LasData unusable: {what}", j, f"after {label}: observing it gives {st}"))
                    break
                if j == b:
                    if role == "vlr_donor":
                        # round 7: the LasData the VLRs were taken from stays what it was made as (one donor: its dimensions are known)
                        others = [sg for sg in op["segs"] if sg["seg"] == "other"]
                        bad = check_state([dict(d) for d in others[0]["dims"]], sn, wfmt, None) if len(others) == 1 else None
                    elif role == "donor":
                        bad = check_state(wsh, sn, wfmt, wreg) or (("record bytes", "the record does not hold the assigned bytes") if sn["bytes"] != bytes.fromhex(op["raw"]) else None)
                    elif exp is None:      # a selection
                        rows = resolve_index(op["index"], before["npts"])
                        bad = check_state(wsh, sn, wfmt, wreg)
                        if bad is None and (sn["npts"] != len(rows) or sn["bytes"] != pick_rows(before, rows)):
                            bad = ("values", "the selection does not hold the selected points")
                        if bad is None and sn["vlrs"] != before["vlrs"]:
                            bad = ("vlrs", "the selection has other VLRs than the LasData it was taken from")
                    else:
                        d = snap_diff(exp, sn)
                        bad = ("changed", f"{d}: {describe_snap(exp)} -> {describe_snap(sn)}") if d else None
                    if bad:
                        out.append((f"{label}: {what}: {bad[0]}", j, bad[1]))
                        break
                elif role != "shared":
                    d = snap_diff(last, sn)
                    if shared_mem and h["ops"][j]["op"] in IN_PLACE:
                        d = [c for c in d if c != "bytes"]
                    if d:
                        bad = check_state(wsh, sn, wfmt, wreg) if wsh is not None else None
                        out.append((f"{h['ops'][j]['op']} on one LasData changed another live LasData: {what}", j,
                                    f"after {label} these changed: {d}; it had {describe_snap(last)}; it now has {describe_snap(sn)}"
                                    + (f"; now inconsistent: {bad[0]}: {bad[1]}" if bad else "")))
                        break
                last = sn
            if out:
                break
        if role == "shared":
            continue             # the caller put one header object into two LasData: what one does to it reaches the other (not judged)
        st, fin = w["final"]
        if role == "reader":
            ref, verb = after, "a reader that returned a LasData no longer reads its file after the history of that LasData"
        elif role == "writer":
            ref, verb = before, "a writer that was given las.header does not write the file it was opened for after the history of that LasData"
        else:
            ref, verb = last, f"another live LasData cannot be written and read back after the history: {what}"
        if st != "ok":
            out.append((verb, len(h["ops"]), f"outcome {st}; it had {describe_snap(ref)}"))
        elif ref is not None and snap_diff(ref, fin, VALUE_KEYS):
            out.append((verb, len(h["ops"]), f"these differ: {snap_diff(ref, fin, VALUE_KEYS)}; expected {describe_snap(ref)}; got {describe_snap(fin)}"))
        if out:
            break
    return out


# ---------------------------------------------------------------------------------
# descriptor decoding: ExtraBytesVlr.parse_record_data + type_of_extra_dims vs dec_eb
# ---------------------------------------------------------------------------------
def rand_descriptor(rng):
    b = bytearray(192)
    junk = rng.random() < 0.5
    if junk:
        b[:] = bytes(rng.getrandbits(8) for _ in range(192))
    k = rng.random()
    if k < 0.55:
        b[2] = rng.randrange(1, 31)
        b[3] = rng.choice([0, 8, 16, 24, 31, 7, rng.randrange(256)])
    elif k < 0.9:
        b[2] = 0
        b[3] = rng.choice(OPAQUE_SIZES + [1, 2, 3, 10, 12, 20, 28, 200, rng.randrange(1, 256)])
    else:
        b[2] = rng.choice([31, 32, 100, 255])
        b[3] = rng.randrange(256)
    name = lasio.rand_ascii(rng, rng.choice([1, 5, 31, 32]), [c for c in range(97, 123)]).encode()
    desc = lasio.rand_ascii(rng, rng.choice([0, 5, 31, 32]), [c for c in range(65, 91)]).encode()
    if rng.random() < 0.15 and len(name) > 3:
        name = name[:2] + b"\0" + name[3:]          # bytes after the first NUL are not part of the name
    b[4:36] = name.ljust(32, b"\0")
    b[160:192] = desc.ljust(32, b"\0")
    for i in range(6):
        b[112 + 8 * i:120 + 8 * i] = struct.pack("<d", rng.choice(SCALES + OFFSETS))
    return bytes(b)


def impl_decode(b):
    from laspy.vlrs.known import ExtraBytesVlr
    v = ExtraBytesVlr()
    try:
        v.parse_record_data(b)
        p = v.type_of_extra_dims()[0]
    except Exception as ex:   # noqa: BLE001
        return "err " + common.exc_kind(ex)
    t = spec_type(p.type)
    sc = "-"
    if p.scales is not None or p.offsets is not None:
        sc = common.zl([lasio.f64bits(x) for x in p.scales]) + "/" + common.zl([lasio.f64bits(x) for x in p.offsets])
    return f"ok {common.hexb(p.name.encode())}~{ttok(t)}~{sc}~{common.hexb(p.description.encode())}"


def spec_decode(b):
    """what a 192-byte descriptor says by the specification alone (ASPRS LAS 1.4 R15 tables 24 / 25), in impl_decode's notation; None
    where the specification is silent or laspy's choice is not this property's (unknown data type, zero bytes): data type 1..30 =
    element type and count, options bit 3 = the scale is relevant (else 1.0), bit 4 = the offset is relevant (else 0.0), each on its
    own; data type 0 = `options` opaque bytes; texts end at the first NUL"""
    t, opt = b[2], b[3]
    name, desc = b[4:36].split(b"\0")[0], b[160:192].split(b"\0")[0]
    try:
        name.decode(), desc.decode()
    except UnicodeDecodeError:
        return None
    if t == 0:
        if opt == 0:
            return None
        tok, sc = (("o", opt) if opt > 3 else ("s", {1: 1, 2: 11, 3: 21}[opt])), "-"
    elif 1 <= t <= 30:
        n = (t - 1) // 10 + 1
        tok = ("s", t)
        hs, ho = bool(opt & 8), bool(opt & 16)
        if hs or ho:
            stored_s, stored_o = struct.unpack("<3Q", b[112:136]), struct.unpack("<3Q", b[136:160])
            sc = (common.zl(list(stored_s[:n]) if hs else [lasio.f64bits(1.0)] * n) + "/"
                  + common.zl(list(stored_o[:n]) if ho else [lasio.f64bits(0.0)] * n))
        else:
            sc = "-"
    else:
        return None
    return f"ok {common.hexb(name)}~{ttok(tok)}~{sc}~{common.hexb(desc)}"


def spec_descriptors(rng, n):
    """descriptors the specification decides: every documented type x no flag / scale only / offset only / both (+ other bits of the
    options byte), opaque sizes, then random ones"""
    out = []
    for t in range(1, 31):
        for opt in (0, 8, 16, 24, 8 | 1, 16 | 4, 24 | 7, 7):
            b = bytearray(rand_descriptor(rng))
            b[2], b[3] = t, opt
            out.append(bytes(b))
    for size in OPAQUE_SIZES + [1, 2, 3, 8 | 1, 16, 24]:
        b = bytearray(rand_descriptor(rng))
        b[2], b[3] = 0, size
        out.append(bytes(b))
    out.extend(rand_descriptor(rng) for _ in range(n))
    return out


def judge_descriptor(b):
    """(kind, text) if laspy reads the descriptor otherwise than the specification says; None if it agrees or the specification is silent"""
    want = spec_decode(b)
    if want is None:
        return None
    got = impl_decode(b)
    if got == want:
        return None
    w, g = want.split("~"), got.split("~")
    what = ("fails" if not got.startswith("ok ") else "name" if g[0] != w[0] else "element type" if g[1] != w[1]
            else "scale / offset flags" if g[2] != w[2] else "description")
    return ("descriptor read from a VLR: " + what,
            f"data type {b[2]}, options {b[3]:#04x}: laspy reads scales/offsets {g[2] if len(g) > 2 else got}, the specification says {w[2]} (type {w[1]})")


# ---------------------------------------------------------------------------------
# entry points
# ---------------------------------------------------------------------------------
_RUNS = []      # (history, snapshots) of the correspondence run, re-used by the search


def systematic(ctx, reserved):
    """every element type scaled and unscaled, every opaque size, every name / description length"""
    rng = ctx.rng
    hs = []
    types = [("s", i, sc) for i in range(1, 31) for sc in (False, True)] + [("o", n, False) for n in OPAQUE_SIZES]
    for j, (k, v, sc) in enumerate(types):
        t = (k, v)

        def add_main(shadow, cur, t=t, sc=sc):
            return {"op": "add", "dims": [rand_dim(rng, set(), reserved, t=t, scaled=sc)], "single": True}

        npts = [1, 2, 3][j % 3]

        def assign_main(shadow, cur, t=t, npts=npts):
            d = shadow[0]
            return assign_op(rng, d, npts)

        def add_other(shadow, cur):
            used = {bytes.fromhex(d["name"]).decode() for d in shadow}
            d1 = rand_dim(rng, used, reserved)
            d2 = rand_dim(rng, used | {bytes.fromhex(d1["name"]).decode()}, reserved)
            return {"op": "add", "dims": [d1, d2], "single": False}

        def remove_other(shadow, cur):
            return {"op": "remove", "names": [d["name"] for d in shadow[1:]][::-1], "single": False, "as": "list"}

        def rt(shadow, cur):
            return {"op": "roundtrip"}

        def remove_main(shadow, cur):
            return {"op": "remove", "names": [shadow[0]["name"]], "single": True}

        hs.append(gen_history(rng, reserved, fmt=j % 11, steps=7, npts=npts, init=0,
                              plan=[add_main, assign_main, add_other, remove_other, rt, remove_main, rt]))
    for L in range(1, 33):
        def add_len(shadow, cur, L=L):
            return {"op": "add", "dims": [rand_dim(rng, set(), reserved, name_len=L, desc_len=L),
                                          rand_dim(rng, set(), reserved, name_len=33 - L, desc_len=32 - L)], "single": False}
        hs.append(gen_history(rng, reserved, fmt=L % 11, steps=3, npts=L % 3, init=0, plan=[add_len, lambda s, c: {"op": "roundtrip"},
                                                                                    lambda s, c: {"op": "remove", "names": [s[1]["name"]], "single": True}]))
    # whole-record assignment from every kind of source, followed by every kind of follow-up; records of another format
    j = 0
    for source in ["copy", "self", "slice", "other", "reread", "packed"]:
        for follow in ["add", "remove", "remove-all", "assign", "add-remove"]:
            for first in ([True, False] if follow == "add" else [True]):     # also on a LasData without any extra dimension yet
                j += 1
                fmt = j % 11

                def add2(shadow, cur):
                    used = set()
                    ds = []
                    for _ in range(2):
                        d = rand_dim(rng, used, reserved)
                        used.add(bytes.fromhex(d["name"]).decode())
                        ds.append(d)
                    return {"op": "add", "dims": ds, "single": False}

                def setp(shadow, cur, source=source, fmt=fmt):
                    return rand_set_points(rng, fmt, shadow, cur, reserved, source=source)

                def add1(shadow, cur):
                    used = {bytes.fromhex(d["name"]).decode() for d in shadow}
                    return {"op": "add", "dims": [rand_dim(rng, used, reserved)], "single": True}

                def rem1(shadow, cur):
                    return {"op": "remove", "names": [rng.choice(shadow)["name"]], "single": True}

                def rem_all(shadow, cur):
                    return {"op": "remove", "names": [d["name"] for d in shadow], "single": False, "as": "list"}

                def asg(shadow, cur):
                    d = rng.choice(shadow)
                    return assign_op(rng, d, cur)

                tail = {"add": [add1], "remove": [rem1], "remove-all": [rem_all], "assign": [asg, add1], "add-remove": [add1, rem1, setp, rem1]}[follow]
                plan = ([add2] if first else []) + [setp] + tail + [lambda s, c: {"op": "roundtrip"}]
                hs.append(gen_history(rng, reserved, fmt=fmt, steps=len(plan), npts=[3, 1, 2, 5, 0][j % 5], plan=plan, init=0))
    for j, mm in enumerate(MISMATCHES * 2):
        def add3(shadow, cur, j=j):
            used = set()
            ds = []
            for i in range(3):
                d = rand_dim(rng, used, reserved, t=("s", 1 + (7 * j + 11 * i) % 30) if i < 2 else None, scaled=(i == 0) or None)
                used.add(bytes.fromhex(d["name"]).decode())
                ds.append(d)
            return {"op": "add", "dims": ds, "single": False}

        def bad_setp(shadow, cur, mm=mm, j=j):
            return rand_set_points(rng, j % 11, shadow, cur, reserved, mismatch=mm)

        def good_setp(shadow, cur, j=j):
            return rand_set_points(rng, j % 11, shadow, cur, reserved, source="other")

        def add1b(shadow, cur):
            used = {bytes.fromhex(d["name"]).decode() for d in shadow}
            return {"op": "add", "dims": [rand_dim(rng, used, reserved)], "single": True}

        hs.append(gen_history(rng, reserved, fmt=j % 11, steps=5, npts=[2, 0, 3][j % 3], init=0, plan=[add3, bad_setp, good_setp, add1b, lambda s, c: {"op": "roundtrip"}]))
    hs.extend(systematic3(ctx, reserved))
    hs.extend(systematic4(ctx, reserved))
    hs.extend(systematic5(ctx, reserved))
    hs.extend(systematic6(ctx, reserved))
    hs.extend(systematic7(ctx, reserved))
    return hs


def systematic7(ctx, reserved):
    """round 7 — the VLRs of ANOTHER file are taken over by a LasData that has extra dimensions of the same names and types: every
    way the other file may describe them differently (TWIN_KINDS: scales, offsets, the last element only, description, everything,
    scaled vs not, identical) x every flavour (whole list replaces the own one; after / before the own records; its extra-bytes VLR
    alone, next to or instead of the own one) x every install of the flavour (in place, setter forms, the donor's own list object)
    x the history that follows (assign, add, remove another one, round trip; remove the twin; remove all): the extra-bytes VLR has to
    describe the CURRENT dimensions after every step and in the written file"""
    rng = ctx.rng
    hs = []
    flavour_installs = {
        "take_over": TAKE_OVER_INSTALLS,
        "twin_after": ["extend", "append", "iadd_inplace", "slice"] + SETTER_INSTALLS,
        "twin_before": ["insert_front", "slice", "setter_list", "setter_tuple", "setter_iter", "setter_vlrlist", "header_setter"],
        "twin_eb_only": ["extend", "append", "slice"] + SETTER_INSTALLS,
        "twin_eb_alone": ["slice", "setter_list", "setter_tuple", "setter_vlrlist", "header_setter"],
    }

    def add_dims(elems, scaled):
        def f(shadow, cur):
            used = {bytes.fromhex(d["name"]).decode() for d in shadow}
            ds = []
            for e, sc in zip(elems, scaled):
                t = ("o", rng.choice(OPAQUE_SIZES)) if e == 0 else ("s", rng.randrange(1, 11) + 10 * (e - 1))
                d = rand_dim(rng, used, reserved, t=t, scaled=sc)
                used.add(bytes.fromhex(d["name"]).decode())
                ds.append(d)
            return {"op": "add", "dims": ds, "single": False}
        return f

    def asg(which=-1):
        return lambda s, c: assign_op(rng, s[which % len(s)], c) if s else None

    def add1(shadow, cur):
        used = {bytes.fromhex(d["name"]).decode() for d in shadow}
        return {"op": "add", "dims": [rand_dim(rng, used, reserved)], "single": True}

    def rem(which):
        def f(shadow, cur):
            if not shadow:
                return None
            names = [d["name"] for d in shadow] if which == "all" else [shadow[which % len(shadow)]["name"]]
            return {"op": "remove", "names": names, "single": which != "all" and len(names) == 1, "as": "list"}
        return f

    def rt(via="write"):
        return lambda s, c: {"op": "roundtrip", "via": via}

    j = 0
    layouts = ["same", "some", "one"]
    for flavour, installs in flavour_installs.items():
        for inst in installs:
            kinds = TWIN_KINDS if ctx.n(0, 1) or flavour == "take_over" else [TWIN_KINDS[(j + i) % len(TWIN_KINDS)] for i in range(2)]
            for kind in kinds:
                j += 1
                layout = layouts[j % 3]

                def edit(shadow, cur, flavour=flavour, inst=inst, kind=kind, layout=layout):
                    return rand_edit_vlrs(rng, reserved, flavour=flavour, install=inst, shadow=shadow, twin_kind=kind, layout=layout)

                follow = [[asg(0), add1, rem(1), rt("write")], [rem(0), asg(0), rt("writer")], [add1, asg(0), rem("all"), add1],
                          [rem(-1), add1, asg(1), rt("write")]][j % 4]
                # three dimensions: a scaled one of 1..3 elements, an unscaled or opaque one, a scaled one
                plan = [add_dims([1 + j % 3, [1, 0, 2][j % 3], 1 + (j // 3) % 3], [True, False, True]), asg(0), asg(2), edit] + follow
                hs.append(gen_history(rng, reserved, fmt=j % 11, steps=len(plan), npts=[2, 3, 1][j % 3], plan=plan, init=0,
                                      build=BUILDS[j % len(BUILDS)], sibling=False))
    # the header was made with a PointFormat whose dimensions have the same names and types, then given the PointFormat of the history
    # (header.point_format = .. / set_version_and_point_format / through laspy.create): every way the first one may differ
    for build in REFMT_BUILDS:
        for kind in TWIN_KINDS:
            for init in (1, 3):
                j += 1
                follow = [[asg(0), add1, rem(0), rt("write")], [rem(0), add1, rt("writer")], [add1, asg(0), rem("all"), add1], [rt("write"), rem(-1), add1, asg(0)]][j % 4]
                hs.append(gen_history(rng, reserved, fmt=j % 11, steps=len(follow), npts=[2, 3, 1, 0][j % 4], plan=list(follow), init=init, build=build,
                                      sibling=[False, False, "younger"][j % 3], prior_kind=kind, prior_layout=layouts[j % 3]))
    return hs


def systematic6(ctx, reserved):
    """round 6 — every name laspy knows that the record of the format has no field of (sub fields of the format, sub fields and
    fields of other formats, old laspy names, coordinates) x every point format: the extra dimension of that name next to two
    ordinary ones through add, assignment (through the record's array), assignment of the standard bytes and of the standard sub
    field through las[name], round trip, removal, re-addition with another type, conversion to a format that allows the name, a
    whole-record assignment, and — once the name is only the standard dimension's — its refused removal"""
    rng = ctx.rng
    hs = []
    t = name_tables()

    def dims_with(shadow, nm, pos, scaled, typ=None):
        used = {bytes.fromhex(d["name"]).decode() for d in shadow} | {nm}
        ds = []
        for i in range(3):
            if i == pos:
                d = rand_dim(rng, used, reserved, name=nm, scaled=scaled, t=typ)
            else:
                d = rand_dim(rng, used, reserved)
                used.add(bytes.fromhex(d["name"]).decode())
            ds.append(d)
        return ds

    def by_name(shadow, nm):
        return [d for d in shadow if bytes.fromhex(d["name"]).decode() == nm]

    j = 0
    for fmt in range(11):
        pool = clash_pool(fmt)
        subs = [n for n in pool if n in t["sub"][fmt]]
        others = [n for n in pool if n not in t["sub"][fmt]]
        # every sub field of the format; of the other names a rotating selection in the quick tier, all of them in the thorough one
        if not ctx.n(0, 1):
            subs = [subs[(fmt + (3 if len(subs) % 3 else 2) * i) % len(subs)] for i in range(5)]        # quick tier: 5 of the 8..9 sub fields, rotating over the formats
            others = [others[(5 * fmt + 3 * i) % len(others)] for i in range(2)]
        picked = subs + others
        for nm in picked:
            j += 1
            is_sub = nm in t["sub"][fmt]
            pos = j % 3
            scaled = bool(j % 2)

            def add3(shadow, cur, nm=nm, pos=pos, scaled=scaled, j=j):
                ds = dims_with(shadow, nm, pos, scaled, typ=("s", 1 + (7 * j) % 30))
                return {"op": "add", "dims": ds, "single": False} if j % 4 else None

            def add_one_by_one(k_):
                def f(shadow, cur, nm=nm, pos=pos, scaled=scaled, j=j):
                    if j % 4:
                        return None
                    used = {bytes.fromhex(d["name"]).decode() for d in shadow} | {nm}
                    d = rand_dim(rng, used, reserved, name=nm, scaled=scaled, t=("s", 1 + (7 * j) % 30)) if k_ == pos and not by_name(shadow, nm) else rand_dim(rng, used, reserved)
                    return {"op": "add", "dims": [d], "single": True}
                return f

            def asg_named(shadow, cur, nm=nm):
                return assign_op(rng, by_name(shadow, nm)[0], cur) if by_name(shadow, nm) else None

            def asg_other(shadow, cur, nm=nm):
                o = [d for d in shadow if bytes.fromhex(d["name"]).decode() != nm]
                return assign_op(rng, o[0], cur) if o else None

            def std_random(shadow, cur):
                return lambda sh, c, curfmt, curver, reg: {"op": "assign_std", "size": std_dtype(curfmt).itemsize, "raw": hx(rand_std(rng, curfmt, c))}

            def std_safe(shadow, cur):
                return lambda sh, c, curfmt, curver, reg: {"op": "assign_std", "size": std_dtype(curfmt).itemsize, "safe": True,
                                                           "raw": hx(bytes(rng.choice(SAFE_STD) for _ in range(std_dtype(curfmt).itemsize * c)))}

            def asg_sub(shadow, cur, nm=nm):
                return lambda sh, c, curfmt, curver, reg: assign_sub_op(rng, curfmt, nm, c) if nm in t["sub"][curfmt] and by_name(sh, nm) else None

            def rt(via):
                return lambda s_, c: {"op": "roundtrip", "via": via}

            def rem_named(single):
                def f(shadow, cur, nm=nm):
                    if not by_name(shadow, nm):
                        return None
                    return {"op": "remove", "names": [hx(nm.encode())], "single": single, "as": "tuple"}
                return f

            def rem_named_and_other(shadow, cur, nm=nm):
                o = [d["name"] for d in shadow if bytes.fromhex(d["name"]).decode() != nm]
                if not by_name(shadow, nm):
                    return None
                names = ([o[-1]] if o else []) + [hx(nm.encode())]
                return {"op": "remove", "names": names, "single": False, "as": "list"}

            def rem_refused(shadow, cur, nm=nm):
                # the name is now only a standard dimension's (or nobody's): refused, nothing changes
                def g(sh, c, curfmt, curver, reg):
                    if by_name(sh, nm):
                        return None
                    kind = "standard" if (nm in t["sub"][curfmt] or nm in t["rec"][curfmt]) else "unknown"
                    return {"op": "remove", "names": [d["name"] for d in sh[:1]] + [hx(nm.encode())], "single": False, "as": "list", "bad": kind}
                return g

            def readd(shadow, cur, nm=nm, j=j):
                used = {bytes.fromhex(d["name"]).decode() for d in shadow}
                if nm in used:
                    return None
                return {"op": "add", "dims": [rand_dim(rng, used, reserved, name=nm, t=("s", 1 + (11 * j) % 30), scaled=not bool(j % 2))], "single": True}

            def conv(shadow, cur, nm=nm, j=j):
                def g(sh, c, curfmt, curver, reg):
                    ok = [g_ for g_ in convert_targets(sh) if g_ != curfmt]
                    # towards a format where the name is a sub field if there is one (the other way round for a sub field of this format)
                    pref = [g_ for g_ in ok if (nm in t["sub"][g_]) != (nm in t["sub"][curfmt])]
                    cand = pref if pref and j % 2 else ok
                    return {"op": "convert", "fmt": cand[j % len(cand)] if cand else curfmt, "version": None}
                return g

            def setp(shadow, cur, j=j):
                return lambda sh, c, curfmt, curver, reg: rand_set_points(rng, curfmt, sh, c, reserved, source=["other", "copy", "packed", "reread"][j % 4])

            plan = [add3, add_one_by_one(0), add_one_by_one(1), add_one_by_one(2), asg_named, asg_other, std_random, asg_sub, rt("writer" if j % 2 else "write"),
                    asg_named, rem_named(bool(j % 2)) if j % 3 else rem_named_and_other, rem_refused, rt("write"), readd, asg_named, asg_sub,
                    std_safe, conv, asg_named, setp, rem_named(True), rem_refused]
            hs.append(gen_history(rng, reserved, fmt=fmt, steps=len(plan), npts=[2, 3, 1, 5][j % 4], plan=plan, init=0,
                                  build=BUILDS[j % len(BUILDS)], sibling=False))
            # the name from the start: a PointFormat that already carries it (create / header made from the format)
            if is_sub and j % 2:
                def rem0(shadow, cur, nm=nm):
                    return {"op": "remove", "names": [hx(nm.encode())], "single": True} if by_name(shadow, nm) else None
                hs.append(gen_history(rng, reserved, fmt=fmt, steps=4, npts=2, plan=[asg_named, asg_sub, rem0, rem_refused], init=0,
                                      init_dims=dims_with([], nm, pos, scaled), build=["header_fmt", "create_fmt"][j % 4 // 2], sibling=False))
    return hs


def systematic5(ctx, reserved):
    """round 5 — what belongs to the caller: (1) the objects it passed (scales / offsets in every representation, kept and written
    afterwards; the ExtraBytesParams object kept, changed, re-used for the next addition; the lists it passed); (2) a LasData made
    with the constructor from a header that counts other points than the record has (every route, header count bigger / smaller /
    zero) x what is added / removed afterwards; (3) the VLR list edited between two operations (every flavour x every way of
    installing the new list) x the add / remove that follows"""
    rng = ctx.rng
    hs = []

    def dims_n(shadow, n, scaled=None, elems=None):
        used = {bytes.fromhex(d["name"]).decode() for d in shadow}
        ds = []
        for i in range(n):
            t = ("s", rng.choice([1, 2, 3, 4, 5, 6, 7, 8, 9, 10]) + 10 * (elems[i] - 1)) if elems else None
            d = rand_dim(rng, used, reserved, t=t, scaled=scaled)
            used.add(bytes.fromhex(d["name"]).decode())
            ds.append(d)
        return ds

    def add_n(n, scaled=None, how=None, elems=None, single=None):
        def f(shadow, cur):
            op = {"op": "add", "dims": dims_n(shadow, n, scaled, elems), "single": (n == 1) if single is None else single}
            if how:
                op["pass"] = dict(how)
            return op
        return f

    def asg(which=-1):
        return lambda s, c: assign_op(rng, s[which % len(s)], c) if s else None

    def rem(which, retain=False):
        def f(shadow, cur):
            if not shadow:
                return None
            names = [d["name"] for d in shadow] if which == "all" else [shadow[which % len(shadow)]["name"]]
            return {"op": "remove", "names": names, "single": False, "as": "list", "retain": retain}
        return f

    def rt(via="write"):
        return lambda s, c: {"op": "roundtrip", "via": via}

    def caller(what):
        return lambda s, c: {"op": "caller", "what": what}

    def conv(shadow, cur):
        return lambda sh, c, curfmt, curver, reg: {"op": "convert", "fmt": curfmt, "version": None}

    # (1) parameters the caller keeps
    j = 0
    for rep in ["ndarray", "list", "tuple", "npscalars", "buffer", "strided"]:
        for what in ("arrays", "params_rebind", "lists"):
            for elems in ([1, 1, 1], [2, 3, 2], [3, 1, 3]):
                j += 1
                how = {"arrays": rep, "retain": True, "type": TYPE_REPS[j % len(TYPE_REPS)], "text": ["str", "np_str"][j % 2]}
                plan = [add_n(2, scaled=True, how=how, elems=elems[:2]), asg(0), asg(1), caller(what), add_n(1, scaled=True, how=how, elems=elems[2:]),
                        asg(2), rem(0, retain=True), caller(what), rt("writer" if j % 2 else "write")]
                hs.append(gen_history(rng, reserved, fmt=j % 11, steps=len(plan), npts=[2, 1, 3][j % 3], plan=plan, init=j % 2,
                                      build=BUILDS[j % len(BUILDS)], sibling=False))
    for j, (sc1, sc2, el) in enumerate([(True, True, 1), (True, True, 3), (True, False, 2), (False, True, 1), (False, False, 1), (True, True, 2)]):
        keep = {"arrays": ARRAY_REPS[j % len(ARRAY_REPS)], "retain": True}
        plan = [add_n(1, scaled=sc1, how=keep, elems=[el]), asg(0), add_n(1, scaled=sc2, how={"reuse": "rebind", "retain": True}, elems=[el]), asg(1),
                add_n(1, scaled=False, how={"reuse": "rebind", "retain": True}), caller("params_rebind"), rem(1), rt()]
        hs.append(gen_history(rng, reserved, fmt=(3 * j) % 11, steps=len(plan), npts=[3, 2][j % 2], plan=plan, init=0, build=BUILDS[j % len(BUILDS)], sibling=False))
    # the params object's own arrays written in place after the call (re-used for the next addition, or just changed)
    for j, el in enumerate([1, 3]):
        keep = {"arrays": "ndarray", "retain": True}
        plan = [add_n(1, scaled=True, how=keep, elems=[el]), asg(0),
                add_n(1, scaled=True, how={"reuse": "inplace", "retain": True}, elems=[el]), asg(1), rt()]
        hs.append(gen_history(rng, reserved, fmt=j, steps=len(plan), npts=2, plan=plan, init=0, build=BUILDS[j], sibling=False))
        plan = [add_n(2, scaled=True, how=keep, elems=[el, 1]), asg(0), caller("params_inplace"), add_n(1), rt()]
        hs.append(gen_history(rng, reserved, fmt=j + 5, steps=len(plan), npts=2, plan=plan, init=0, build=BUILDS[j + 2], sibling=False))
    # (2) a header that counts other points than the record has
    follow = [[add_n(1)], [rem(0)], [add_n(1), asg(), rem(0), asg(0), rt()], [rem("all"), add_n(2)], [conv, add_n(1), rem(1)]]
    routes = [("rewrap", r) for r in ("slice", "slice_copy", "chunk", "chunk_iter", "smaller_header")] + [("set_count", "assign"), ("set_count", "reset")]
    j = 0
    for how_, route in routes:
        for fi, fl in enumerate(follow):
            for counts in ((None,) if how_ == "rewrap" else ("bigger", "smaller") if route == "assign" else ("zero",)):
                j += 1

                def stale(shadow, cur, how_=how_, route=route, counts=counts):
                    if how_ == "rewrap":
                        return rand_rewrap(rng, cur, route=route)
                    op = rand_set_count(rng, cur, route=route)
                    if counts == "bigger":
                        op["count"] = cur + rng.choice([1, 2, 6, 1000])
                    elif counts == "smaller":
                        op["count"] = rng.randrange(cur)
                    return op

                plan = [add_n(2), asg(0), asg(1), stale] + list(fl)
                hs.append(gen_history(rng, reserved, fmt=j % 11, steps=len(plan), npts=[4, 5, 3, 10][j % 4], plan=plan, init=j % 2,
                                      build=BUILDS[j % len(BUILDS)], sibling=False))
    # the whole record with the header of a file: every chunk of a file in turn, each wrapped, extended and written (one history per chunk)
    for j, (n, size) in enumerate([(10, 4), (10, 4), (10, 4), (6, 6), (5, 1)]):
        start = [0, 4, 8, 0, 3][j]

        def chunk(shadow, cur, size=size, start=start):
            return {"op": "fork", "how": "rewrap", "route": "chunk_iter", "cont": "new", "chunk": size,
                    "index": {"kind": "slice", "a": start, "b": min(cur, start + size), "step": None}}
        plan = [add_n(1), asg(0), chunk, add_n(1), asg(1), add_n(1, elems=[3]), rem(1), rt()]
        hs.append(gen_history(rng, reserved, fmt=[6, 1, 3, 7, 0][j], steps=len(plan), npts=n, plan=plan, init=0, build=BUILDS[j % len(BUILDS)], sibling=False))
    # (4) an extra dimension named like a standard dimension of ANOTHER point format (not of this one): a name as any other
    import laspy.point.dims as ldims
    std_of = {f: set(std_dtype(f).names) | {s_.name for subs in ldims.COMPOSED_FIELDS[f].values() for s_ in subs} | set(ldims.POINT_FORMAT_DIMENSIONS[f])
              for f in range(11)}
    every = sorted(set().union(*std_of.values()))
    for f in range(11):
        foreign = [n for n in every if n not in std_of[f]]
        for v in range(2):
            nm = foreign[(3 * f + 5 * v) % len(foreign)]

            def add_clash(shadow, cur, nm=nm, v=v):
                used = {bytes.fromhex(d["name"]).decode() for d in shadow}
                return {"op": "add", "dims": [rand_dim(rng, used, reserved), rand_dim(rng, used, reserved, name=nm, scaled=bool(v))], "single": False}
            plan = [add_clash, asg(0), asg(1), rt("writer" if v else "write"), rem(0), asg(0), rt("path" if v else "write"), add_n(1), rem(0)]
            hs.append(gen_history(rng, reserved, fmt=f, steps=len(plan), npts=[2, 3][v], plan=plan, init=0, build=BUILDS[(f + v) % len(BUILDS)], sibling=False))
    # (5) an extra dimension named like a name laspy resolves to a standard dimension (x, y, z, the old laspy names): it keeps its
    # values across add / remove and laspy.convert (copy_fields_from copies extra dimensions from extra dimensions)
    for j, nm in enumerate(ALIASES):
        def add_alias(shadow, cur, nm=nm, j=j):
            used = {bytes.fromhex(d["name"]).decode() for d in shadow}
            return {"op": "add", "dims": [rand_dim(rng, used, reserved, name=nm, scaled=bool(j % 2), t=("s", 1 + (7 * j) % 30)), rand_dim(rng, used, reserved)], "single": False}

        def safe_std(shadow, cur):
            return lambda sh, c, curfmt, curver, reg: {"op": "assign_std", "size": std_dtype(curfmt).itemsize, "safe": True,
                                                       "raw": hx(bytes(rng.choice(SAFE_STD) for _ in range(std_dtype(curfmt).itemsize * c)))}

        def conv_to(g):
            return lambda shadow, cur: (lambda sh, c, curfmt, curver, reg: {"op": "convert", "fmt": g, "version": None})
        plan = [add_alias, asg(0), asg(1), add_n(1), rem(1), safe_std, conv_to((j + 5) % 11), asg(0), rt("writer" if j % 2 else "write"), rem(0)]
        hs.append(gen_history(rng, reserved, fmt=j % 11, steps=len(plan), npts=[2, 3, 1][j % 3], plan=plan, init=0, build=BUILDS[j % len(BUILDS)], sibling=False))
    # (3) the VLR list edited by the caller between two operations
    flavour_installs = {
        "foreign_after": ["extend", "append", "iadd_inplace", "slice"] + SETTER_INSTALLS,
        "foreign_before": ["insert_front", "slice", "setter_list", "setter_tuple", "setter_iter", "setter_vlrlist", "header_setter"],
        "foreign_eb_only": ["extend", "append", "slice"] + SETTER_INSTALLS,
        "two_foreign": ["extend", "iadd_inplace", "slice", "setter_list", "setter_iadd", "header_setter"],
        "duplicate_own": ["extend", "append", "insert_front", "slice", "setter_list", "setter_vlrlist", "setter_iadd", "header_setter"],
        "reverse": ["reverse", "slice", "setter_list", "setter_iter"],
        "eb_first": ["slice", "setter_list", "setter_tuple"],
        "drop_eb": ["pop_eb", "extract_eb", "slice", "setter_list", "header_setter"],
        "users_only": ["extend", "setter_iadd"],
        "empty": ["clear", "slice", "setter_list", "header_setter"],
    }
    j = 0
    for flavour, installs in flavour_installs.items():
        for inst in installs:
            for start_dims in ((2, 0) if flavour in ("foreign_after", "foreign_before", "two_foreign", "empty") else (2,)):
                j += 1

                def edit(shadow, cur, flavour=flavour, inst=inst):
                    for _ in range(20):
                        op = rand_edit_vlrs(rng, reserved, flavour=flavour, install=inst)
                        if flavour == "duplicate_own" and inst == "insert_front" and op["segs"][-1] != {"seg": "cur"}:
                            continue
                        if flavour == "duplicate_own" and inst in ("extend", "append", "setter_iadd") and op["segs"][0] != {"seg": "cur"}:
                            continue
                        return op
                    return None

                sync = [add_n(1), lambda s, c: {"op": "remove", "names": [s[0]["name"]], "single": True} if s else None,
                        lambda s, c: {"op": "remove", "names": [d["name"] for d in s], "single": False, "as": "tuple"} if s else None][j % 3]
                if not start_dims:
                    sync = add_n(1)
                plan = ([add_n(start_dims), asg(0)] if start_dims else []) + [edit, sync, asg(0), add_n(1), rt("writer" if j % 2 else "write")]
                hs.append(gen_history(rng, reserved, fmt=j % 11, steps=len(plan), npts=[2, 3, 1][j % 3], plan=plan, init=0,
                                      build=BUILDS[j % len(BUILDS)], sibling=False))
    return hs


def systematic4(ctx, reserved):
    """round 4: (a) a name comes back with a type of the same layout (element count and width) and another kind — in the same
    LasData after a removal, after a round trip, or in a LasData made after a sibling used the name; values are given in the declared
    type and followed into the bytes of the written file; (b) every way of getting another live object from a LasData x which of the
    two the history goes on with x what is added / removed afterwards; (c) round trips through a path and through laspy.mmap"""
    rng = ctx.rng
    hs = []

    def named(name, t, scaled=False):
        return rand_dim(rng, set(), reserved, t=t, scaled=scaled, name=name)

    def add_named(name, t, scaled=False, single=True):
        return lambda s, c: {"op": "add", "dims": [named(name, t, scaled)], "single": single}

    def add_n(n):
        def f(shadow, cur):
            used = {bytes.fromhex(d["name"]).decode() for d in shadow}
            ds = []
            for _ in range(n):
                d = rand_dim(rng, used, reserved)
                used.add(bytes.fromhex(d["name"]).decode())
                ds.append(d)
            return {"op": "add", "dims": ds, "single": n == 1}
        return f

    def asg(which=-1):
        return lambda s, c: assign_op(rng, s[which % len(s)], c) if s else None

    def rem_name(name):
        return lambda s, c: {"op": "remove", "names": [hx(name.encode())], "single": True}

    def rem(which):
        def f(shadow, cur):
            if not shadow:
                return None
            names = [d["name"] for d in shadow] if which == "all" else [shadow[which % len(shadow)]["name"]]
            return {"op": "remove", "names": names, "single": len(names) == 1, "as": "list"}
        return f

    def rt(via="write"):
        return lambda s, c: {"op": "roundtrip", "via": via}

    # (a)
    j = 0
    for n in (0, 1, 2):
        for w in ("1", "2", "4", "8"):
            kinds = [b for b in BASE if b[1:] == w]
            for b1 in kinds:
                for b2 in kinds:
                    if b1 == b2:
                        continue
                    j += 1
                    t1, t2 = ("s", BASE.index(b1) + 1 + 10 * n), ("s", BASE.index(b2) + 1 + 10 * n)
                    name = rng.choice(["v", "range", "w" + rand_text(rng, 3, (), reserved)])
                    v = j % 4
                    sib_ops, sibling = None, False
                    if v == 0:
                        plan = [add_named(name, t1), asg(), rem_name(name), add_named(name, t2), asg(), rt()]
                    elif v == 1:
                        plan = [add_n(1), add_named(name, t1), asg(), rt("writer"), rem_name(name), add_named(name, t2, single=False), asg(), rt("path" if j % 8 == 1 else "write")]
                    elif v == 2:
                        sibling, sib_ops = "older", [{"op": "add", "dims": [named(name, t1)], "single": True}]
                        plan = [add_named(name, t2), asg(), rt()]
                    else:
                        plan = [add_named(name, t1, scaled=True), asg(), rem_name(name), add_named(name, t2, scaled=j % 8 == 3), asg(), rt("writer")]
                    hs.append(gen_history(rng, reserved, fmt=3 if v == 2 else j % 11, steps=len(plan), npts=[2, 1, 3][j % 3], plan=plan, init=0,
                                          build="default_create" if v == 2 else BUILDS[j % len(BUILDS)], sibling=sibling, sib_ops=sib_ops))
    # (b)
    forks = [("select", k, c) for k in ("slice", "step", "mask", "list", "array", "int", "empty") for c in ("new", "self")]
    forks += [("copy", None, "new"), ("copy", None, "self"), ("share_header", None, "new"), ("share_header", None, "self"),
              ("reader", None, "new"), ("reader_twice", None, "new"), ("writer", None, "self")]
    follow = [[add_n(1)], [rem(0)], [add_n(1), rem(0), asg()], [rem("all")], [add_n(2), asg(0), rem(1), rt()]]
    j = 0
    for how, kind, cont in forks:
        for fi, fl in enumerate(follow):
            j += 1

            def fork(shadow, cur, how=how, kind=kind, cont=cont):
                op = rand_fork(rng, cur, how=how, cont=cont, kind=kind)
                if how == "select" and kind == "list":
                    op["index"] = rand_index(rng, cur, kind="list")       # in range (the refused ones come from the random stream)
                return op

            plan = [add_n(2), asg(0), asg(1), fork] + list(fl)
            hs.append(gen_history(rng, reserved, fmt=j % 11, steps=len(plan), npts=[3, 5, 2, 4][j % 4], plan=plan, init=j % 2,
                                  build=BUILDS[j % len(BUILDS)], sibling=False))
    # the objects the ordinary steps leave behind: the source of a round trip / conversion / re-read, the donor of a record
    for j, first in enumerate(["roundtrip", "roundtrip-writer", "convert", "reread", "points-other", "points-reread", "mmap", "path"]):
        for fi, fl in enumerate(follow):
            def step1(shadow, cur, first=first):
                if first == "convert":
                    return lambda sh, c, curfmt, curver, reg: {"op": "convert", "fmt": curfmt, "version": None}
                if first == "reread":
                    return {"op": "reread", "keep": 1, "via": "write"}
                if first.startswith("points"):
                    return lambda sh, c, curfmt, curver, reg: rand_set_points(rng, curfmt, sh, c, reserved, source=first.split("-")[1])
                return {"op": "roundtrip", "via": {"roundtrip": "write", "roundtrip-writer": "writer"}.get(first, first)}
            plan = [add_n(2), asg(0), step1] + list(fl)
            hs.append(gen_history(rng, reserved, fmt=(j + fi) % 11, steps=len(plan), npts=[3, 1, 2][(j + fi) % 3], plan=plan, init=0,
                                  build=BUILDS[(j + fi) % len(BUILDS)], sibling=False))
    return hs


def systematic3(ctx, reserved):
    """round 3: histories that start from a format with extra dimensions or from the argument-less constructors (with siblings),
    conversions of every kind of dimension to every point format, files whose VLR registers only part of the extra bytes"""
    rng = ctx.rng
    hs = []

    def rt(via="write"):
        return lambda s, c: {"op": "roundtrip", "via": via}

    def add_n(n, scaled=None, t=None):
        def f(shadow, cur):
            used = {bytes.fromhex(d["name"]).decode() for d in shadow}
            ds = []
            for i in range(n):
                d = rand_dim(rng, used, reserved, t=t[i] if t else None, scaled=scaled)
                used.add(bytes.fromhex(d["name"]).decode())
                ds.append(d)
            return {"op": "add", "dims": ds, "single": n == 1}
        return f

    def rem(which):
        def f(shadow, cur):
            if not shadow:
                return None
            names = [d["name"] for d in shadow] if which == "all" else [shadow[which % len(shadow)]["name"]]
            return {"op": "remove", "names": names, "single": len(names) == 1, "as": "list"}
        return f

    def asg_all(shadow, cur):
        if not shadow:
            return None
        d = rng.choice(shadow)
        return assign_op(rng, d, cur)

    def safe_std(shadow, cur):
        return lambda sh, c, curfmt, curver, reg: {"op": "assign_std", "size": std_dtype(curfmt).itemsize, "safe": True,
                                                   "raw": hx(bytes(rng.choice(SAFE_STD) for _ in range(std_dtype(curfmt).itemsize * c)))}

    def conv(g, explicit=False):
        def f(shadow, cur):
            def f2(sh, c, curfmt, curver, reg):
                gg = curfmt if g is None else g
                ver = rng.choice([v for v in lasio.VERSIONS if gg in lasio.COMPAT[v]]) if explicit else None
                return {"op": "convert", "fmt": gg, "version": ver}
            return f2
        return f

    def reread(keep, via="write"):
        def f(shadow, cur):
            def f2(sh, c, curfmt, curver, reg):
                n_reg = len(sh) if reg is None else (0 if reg == "absent" else reg)
                k_eff = 0 if keep is None else min(keep, n_reg)
                kept, rest = sh[:k_eff], sh[k_eff:]
                if rest and (any(d["name"] == hx(UNREG_NAME) for d in kept) or not 1 <= sum(type_size(tuple(d["type"])) for d in rest) <= 255):
                    return None
                return {"op": "reread", "keep": keep, "via": via}
            return f2
        return f

    # (a) the LasData is made from a PointFormat that already has 1..3 extra dimensions; empty and short histories
    j = 0
    for build in ("header_fmt", "create_fmt"):
        for init in (1, 2, 3):
            for tail in ([], [rt("writer")], [add_n(1), rem(0)], [rem("all")], [asg_all, safe_std, conv(None if j % 2 else (j * 3) % 11)],
                         [rem(1), add_n(2)], [reread(1)]):
                j += 1
                plan = list(tail)
                hs.append(gen_history(rng, reserved, fmt=j % 11, steps=len(plan), npts=[2, 0, 1, 3][j % 4], plan=plan, build=build, init=init,
                                      sibling=False if j % 5 else "older"))
    # (b) the argument-less constructors, alone and next to a sibling built the same way
    for build in ("default_create", "default_header"):
        for sib in (False, "older", "younger"):
            for tail in ([], [add_n(1)], [add_n(2), rem(0), rt()], [add_n(1), rem("all")]):
                plan = list(tail)
                hs.append(gen_history(rng, reserved, fmt=3, steps=len(plan), npts=[2, 0, 1][len(hs) % 3], plan=plan, build=build, sibling=sib))
    # (c) conversion: every kind of dimension (1..3 elements scaled with distinct scales and offsets, unscaled, opaque) to every format
    kinds = [[("s", 4)], [("s", 16)], [("s", 29)], [("s", 9), ("s", 12)], [("o", 7)], [("s", 1), ("o", 255), ("s", 30)]]
    j = 0
    for g in range(11):
        for ki, ts in enumerate(kinds):
            j += 1
            sc = None if any(t[0] == "o" for t in ts) else (ki % 4 != 3)
            plan = [add_n(len(ts), scaled=sc, t=ts), add_n(1), asg_all, safe_std, conv(g, explicit=(j % 3 == 0)), asg_all, add_n(1), rem(1),
                    rt("writer" if j % 2 else "write"), safe_std, conv((g + 5 + ki) % 11), rem(0)]
            hs.append(gen_history(rng, reserved, fmt=(g + ki) % 11, steps=len(plan), npts=[2, 1, 3, 0][j % 4], plan=plan, build=BUILDS[j % len(BUILDS)],
                                  sibling=False))
    # (d) a file whose extra-bytes VLR registers only the first k of 4 dimensions (un-registered rest of 1, 2, 3, 4.. bytes), or none
    tails = [[("s", 1)], [("s", 3)], [("s", 21)], [("s", 5)], [("s", 2), ("s", 1)], [("o", 40)], [("s", 30), ("s", 7)]]
    j = 0
    for keep in (None, 0, 1, 2, 3, 4):
        for ti, tl in enumerate(tails):
            j += 1
            head_t = [("s", 1 + (j * 7) % 30), ("s", 1 + (j * 11) % 30)]
            follow = [[add_n(1)], [rem(-1)], [rt("writer"), add_n(1)], [safe_std, conv((j * 3) % 11)], [reread(0), rem(0)], [asg_all, reread(None), add_n(1)]][j % 6]
            plan = [add_n(2, t=head_t), add_n(len(tl), scaled=False, t=tl), asg_all, asg_all, reread(keep, via="writer" if j % 3 == 0 else "write")] + follow
            hs.append(gen_history(rng, reserved, fmt=j % 11, steps=len(plan), npts=[3, 1, 2, 0][j % 4], plan=plan, build=BUILDS[j % len(BUILDS)], init=1,
                                  sibling=False))
    return hs


def histories(ctx):
    reserved = reserved_names()
    hs = systematic(ctx, reserved)
    for _ in range(ctx.n(500, 6000)):
        hs.append(gen_history(ctx.rng, reserved))
    return hs


def describe(h):
    return [h.get("build", "header_record") + f"[{len(init_dims_of(h))} dims" + (", sibling " + h["sibling"]["when"] if h.get("sibling") else "") + "]"] + [
        o["op"] + (":" + o["bad"] if o.get("bad") else "") + (":" + o["source"] if o.get("source") else "")
        + (":other-format-" + o["mismatch"] if o.get("mismatch") else "") + (f":to-{o['fmt']}" if o["op"] == "convert" else "")
        + (f":keep-{o['keep']}" if o["op"] == "reread" else "") + (":" + o["via"] if o.get("via", "write") != "write" else "")
        + (":" + o["how"] + (":" + o["index"]["kind"] if o["how"] == "select" else "") + (":" + o["route"] if o.get("route") else "") + ":go-on-with-" + o["cont"] if o["op"] == "fork" else "")
        + (":" + o["what"] if o["op"] == "caller" else "") + (":" + o["flavour"] + ":" + o["install"] if o["op"] == "edit_vlrs" else "")
        + (":params-" + ((o["pass"].get("reuse") and "reused-" + o["pass"]["reuse"]) or o["pass"].get("arrays", "")) if o.get("pass") else "") for o in h["ops"]]


def correspond(ctx):
    ctx.extra["rule"] = (
        "histories of 3..12 operations on a LasData of 0..17 points of every point format (random standard bytes, 0..3 foreign VLRs): "
        "the LasData is built from a header and a record that shares the header's PointFormat object or (50%) carries its own; "
        "add_extra_dim(s) of 1..3 dimensions over the 30 element types (40% scaled, awkward scales/offsets) and opaque arrays of "
        "{4,5,7,8,9,15,16,17,24,31,32,255} bytes, names of 1..32 bytes and descriptions of 0..32 bytes (ASCII, some UTF-8); "
        "remove_extra_dim(s) of 1..all names (list, tuple, iterator), down to zero dimensions; raw assignments (int64 above 2^53, "
        "non-integer floats, NaN payloads); assignments of the standard bytes; whole-record assignments las.points = r (11% of the steps) "
        "where r has its own PointFormat object and 0..n+1 points: las.points.copy(), las.points itself, a slice, the record of another "
        "LasData that got the same dimensions (at once or one by one; sometimes -0.0 for 0.0 offsets), the record of a re-read copy, a bare "
        "PackedPointRecord; 20% of them with a format that differs (dimension missing / extra / renamed / other description / other type / "
        "scaled vs not / other scale / other order) and must be refused; write/read round trips (always one at the end); "
        "bad removals (standard name, unknown name, a name given twice, empty list; bad name before / in the middle of / after good ones). "
        "Plus a systematic family: every type scaled and unscaled and every opaque size through add, assign, add, remove, round trip, "
        "remove, round trip; every name/description length 1..32; every source of a whole-record assignment followed by add / remove / "
        "remove all / assign+add / add, remove, assign again, remove; every kind of differing format. "
        "Round 4: 10% of the steps create another live object from the LasData (las[...] with a slice, a step, a mask as array or list, an "
        "index list with negative entries (8% with one entry out of range: IndexError, nothing changes), an index array of int64 / int32 / "
        "int16 / uint32, an integer, an empty list; deepcopy(header) + points.copy(); LasData(las.header, ...); laspy.open(source).read() "
        "once or twice; laspy.open(mode='w', header=las.header)) and go on with the new or the old one; sources of round trips, conversions, "
        "re-reads and donors of whole-record assignments stay alive; all are observed after every later step and written / finished at the "
        "end.  Assigned values are given in the declared element type; half of the added dimensions re-use a name that was removed before "
        "(or that the sibling uses) with a type of equal layout and other kind (u/i/f of 1, 2, 4, 8 bytes x 1..3 elements); every written "
        "file is parsed independently (record length, VLR, bytes of each dimension in each record vs the assigned values); round trips "
        "through LasData.write (stream), laspy.open(mode='w') in chunks, a path, a path + laspy.mmap. Systematic: 48 ordered pairs of "
        "kinds x {same LasData after removal; next to another dimension with round trips between; after a sibling; scaled -> unscaled}; "
        "19 ways of getting another object x 5 follow-ups (add / remove / add+remove+assign / remove all / add 2+assign+remove+round trip); "
        "8 ordinary steps that leave an object behind x the same follow-ups. "
        "Round 3: the LasData is built from LasHeader(version, point_format=id) + record, from LasHeader(point_format=fmt) or "
        "laspy.create(point_format=fmt) where fmt is a PointFormat that already carries 0..3 extra dimensions (points given their bytes), "
        "from laspy.create(point_format=id), or from the argument-less laspy.create() / LasHeader() (format 3); foreign VLRs appended or "
        "assigned through the vlrs setter; 15% (60% for the argument-less constructors) next to a sibling LasData built the same way, "
        "either older (it got 2 dimensions, maybe lost one, before the LasData under test was made) or younger (made right after it): "
        "the initial state must be as constructed and the sibling must not change. New steps: laspy.convert to a random point format "
        "(8%; 30% with an explicit version; preceded by standard bytes every format can hold), round trips through "
        "laspy.open(mode='w') + write_points in up to 3 chunks (1/3 of the round trips), re-reads of a file whose extra-bytes VLR was cut "
        "to its first k descriptors or taken out (6%). Systematic: every build x 1..3 initial dimensions x {empty history, writer round "
        "trip, add+remove, remove all, assign+convert, remove+add, truncated re-read}; argument-less constructors x {no, older, younger "
        "sibling} x 4 histories; 11 target formats x 6 kinds of dimensions (1/2/3-element scaled, unscaled, opaque, mixed) through add, "
        "assign, convert, assign, add, remove, round trip, convert again, remove; 6 cuts of the VLR (none, 0..4 descriptors) x 7 "
        "un-registered tails (1, 2, 3, 4, 3, 40, 32 bytes) x 6 follow-ups (add / remove ExtraBytes / writer round trip + add / convert / "
        "cut again + remove / assign + no VLR + add). "
        "Round 5: half of the additions say how the caller hands over its parameters (scales / offsets as list / tuple / numpy scalars / "
        "float64 array / view of one reusable buffer / strided view; type as str / dtype / (type, count) / scalar class / '1type'; texts "
        "as str / np.str_) and the caller keeps what it passed; 4% of the steps (after such an addition) change the kept objects (arrays "
        "overwritten, params attributes rebound, the params object's own arrays written in place, lists reversed and extended); "
        "20% of the additions after a kept one re-use the kept ExtraBytesParams object; 6% of the steps "
        "edit the VLR list (10 flavours: the list / the extra-bytes VLR of another LasData after or before the own records, two foreign "
        "ones, duplicates of the own one, reversed, extra-bytes VLR first, taken out, user records, emptied) installed by one of 9 list methods (then an add / valid remove follows) or one of "
        "6 setter forms; 3 of 11 forks make a LasData whose header counts other points (slice / copied slice / reader chunk / "
        "chunk_iterator chunk with a copy of the header of the whole; all points with the header of a selection) or assign / reset "
        "header.point_count. Systematic: 6 representations x 3 caller actions x 3 element-count patterns through add 2, assign, caller, "
        "add, assign, remove, caller, round trip; 6 re-use patterns; 7 stale-count routes (bigger / smaller / zero) x 5 follow-ups; every "
        "chunk of a 10-point file wrapped, extended, written; 10 flavours x their installs (58) x {add, remove one, remove all}; 22 names "
        "of standard dimensions of other formats. "
        "Round 6: 12% of the added dimensions are called like something laspy knows and the record of the format has no field of (half of "
        "them a SUB FIELD of the current format: return_number, synthetic, withheld, overlap ...; else a standard dimension of another "
        "format, an old laspy name, a coordinate); their values are assigned through the record's array, and las[name] = values (2% of the "
        "steps when there is such a dimension) assigns the STANDARD sub field (the extra dimension must keep its bytes; the model gets the "
        "standard block with the bits replaced); conversions go to formats whose record has no field of an extra dimension's name. "
        "Systematic: 5 sub fields of every format (rotating) + 2 other known names per format (all 8..9 + ~25 in the thorough tier) through add 3 (at "
        "once / one by one; the name first, in the middle, last; 30 types, scaled or not), assign, assign other, standard bytes, "
        "las[name] = .., round trip, assign, remove (single / with another), refused removal of the now standard-only name, round trip, "
        "re-add with another type, assign, las[name] = .., convert (towards a format where the name changes its role), assign, "
        "whole-record assignment, remove, refused removal; the name carried by the PointFormat from the start (create / header). The "
        "model's dimension list (dim_names: standard dimensions of the format id, then the extra ones) is compared with "
        "point_format.dimension_names after every step; rec_names / sub_names / std_dim_names of the model vs laspy's tables per format. "
        "Round 7: the VLRs of ANOTHER file that has extra dimensions of the SAME names and types, described in its own way (other "
        "scales / offsets / last element only / description / everything / scaled vs not / identical; the same layout, some of the "
        "dimensions, one), are taken over — the whole list replaces the own one (`b.vlrs = a.vlrs`: the donor's own list object, a list, "
        "tuple, iterator, VLRList copy, header.vlrs, las.vlrs[:] = ..) or its records / its extra-bytes VLR come after, before or instead "
        "of the own one (40% of the VLR edits when there are dimensions); the donor must stay as it was made. 8% of the constructions "
        "give the header ANOTHER PointFormat first (such twins) and then the one of the history through header.point_format = .., "
        "set_version_and_point_format or laspy.create + setter. The extra-bytes VLR is judged against the CURRENT dimensions (name, type, "
        "scales, offsets, description) after every later step and in every written file. Systematic: 5 flavours x their installs (39) x "
        "2..7 ways of differing x 4 follow-ups; 3 re-format builds x 7 ways x {1, 3} dimensions. "
        "Search also: 240 + 18 systematic and 300 (3000) random 192-byte descriptors read by laspy vs the specification's reading. "
        "After the construction and after every step point format, VLR payloads, all record "
        "bytes and the raw values of each extra dimension are compared with the model (the standard block a conversion produces is taken "
        "from the implementation: C12). non-trivial = at least one successful add or initial dimension; distinct by the "
        "canonical construction + operation list (types, lengths, scaled flags, targets, cuts, outcomes).")
    hs = histories(ctx)
    runs = []
    for h in hs:
        snaps = run_impl(h)
        h["_count0"] = snaps[0][1]["hdr_count"]     # what the header counts at the start (a LasData(header, record) made by the constructor: 0)
        observe_converted(h, snaps)      # the standard blocks a conversion produced are an input of the model's Convert (C12 decides them)
        runs.append(snaps)
    outs = common.run_model([model_cmd(h) for h in hs], name="c13")
    dis = []
    for h, snaps, mline in zip(hs, runs, outs):
        _RUNS.append((h, snaps))
        ctx.traces += len(h["ops"]) + 1
        canon = (h["fmt"], h["npts"], h.get("build"), (h.get("sibling") or {}).get("when"), h.get("vlr_install"),
                 tuple((tuple(d["type"]), d["scale"] is not None) for d in init_dims_of(h)),
                 tuple((o["op"], o.get("bad"), tuple((tuple(d["type"]), d["scale"] is not None, len(d["name"]) // 2, len(d["desc"]) // 2) for d in o.get("dims", [])),
                        len(o.get("names", [])), o.get("source"), o.get("mismatch"), o.get("npts"), o.get("fmt"), o.get("keep"), o.get("via"),
                        o.get("how"), o.get("cont"), (o.get("index") or {}).get("kind"), o.get("what"), o.get("flavour"), o.get("install"), o.get("route"),
                        (o.get("pass") or {}).get("arrays"), (o.get("pass") or {}).get("reuse")) for o in h["ops"]),
                 tuple(s[0] for s in snaps))
        ctx.case(canon, nontrivial=any(o["op"] == "add" for o in h["ops"]) or bool(init_dims_of(h)),
                 sample={"format": h["fmt"], "points": h["npts"], "ops": describe(h), "outcomes": [s[0] for s in snaps[1:]]})
        ctx.count("build:" + h.get("build", "header_record") + (":" + str(min(len(init_dims_of(h)), 3)) + " initial dims" if init_dims_of(h) else ""))
        if h.get("sibling"):
            ctx.count("sibling:" + h["sibling"]["when"])
        ctx.count("vlrs installed by " + h.get("vlr_install", "append"))
        for o, sn in zip(h["ops"], snaps[1:]):
            ctx.count("op:" + o["op"] + (":bad-" + o["bad"] if o.get("bad") else "") + (":" + o["source"] if o.get("source") else "")
                      + (":other-format" if o.get("mismatch") else "") + (":" + o["via"] if o.get("via", "write") != "write" else "")
                      + (":no-vlr" if o["op"] == "reread" and o["keep"] is None else "")
                      + (":" + o["how"] + (":" + o["index"]["kind"] if o["how"] == "select" else "") + (":" + o["route"] if o.get("route") else "")
                         + ":go on with the " + o["cont"] + " one" if o["op"] == "fork" else "")
                      + (":" + o["what"] if o["op"] == "caller" else "") + (":" + o["flavour"] if o["op"] == "edit_vlrs" else ""))
            if o["op"] == "edit_vlrs":
                ctx.count("vlr list installed by " + o["install"])
            if o.get("pass"):
                ctx.count("params passed as " + ((o["pass"].get("reuse") and "a re-used params object (" + o["pass"]["reuse"] + ")") or o["pass"].get("arrays", "ndarray")))
            if sn[1].get("hdr_count") != sn[1]["npts"]:
                ctx.count("state whose header counts " + ("more" if sn[1]["hdr_count"] > sn[1]["npts"] else "fewer") + " points than the record has")
            if o.get("mismatch"):
                ctx.count("other format: " + o["mismatch"])
            if o["op"] == "convert":
                ctx.count("convert:to format " + str(o["fmt"]) + (" explicit version" if o.get("version") else ""))
            ctx.count("outcome:" + sn[0])
            for d in o.get("dims", []):
                ctx.count("type:" + ("opaque" if d["type"][0] == "o" else "scaled" if d["scale"] else "plain"))
                if o["op"] == "add" and name_class(sn[1]["fmt"], bytes.fromhex(d["name"]).decode()):
                    ctx.count("added dimension called like a " + name_class(sn[1]["fmt"], bytes.fromhex(d["name"]).decode()))
            if o["op"] == "remove" and sn[0] == "ok" and any(name_class(sn[1]["fmt"], bytes.fromhex(n).decode()) == "sub field of the format" for n in o["names"]):
                ctx.count("removed dimension called like a sub field of the format")
        ctx.count("final extra dims: " + str(min(len(snaps[-1][1]["extras"]), 4)) + ("+" if len(snaps[-1][1]["extras"]) >= 4 else ""))
        if any(d["name"] == UNREG_NAME for d in snaps[-1][1]["extras"]):
            ctx.count("final state has the reader's ExtraBytes dimension")
        for step, opk, comp, a, b in compare(h, snaps, mline):
            dis.append({"kind": f"{opk}: {comp}", "input": {"history": h, "step": step}, "model": a, "impl": b})
    # the name tables of the model (Gen/GenDims.v through rec_names / sub_names / std_dim_names) against the running laspy
    tabs = name_tables()
    lines = [f"{c} {f}" for f in range(11) for c in ("rec_names", "sub_names", "std_dim_names")]
    outs = common.run_model(lines, name="c13")
    for ln, mo in zip(lines, outs):
        c, f = ln.split(" ")
        f = int(f)
        want = {"rec_names": tabs["rec"][f], "sub_names": list(tabs["sub"][f]), "std_dim_names": [n for n, _ in tabs["dims"][f]]}[c]
        im = ",".join(common.hexb(n.encode()) for n in want)
        ctx.traces += 1
        ctx.case(("names", c, f), nontrivial=True)
        if (sorted(im.split(",")) != sorted(mo.split(","))) if c == "sub_names" else (im != mo):
            dis.append({"kind": "name table: " + c, "input": {"format": f}, "model": mo[:300], "impl": im[:300]})
    # descriptor decoding
    descs = [rand_descriptor(ctx.rng) for _ in range(ctx.n(1500, 15000))]
    outs = common.run_model(["eb_dec " + common.hexb(b) for b in descs], name="c13")
    for b, mo in zip(descs, outs):
        im = impl_decode(b)
        ctx.traces += 1
        ctx.case(("dec", b[2], b[3], b[4:36], b[160:192]), nontrivial=True)
        ctx.count("descriptor:" + ("opaque" if b[2] == 0 else "typed" if b[2] <= 30 else "unknown type"))
        if im != mo:
            dis.append({"kind": "descriptor decoding", "input": {"descriptor": b.hex()}, "model": mo[:200], "impl": im[:200]})
    return dis


def search(ctx, seeds):
    failing, seen = [], set()
    runs = list(_RUNS)
    for s in seeds:     # disagreeing histories first
        h = s.get("input", {}).get("history")
        if h:
            runs.insert(0, (h, run_impl(h)))
    if not _RUNS:       # the correspondence did not run: the search generates its own histories
        for h in histories(ctx):
            runs.append((h, run_impl(h)))
    for h, snaps in runs:
        for kind, step, text in oracle(h, snaps):
            if kind not in seen:
                seen.add(kind)
                failing.append({"kind": kind, "input": {"history": h, "step": step, "ops": describe(h)}, "observed": text})
    # the reader's side of (I3): a descriptor is read as the specification says (scale flag and offset flag each on its own)
    descs = [bytes.fromhex(s_["input"]["descriptor"]) for s_ in seeds if s_.get("input", {}).get("descriptor")]
    for b in descs + spec_descriptors(ctx.rng, ctx.n(300, 3000)):
        bad = judge_descriptor(b)
        ctx.count("descriptor judged by the specification" if spec_decode(b) is not None else "descriptor the specification leaves open")
        if bad and bad[0] not in seen:
            seen.add(bad[0])
            failing.append({"kind": bad[0], "input": {"descriptor": b.hex()}, "observed": bad[1]})
    return failing[:24]


def replay(ctx, data):
    h = data.get("failing_input", {}).get("input", {}).get("history")
    desc = data.get("failing_input", {}).get("input", {}).get("descriptor")
    if desc and not h:
        bad = judge_descriptor(bytes.fromhex(desc))
        print(f"REPRODUCED: {bad[0]}: {bad[1]}" if bad else "not reproduced")
        return 1 if bad else 0
    if not h:
        print("nothing to replay")
        return 0
    res = oracle(h, run_impl(h))
    for kind, step, text in res:
        print(f"REPRODUCED: {kind} at step {step}: {text}")
    if not res:
        print("not reproduced")
    return 1 if res else 0
