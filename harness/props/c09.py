"""C09 — bit-packed sub-fields are exact and isolated.
Model: Model/SubField.v over the masks of Gen/GenDims.v and the translated least_significant_bit_set.
Correspondence: exhaustive per element (every format x sub-field x 256 prior bytes x a value sweep) through real
PackedPointRecords, plus random index expressions. Search: the property on the implementation."""
import numpy as np

from harness import common

ASSUMPTIONS = ["numpy resolves an index expression (slice, mask, index list, integer) to positions; the model receives the positions"]


def sub_fields():
    import laspy.point.dims as dims
    out = []
    for fmt in sorted(dims.POINT_FORMAT_DIMENSIONS.keys()):
        for composed, subs in dims.COMPOSED_FIELDS[fmt].items():
            for sf in subs:
                out.append((fmt, sf.name, composed, int(sf.mask)))
    return out


def values(ctx):
    base = list(range(-20, 41)) + [63, 64, 127, 128, 255, 256, 257, -128, -129, -255, -256, 2 ** 31 - 1, -2 ** 31, 2 ** 31, 2 ** 63 - 1, -2 ** 63]
    if ctx.thorough():
        base = list(range(-300, 301)) + base[61:]
    return sorted(set(base))


def fresh_record(fmt, rng, n=256):
    import laspy
    rec = laspy.PackedPointRecord.zeros(n, laspy.PointFormat(fmt))
    raw = np.frombuffer(bytes(rng.getrandbits(8) for _ in range(n * rec.array.dtype.itemsize)), dtype=np.uint8).copy()
    rec.array = raw.view(rec.array.dtype).copy()
    return rec


def impl_column(fmt, name, composed, v, rng):
    """assign v to the sub-field of 256 points whose composed byte is 0..255; returns ('ok', bytes of composed, others_equal) | ('err', kind, unchanged)"""
    rec = fresh_record(fmt, rng)
    rec.array[composed] = np.arange(256, dtype=np.uint8)
    before = rec.array.copy()
    try:
        rec[name][:] = v
    except Exception as ex:
        return ("err", common.exc_kind(ex), before.tobytes() == rec.array.tobytes())
    after = rec.array
    others = all(before[f].tobytes() == after[f].tobytes() for f in before.dtype.names if f != composed)
    return ("ok", bytes(after[composed].tobytes()), others)


_ARR_FAILS = []


def correspond(ctx):
    ctx.extra["rule"] = ("exhaustive per element: every (format, sub-field) x all 256 prior bytes x values {-20..40, byte/int32/int64 extremes} "
                         "(thorough: -300..300) assigned through rec[name][:] = v on real PackedPointRecords with random other "
                         "dimensions; random index expressions (slices with steps, boolean masks, index lists with duplicates, single "
                         "index, numpy-typed scalars and arrays). non-trivial = in-range value on a prior byte whose sibling bits are "
                         "not all zero, or an out-of-range value; distinct by (mask, prior byte, value)")
    sfs = sub_fields()
    vals = values(ctx)
    masks = sorted({m for _, _, _, m in sfs})
    cmds = [f"sf_col {m} {v}" for m in masks for v in vals]
    outs = dict(zip(cmds, common.run_model(cmds)))
    dis = []
    for fmt, name, composed, m in sfs:
        for v in vals:
            mo = outs[f"sf_col {m} {v}"]
            im = impl_column(fmt, name, composed, v, ctx.rng)
            ctx.traces += 1
            ctx.evaluations += 255
            ctx.case((m, v), nontrivial=True, sample={"format": fmt, "field": name, "value": v, "model": mo[:24] + "..."})
            ctx.count("in-range" if not mo.startswith("err") else "out-of-range")
            if mo.startswith("err"):
                ok = im[0] == "err" and "err:" + im[1] == mo and im[2]
            else:
                ok = im[0] == "ok" and im[1] == common.unhex(mo) and im[2]
            if not ok:
                dis.append({"kind": f"assign {name} fmt{fmt} value {'negative' if v < 0 else 'too large' if mo.startswith('err') else 'in range'}",
                            "input": {"format": fmt, "field": name, "value": v}, "model": mo[:40], "impl": str(im)[:80]})
    # index expressions
    n_arr = ctx.n(400, 4000)
    cases = []
    for _ in range(n_arr):
        fmt, name, composed, m = ctx.rng.choice(sfs)
        maxv = m >> ((m & -m).bit_length() - 1)
        n = ctx.rng.choice([1, 2, 5, 17])
        rec = fresh_record(fmt, ctx.rng, n)
        kind = ctx.rng.choice(["all", "slice", "mask", "list", "int"])
        if kind == "all":
            key, pos = slice(None), list(range(n))
        elif kind == "slice":
            a, b, st = ctx.rng.randrange(-n, n + 1), ctx.rng.randrange(-n, n + 2), ctx.rng.choice([1, 2, 3, -1, -2])
            key = slice(a, b, st)
            pos = list(range(n))[key]
        elif kind == "mask":
            mk = np.array([ctx.rng.random() < 0.5 for _ in range(n)])
            key, pos = mk, [i for i in range(n) if mk[i]]
        elif kind == "list":
            pos = [ctx.rng.randrange(n) for _ in range(ctx.rng.randrange(1, 6))]
            key = list(pos)
        else:
            i = ctx.rng.randrange(n)
            key, pos = i, [i]
        bad = ctx.rng.random() < 0.25
        scalar = kind == "int" or ctx.rng.random() < 0.4
        def rv():
            if bad and ctx.rng.random() < 0.6:
                return ctx.rng.choice([maxv + 1, -1, 255, -7, maxv + 17, 256, 257, 256 + maxv, -256, -255, 65536, 2 ** 32])
            return ctx.rng.randrange(maxv + 1)
        if scalar:
            v = rv()
            vlist = [v] * len(pos)
            value = ctx.rng.choice([v, np.int64(v), np.int16(v) if -2 ** 15 <= v < 2 ** 15 else v])
        else:
            vlist = [rv() for _ in pos]
            value = ctx.rng.choice([list(vlist), np.array(vlist, dtype=np.int64), np.array(vlist, dtype=np.int16) if all(-2 ** 15 <= v < 2 ** 15 for v in vlist) else np.array(vlist, dtype=np.int64)])
        if not pos:
            continue   # empty selection: numpy-level no-op, or the value check alone (covered per element)
        before = rec.array.copy()
        try:
            rec[name][key] = value
            im = ("ok", bytes(rec.array[composed].tobytes()))
        except Exception as ex:
            im = ("err", common.exc_kind(ex))
        others = all(before[f].tobytes() == rec.array[f].tobytes() for f in before.dtype.names if f != composed)
        if im[0] == "err":
            others = others and before[composed].tobytes() == rec.array[composed].tobytes()
        # the property itself on this case (no model involved), kept for the failing-input search
        lsb = (m & -m).bit_length() - 1
        oob = any(v > maxv or v < 0 for v in vlist)
        why = None
        if oob:
            if im != ("err", "EOverflow"):
                why = f"out-of-range value in {vlist} through a {kind} index with a {type(value).__name__} value was not refused ({im[0]})"
            elif not others:
                why = "record modified although OverflowError was raised"
        else:
            if im[0] != "ok":
                why = f"in-range assignment refused: {im}"
            else:
                got = np.frombuffer(im[1], dtype=np.uint8)
                last = {}
                for p_, v_ in zip(pos, vlist):
                    last[p_] = v_
                for i_ in range(n):
                    exp_b = (int(before[composed][i_]) & ~m & 0xFF) | ((last[i_] << lsb) if i_ in last else (int(before[composed][i_]) & m))
                    if int(got[i_]) != exp_b:
                        why = f"point {i_}: byte {int(got[i_]):#04x}, expected {exp_b:#04x}"
                        break
                if not others:
                    why = "another dimension changed"
        if why:
            _ARR_FAILS.append({"kind": f"index expression {kind} {'out-of-range' if oob else 'in-range'}",
                               "input": {"format": fmt, "field": name, "index": str(key)[:60], "value": str(value)[:80], "value_type": type(value).__name__ + (":" + str(getattr(value, "dtype", "")))},
                               "observed": why})
        sel = ",".join(f"{p}:{v}" for p, v in zip(pos, vlist)) or "-"
        cases.append((f"sf_arr {m} {common.hexb(before[composed].tobytes())} {sel}", im, others, (fmt, name, kind, str(key)[:40], str(value)[:60])))
        ctx.count("index:" + kind)
    outs2 = common.run_model([c[0] for c in cases])
    for (cmd, im, others, desc), mo in zip(cases, outs2):
        ctx.traces += 1
        ctx.case(cmd, nontrivial=True)
        if mo.startswith("ok "):
            ok = im == ("ok", common.unhex(mo.split()[1])) and others
        else:
            ok = im[0] == "err" and "err " + im[1] == mo and others
        if not ok:
            dis.append({"kind": f"index expression {desc[2]}", "input": {"desc": desc, "cmd": cmd}, "model": mo, "impl": str(im)})
    return dis


def oracle_element(fmt, name, composed, m, v, rng):
    """property on the implementation, no model involved"""
    lsb = (m & -m).bit_length() - 1
    maxv = m >> lsb
    im = impl_column(fmt, name, composed, v, rng)
    if 0 <= v <= maxv:
        if im[0] != "ok":
            return f"in-range value {v} refused ({im[1]})"
        got = np.frombuffer(im[1], dtype=np.uint8)
        b = np.arange(256, dtype=np.uint8)
        if not np.array_equal((got & m) >> lsb, np.full(256, v)):
            return f"value {v} does not read back"
        if not np.array_equal(got & (~m & 0xFF), b & (~m & 0xFF)):
            bad = int(np.nonzero((got & (~m & 0xFF)) != (b & (~m & 0xFF)))[0][0])
            return f"sibling bits changed: prior byte {bad:#04x} became {int(got[bad]):#04x} after {name} = {v}"
        if not im[2]:
            return "another dimension changed"
    else:
        if im[0] != "err" or im[1] != "EOverflow":
            return f"out-of-range value {v} not refused with OverflowError ({im[0]} {im[1] if im[0] == 'err' else ''})"
        if not im[2]:
            return f"out-of-range value {v} modified the record before raising"
    return None


def oracle_special(rng):
    """aliasing and empty-selection cases of the property, on the implementation"""
    out = []
    for fmt, name, composed, m in sub_fields():
        lsb = (m & -m).bit_length() - 1
        maxv = m >> lsb
        n = 9
        rec = fresh_record(fmt, rng, n)
        vals = np.array(rec[name]).copy()
        full = rec.array.copy()
        # a live view of the same field as the value: v[:] = v, v[:] = v[::-1], shifted overlapping slices
        rec[name][:] = rec[name]
        if rec.array.tobytes() != full.tobytes():
            out.append((f"self-assignment {name}", {"format": fmt, "field": name}, f"{name}[:] = {name} changed the record"))
        rec = fresh_record(fmt, rng, n); vals = np.array(rec[name]).copy(); other = rec.array.copy()
        rec[name][:] = rec[name][::-1]
        if not np.array_equal(np.array(rec[name]), vals[::-1]):
            out.append((f"reversed self-assignment {name}", {"format": fmt, "field": name}, f"{name}[:] = {name}[::-1] gave {np.array(rec[name]).tolist()} expected {vals[::-1].tolist()}"))
        rec = fresh_record(fmt, rng, n); vals = np.array(rec[name]).copy()
        setattr(rec, name, rec[name])
        if not np.array_equal(np.array(rec[name]), vals):
            out.append((f"attribute self-assignment {name}", {"format": fmt, "field": name}, "rec.f = rec.f changed the field"))
        # the packed record is resized between two assignments (a cached view of the old array would swallow the second one)
        rec = fresh_record(fmt, rng, n)
        _ = rec[name]
        rec.resize(n + 3)
        rec[name][:] = maxv
        if not np.array_equal(np.array(rec[name]), np.full(n + 3, maxv)) or not np.array_equal((rec.array[composed] & m) >> lsb, np.full(n + 3, maxv)):
            out.append((f"assignment after resize {name}", {"format": fmt, "field": name}, f"after resize(), {name}[:] = {maxv} did not reach the record's packed bytes"))
        rec.resize(2)
        rec[name] = np.array([0, maxv])
        if ((rec.array[composed] & m) >> lsb).tolist() != [0, maxv]:
            out.append((f"assignment after resize {name}", {"format": fmt, "field": name}, "after shrinking, the assignment did not reach the record"))
        # per-point values through the list-of-names form
        rec = fresh_record(fmt, rng, n)
        want = np.array([rng.randrange(maxv + 1) for _ in range(n)])
        rec[[name]] = want
        if not np.array_equal(np.array(rec[name]), want):
            out.append((f"list-of-names assignment {name}", {"format": fmt, "field": name, "values": want.tolist()}, f"rec[[{name!r}]] = values stored {np.array(rec[name]).tolist()}"))
        rec = fresh_record(fmt, rng, n); before = rec.array.tobytes()
        bad = want.copy(); bad[n // 2] = maxv + 1
        try:
            rec[[name]] = bad
            out.append((f"list-of-names out-of-range {name}", {"format": fmt, "field": name}, "an out-of-range value in the middle of the array was not refused"))
        except OverflowError:
            if rec.array.tobytes() != before:
                out.append((f"list-of-names out-of-range {name}", {"format": fmt, "field": name}, "record modified although OverflowError was raised"))
        except Exception as ex:
            out.append((f"list-of-names out-of-range {name}", {"format": fmt, "field": name}, f"raised {type(ex).__name__}"))
        # every OTHER sub-field of the format, read by name, keeps its values (two fields sharing a bit would fail here)
        rec = fresh_record(fmt, rng, 64)
        others = {o[1]: np.array(rec[o[1]]).copy() for o in sub_fields() if o[0] == fmt and o[1] != name}
        rec[name][:] = np.array([rng.randrange(maxv + 1) for _ in range(64)])
        for on, ov in others.items():
            if not np.array_equal(np.array(rec[on]), ov):
                out.append((f"sibling {on} changed by {name}", {"format": fmt, "field": name, "sibling": on}, f"assigning {name} changed the values of {on}"))
                break
        # out-of-range value with a selection that addresses nothing
        for key, kd in ((np.zeros(n, dtype=bool), "mask matching nothing"), (slice(0, 0), "empty slice")):
            for v in (maxv + 1, -1):
                rec = fresh_record(fmt, rng, n); before = rec.array.tobytes()
                try:
                    rec[name][key] = v
                    out.append((f"out-of-range with empty selection {name}", {"format": fmt, "field": name, "value": v, "key": kd}, f"{name}[{kd}] = {v} did not raise OverflowError"))
                except OverflowError:
                    pass
                except Exception as ex:
                    out.append((f"out-of-range with empty selection {name}", {"format": fmt, "field": name, "value": v, "key": kd}, f"raised {type(ex).__name__}"))
                if rec.array.tobytes() != before:
                    out.append((f"empty selection modified {name}", {"format": fmt, "field": name}, "record modified"))
    return out


def search(ctx, seeds):
    failing, seen = [], set()
    for f in _ARR_FAILS:
        if f["kind"] not in seen:
            seen.add(f["kind"])
            failing.append(f)
    for kind, inp, why in oracle_special(ctx.rng):
        k = kind.split(" ")[0] + " " + kind.split(" ")[1]
        if k not in seen:
            seen.add(k)
            failing.append({"kind": kind, "input": inp, "observed": why})
    for fmt, name, composed, m in sub_fields():
        for v in values(ctx):
            why = oracle_element(fmt, name, composed, m, v, ctx.rng)
            if why:
                kind = f"assign {name} value {'negative' if v < 0 else 'too large' if v > (m >> ((m & -m).bit_length() - 1)) else 'in range'}"
                if kind not in seen:
                    seen.add(kind)
                    failing.append({"kind": kind, "input": {"format": fmt, "field": name, "value": v}, "observed": why})
    return failing[:8]


def replay(ctx, data):
    inp = data.get("failing_input", {}).get("input")
    if not inp or "field" not in inp:
        print("nothing to replay")
        return 0
    sf = [s for s in sub_fields() if s[0] == inp["format"] and s[1] == inp["field"]][0]
    why = oracle_element(sf[0], sf[1], sf[2], sf[3], inp["value"], ctx.rng)
    print("REPRODUCED: " + why if why else "not reproduced")
    return 1 if why else 0
