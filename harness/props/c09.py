"""C09 — bit-packed sub-fields are exact and isolated.
Model: Model/SubField.v over the masks of Gen/GenDims.v and the translated least_significant_bit_set.
Correspondence: exhaustive per element (every format x sub-field x 256 prior bytes x a value sweep) through real
PackedPointRecords, plus random index expressions, plus HISTORIES (Model/SubFieldRec.v, own driver lasmodel_c09):
sessions of operations on one record reached through every public path (PackedPointRecord / ScaleAwarePointRecord /
LasData; rec[name], rec.name, old laspy names, sub-records, views derived by slicing views, whole-dimension
assignment with growth / broadcast, copy_fields_from onto the current content).
WORLDS (round 4; Model/SubFieldRec.v `wstep`): SEVERAL record objects the API hands out as distinct point sets, alive at the
same time - every chunk of a reader (chunk_iterator / read_points / read, sources with and without readinto), laspy.read,
laspy.mmap (twice on one file; the file itself), records built from bytes or over one bytearray (from_buffer), rec[slice] /
las[slice] (views), rec[mask] / rec[index list] (copies), copy(), records built on rec.array, LasData(header, points=rec),
las.points = rec, from_point_record / convert, SubFieldViews kept in a variable - then the operations above on any of them:
after EVERY step EVERY object is compared, byte for byte, with what it must hold (an assignment on A changes B exactly where B
is a view of the addressed points of A).
READ ROUTES (round 5; Model/SubFieldRec.v `route`): "reads back the assigned values" is judged through EVERY way a caller reads
a sub-field - np.array / np.asarray with every dtype (bool, int8..uint64, float16..64, every spelling), view[i] / view[slice] /
view[mask] / view[index list] and selections of those, list / iteration / in, view.max() / min() with and without arguments,
np.max / min / sum / unique / count_nonzero / nonzero / sort / bincount / cumsum / mean ..., ufuncs and reductions, arithmetic,
the six comparisons on both sides with ints / numpy scalars / floats / bools / lists / arrays / live views, copy(), repr(), the
view's packed bytes; obj[name], obj.name, the old names, las.points[name], las.points.name, obj[selection][name] - against
(byte & mask) >> lsb decoded from the raw bytes of the record in Python: after EVERY step of every history and world (a
rotating subset of the routes), and in a systematic sweep of every format x sub-field x adversarial sibling bits (all ones, all
zeros, alternating, the bytes - so the higher siblings - ordered opposite to the field, random), followed by assignments of
adversarial values to every sibling of the byte (all routes). The routes the model has are compared with the implementation's.
LAYOUTS (round 6; Model/SubFieldRec.v `resolve`, `xread`, `xassign_sub`): every generator above also draws point layouts WITH
EXTRA DIMENSIONS named like a sub-field of the format, like an old laspy alias of one, like a sub-field of the other format
family (legal: the packed array has no field of that name), of every type, scaled or not - in memory, read from a file (the
extra bytes VLR), as the source and the destination of copy_fields_from / convert / from_point_record: every assignment and
read route by NAME must still address the bits of the packed byte, out-of-range values must still be refused, the extra
bytes (and every other dimension) must keep their values. The lookup of the model is compared with what rec[name] hands out.
KEPT HANDLES (round 6): worlds also contain the operations of a LasData / record that are not assignments but might rebind or
reallocate the array: update_header, LasData.write (also after the header got other offsets / scales: the writer rescales
X, Y, Z in place and puts them back), LasWriter.write_points by a writer with other scales / offsets (also with a failing
destination), change_scaling, add / remove_extra_dim(s), resize. What the unchanged code does is pinned in OWorld: the first
group leaves the array where it is - SubFieldViews, slices, records taken EARLIER stay attached and an assignment through
them reads back in the LasData (and the other way round); the second gives the object a new array - earlier handles stay
on the old memory. Judged after every step, on every live object.
STATE SHARED IN THE PROCESS (round 7; Model/SubFieldRec.v `wattr`, `wrun7`): worlds hold objects of BOTH format families at once
(a second record / LasData of another layout, "mem" with its own "fmt"), and a new step assigns - by attribute and by item -
a NAME that is no dimension of the object it is assigned to but is one elsewhere (overlap / scanner_channel on formats 0-5, a
standard dimension the format lacks, a dimension of another live object, a user's name): no point of any object may change,
and the sub-field assignments made before and after on the objects where the name IS a sub-field must hold on the bytes of
the record (family_worlds: every pairing of the two families, both orders of the history). The model looks an attribute name
up in the layout of the assigned object only (wattr). Every failing world / history that is reported is re-run in a NEW python
process: one that fails only after earlier worlds of the run is reported with such a world as its "before" history.
Search: the property on the implementation (a Python statement of the expected bytes, no model involved)."""
import json

import numpy as np

from harness import common

DRIVER = "c09"
ASSUMPTIONS = ["numpy resolves an index expression (slice, mask, index list, integer) to positions; the model receives the positions",
               "a slice of a numpy array (and of a SubFieldView / point record built on it) is a view: the harness resolves a chain of slices to positions with Python's range(n)[slice], the model composes them",
               "read routes: the model's conversions (wrap_int, as_bool) and reductions (list_max, list_min, list_sum, unique) are numpy's astype / max / min / sum / unique on the unpacked uint8 values; the correspondence compares them on every case, the oracle states them in Python integers",
               "layouts: an extra dimension is only ever named by a name that is not a field of the array of its format (numpy refuses a second field of one name); the extra bytes are 'other dimensions' for the model (it sees the packed columns and the list of field names)",
               "kept handles: which LasData / record operation keeps the array in place (write, rescaling write, update_header, change_scaling) and which rebinds it (add / remove extra dimensions, resize, growth) is read off the unchanged code and pinned in OWorld; X, Y, Z after change_scaling are taken from the implementation (not this property's subject)",
               "state shared in the process: the worlds of one run share one python process (that is what exposes state kept in the library between objects); a reported failing world is confirmed in a process of its own, with the earlier world it needs as its 'before' history",
               "worlds: which API route gives a view and which gives memory of its own is read off the unchanged code and pinned in OWorld (harness) / the WSlice-WGather-WNew choice of the model command; two mmaps of one file and the file are one memory (MAP_SHARED, Linux page cache); a reader sees the file as it was when it was opened"]


def sub_fields():
    import laspy.point.dims as dims
    out = []
    for fmt in sorted(dims.POINT_FORMAT_DIMENSIONS.keys()):
        for composed, subs in dims.COMPOSED_FIELDS[fmt].items():
            for sf in subs:
                out.append((fmt, sf.name, composed, int(sf.mask)))
    return out


def values(ctx):
    base = list(range(-20, 41)) + [63, 64, 127, 128, 255, 256, 257, -128, -129, -255, -256, 2 ** 31 - 1, -2 ** 31, 2 ** 31, 2 ** 63 - 1, -2 ** 63]
    if ctx.thorough():
        base = list(range(-300, 301)) + base[61:]
    return sorted(set(base))


# ---------------------------------------------------------------------------------------------------------------------
# round 6: LAYOUTS - a point format is an id (int) or an id with extra dimensions, written "<id>+<name>:<type>[:s]+..."
# (":s" = a scaled extra dimension). An extra dimension may be named like a sub-field of the format, like an old laspy alias
# of one, or like a sub-field of the other format family: legal (the packed record has no FIELD of that name) - the name
# still addresses the bits of the packed byte (PackedPointRecord.__getitem__: sub-field table first), the extra bytes are
# reached through rec.array[name] only. Everything below that takes `fmt` takes a layout.
# ---------------------------------------------------------------------------------------------------------------------
EXTRA_TYPES = ["uint8", "uint16", "int32", "float64", "uint16", "uint8", "int8", "uint64"]


def base_fmt(fmt):
    return fmt if isinstance(fmt, int) else int(str(fmt).split("+")[0])


def extras_of(fmt):
    """[(name, type, scaled)]"""
    if isinstance(fmt, int):
        return []
    out = []
    for tok in str(fmt).split("+")[1:]:
        parts = tok.split(":")
        out.append((parts[0], parts[1], len(parts) > 2))
    return out


def layout(base, extras):
    extras = list(extras)
    if not extras:
        return int(base)
    return "+".join([str(int(base))] + [f"{n}:{t}" + (":s" if sc else "") for n, t, sc in extras])


def extra_params(fmt, only=None):
    import laspy
    return [laspy.ExtraBytesParams(n, t, scales=np.array([0.5]), offsets=np.array([10.0])) if sc else laspy.ExtraBytesParams(n, t)
            for n, t, sc in (extras_of(fmt) if only is None else only)]


def point_format(fmt):
    """a NEW PointFormat object of the layout"""
    import laspy
    pf = laspy.PointFormat(base_fmt(fmt))
    for prm in extra_params(fmt):
        pf.add_extra_dimension(prm)
    return pf


def las_of(fmt):
    """an empty LasData of the layout (laspy.create, then the header is given the extra dimensions)"""
    import laspy
    las = laspy.create(point_format=base_fmt(fmt))
    if extras_of(fmt):
        las.header.add_extra_dims(extra_params(fmt))
        las.__dict__["_points"] = laspy.ScaleAwarePointRecord.zeros(0, header=las.header)
    return las


def clash_names(base):
    """names an extra dimension may take that meet the sub-field lookup: the sub-fields of the format, their old laspy
    aliases, sub-fields of the other family, a neutral name - minus the names that are fields of the array (numpy refuses
    a second field of one name)"""
    tab, _ = fmt_table(base)
    names = [nm for nm, _, _ in tab]
    names += [OLD_NAMES[nm] for nm in names if nm in OLD_NAMES]
    other, _ = fmt_table(0 if base >= 6 else 6)
    names += [nm for nm, _, _ in other if nm not in names]
    fields = set(_dtype(base).names)
    return [nm for nm in names if nm not in fields]


def gen_extras(rng, base, must=None):
    """0-3 extra dimensions for a layout of format `base`; must = a name that has to be among them"""
    names = clash_names(base)
    k = rng.choice([1, 1, 2, 3])
    picked = ([must] if must else []) + rng.sample([nm for nm in names if nm != must], k)
    picked = picked[:3]
    if rng.random() < 0.5:
        picked.insert(rng.randrange(len(picked) + 1), "quality")
    return [(nm, rng.choice(EXTRA_TYPES), rng.random() < 0.15) for nm in picked]


def gen_layout(rng, base=None, p=0.25):
    base = rng.randrange(11) if base is None else base
    return layout(base, gen_extras(rng, base)) if rng.random() < p else base


def fits(extras, base):
    """the extra dimensions can be carried by format `base` (no name is a field of its array)"""
    fields = set(_dtype(base).names)
    return all(nm not in fields for nm, _, _ in extras)


def fresh_record(fmt, rng, n=256):
    import laspy
    rec = laspy.PackedPointRecord.zeros(n, point_format(fmt))
    rec.array = rand_array(rng, rec.array.dtype, n)
    return rec


def rand_bytes(rng, k):
    return rng.getrandbits(8 * k).to_bytes(k, "little") if k else b""


def rand_array(rng, dtype, n):
    return np.frombuffer(rand_bytes(rng, n * dtype.itemsize), dtype=np.uint8).copy().view(dtype).copy()


def impl_column(fmt, name, composed, v, rng, clash=None):
    """assign v to the sub-field of 256 points whose composed byte is 0..255; returns ('ok', bytes of composed, others_equal) | ('err', kind, unchanged)"""
    # (for one value in four the layout carries an extra dimension named like the sub-field)
    if clash is None:
        clash = v % 4 == 1
    rec = fresh_record(layout(fmt, [(name, EXTRA_TYPES[v % len(EXTRA_TYPES)], False)]) if clash else fmt, rng)
    rec.array[composed] = np.arange(256, dtype=np.uint8)
    before = rec.array.copy()
    try:
        rec[name][:] = v
    except Exception as ex:
        return ("err", common.exc_kind(ex), before.tobytes() == rec.array.tobytes())
    after = rec.array
    others = all(before[f].tobytes() == after[f].tobytes() for f in before.dtype.names if f != composed)
    return ("ok", bytes(after[composed].tobytes()), others)


_ARR_FAILS = []


def correspond(ctx):
    ctx.extra["rule"] = ("exhaustive per element: every (format, sub-field) x all 256 prior bytes x values {-20..40, byte/int32/int64 extremes} "
                         "(thorough: -300..300) assigned through rec[name][:] = v on real PackedPointRecords with random other "
                         "dimensions; random index expressions (slices with steps, boolean masks, index lists with duplicates, single "
                         "index, numpy-typed scalars and arrays). non-trivial = in-range value on a prior byte whose sibling bits are "
                         "not all zero, or an out-of-range value; distinct by (mask, prior byte, value). "
                         "HISTORIES: sessions of 1-4 operations on one record of 0-8 points with random bytes, held by a PackedPointRecord, a "
                         "ScaleAwarePointRecord or a LasData and reached by rec[name] / rec.name / old laspy names / las.points / a sliced "
                         "sub-record: view assignments through a chain of 0-3 slices (one-element, whole, empty, reversed, strided) and a "
                         "final key (all, ..., slice, mask, index list/array, int, numpy int, out-of-bounds index) with scalar / list / tuple / "
                         "typed-array values in or out of range; whole-dimension assignments rec[name] = seq (same length, LONGER = the record "
                         "grows, one element = broadcast, shorter = refused, empty) through setitem / setattr / list-of-names; "
                         "copy_fields_from a random record of the same or the other format family (same length, longer, shorter, one point, "
                         "empty) onto the current content; plus the chunk-by-chunk fill of every sub-field and repeated copies into a "
                         "preallocated record. After every operation the whole record is compared with the model's history and with the "
                         "property (expected bytes, length, untouched other dimensions, zero appended points). "
                         "WORLDS: 2-8 objects alive together, made by chunk_iterator / read_points / read (path, BytesIO, file object, "
                         "read()-only source; laspy.open and the LasReader constructor; equal-size chunks, seek), laspy.read, laspy.mmap "
                         "(several of one file), records from bytes / over one bytearray (from_buffer with offsets), slices and selections "
                         "of records and of LasData, copy(), records and LasData built on another record's array, las.points = rec, "
                         "from_point_record / convert to any format, kept SubFieldViews, dropped objects; then view / whole-dimension / "
                         "copy_fields_from operations (also from a live record of the same memory) on any object: after every step every "
                         "live object and the mapped file are compared with the expected bytes (all dimensions) and, per packed column, "
                         "with the model's world; non-trivial = at least two record objects alive. "
                         "READ ROUTES: after every step of every history / world the assigned field and a sibling of its byte (after a copy: three "
                         "sub-fields; every kept SubFieldView) are read through a rotating subset of ~100 routes (always: np.array, "
                         "np.asarray dtype=bool + one int + one float type, view[i], list, max / min as method and as numpy function, sum, unique, "
                         "count_nonzero, comparisons, a slice and a fancy selection of the view, a second way to reach the view, a selection of the "
                         "record) and compared with (byte & mask) >> lsb decoded from the raw bytes; SWEEP: every format x sub-field, records of "
                         "2-12 points (thorough 1-64) whose packed bytes are descending / ascending (the field assigned in the opposite order), "
                         "all ones, all zeros, alternating 0xFF/0x00 and 0xAA/0x55, random; the field assigned through all / ... / slice / mask / "
                         "index array / setitem / setattr; then every sibling of the byte assigned ordered / constant / alternating / random "
                         "values: after every step ~600 routes of the field in each of the 6 ways to reach its view, and the model's routes "
                         "(array, max, min, sum, count, unique, bool, 8 integer types, items, 36 comparisons) of every field of the byte. "
                         "LAYOUTS (round 6): one case in four of every generator above uses a point layout with 1-4 extra dimensions "
                         "named like a sub-field of the format / an old alias / a sub-field of the other family / 'quality', of 8 types, "
                         "15% scaled (for one value in four of the exhaustive sweep: an extra dimension named like the assigned field); "
                         "sources of copy_fields_from share some of them; the model's name lookup is compared with the object rec[name] / "
                         "las[name] hands out for every sub-field name, alias, field and extra name on 5-13 layouts per format x 3 hosts. "
                         "KEPT HANDLES (round 6): per format a LasData with two kept SubFieldViews and a slice, then update_header / write / "
                         "write after header.offsets or .scales changed / a writer with other scaling (also failing) / change_scaling / resize / "
                         "add-remove extra dims, each followed by an assignment through every kept handle and on the LasData; the same "
                         "steps at random in 12% of the steps of the random worlds. "
                         "STATE SHARED IN THE PROCESS (round 7): 11 worlds (thorough: 30) pairing an object of format 0-5 with one of 6-10 "
                         "(LasData / records, layouts with extra dimensions), where overlap / scanner_channel / a user's name are assigned by "
                         "attribute and by item on the object where they are no dimension before, between and after in-range and out-of-range "
                         "assignments of those sub-fields on the other object; 30% of the random worlds hold a second object of the other "
                         "family and 30% of their steps assign a name that is no dimension of its object (a sub-field / dimension of another "
                         "layout or live object, a user's name); every object's bytes are compared after every step; a reported world is "
                         "confirmed in a python process of its own")
    sfs = sub_fields()
    vals = values(ctx)
    masks = sorted({m for _, _, _, m in sfs})
    cmds = [f"sf_col {m} {v}" for m in masks for v in vals]
    outs = dict(zip(cmds, common.run_model(cmds)))
    dis = []
    for fmt, name, composed, m in sfs:
        for v in vals:
            mo = outs[f"sf_col {m} {v}"]
            im = impl_column(fmt, name, composed, v, ctx.rng)
            ctx.traces += 1
            ctx.evaluations += 255
            ctx.case((m, v), nontrivial=True, sample={"format": fmt, "field": name, "value": v, "model": mo[:24] + "..."})
            ctx.count("in-range" if not mo.startswith("err") else "out-of-range")
            if mo.startswith("err"):
                ok = im[0] == "err" and "err:" + im[1] == mo and im[2]
            else:
                ok = im[0] == "ok" and im[1] == common.unhex(mo) and im[2]
            if not ok:
                dis.append({"kind": f"assign {name} fmt{fmt} value {'negative' if v < 0 else 'too large' if mo.startswith('err') else 'in range'}",
                            "input": {"format": fmt, "field": name, "value": v}, "model": mo[:40], "impl": str(im)[:80]})
    # index expressions
    n_arr = ctx.n(400, 4000)
    cases = []
    for _ in range(n_arr):
        fmt, name, composed, m = ctx.rng.choice(sfs)
        maxv = m >> ((m & -m).bit_length() - 1)
        n = ctx.rng.choice([1, 2, 5, 17])
        lf = layout(fmt, gen_extras(ctx.rng, fmt, must=name)) if ctx.rng.random() < 0.25 else fmt
        rec = fresh_record(lf, ctx.rng, n)
        kind = ctx.rng.choice(["all", "slice", "mask", "list", "int"])
        if kind == "all":
            key, pos = slice(None), list(range(n))
        elif kind == "slice":
            a, b, st = ctx.rng.randrange(-n, n + 1), ctx.rng.randrange(-n, n + 2), ctx.rng.choice([1, 2, 3, -1, -2])
            key = slice(a, b, st)
            pos = list(range(n))[key]
        elif kind == "mask":
            mk = np.array([ctx.rng.random() < 0.5 for _ in range(n)])
            key, pos = mk, [i for i in range(n) if mk[i]]
        elif kind == "list":
            pos = [ctx.rng.randrange(n) for _ in range(ctx.rng.randrange(1, 6))]
            key = list(pos)
        else:
            i = ctx.rng.randrange(n)
            key, pos = i, [i]
        bad = ctx.rng.random() < 0.25
        scalar = kind == "int" or ctx.rng.random() < 0.4
        def rv():
            if bad and ctx.rng.random() < 0.6:
                return ctx.rng.choice([maxv + 1, -1, 255, -7, maxv + 17, 256, 257, 256 + maxv, -256, -255, 65536, 2 ** 32])
            return ctx.rng.randrange(maxv + 1)
        if scalar:
            v = rv()
            vlist = [v] * len(pos)
            value = ctx.rng.choice([v, np.int64(v), np.int16(v) if -2 ** 15 <= v < 2 ** 15 else v])
        else:
            vlist = [rv() for _ in pos]
            value = ctx.rng.choice([list(vlist), np.array(vlist, dtype=np.int64), np.array(vlist, dtype=np.int16) if all(-2 ** 15 <= v < 2 ** 15 for v in vlist) else np.array(vlist, dtype=np.int64)])
        if not pos:
            continue   # empty selection: numpy-level no-op, or the value check alone (covered per element)
        before = rec.array.copy()
        try:
            rec[name][key] = value
            im = ("ok", bytes(rec.array[composed].tobytes()))
        except Exception as ex:
            im = ("err", common.exc_kind(ex))
        others = all(before[f].tobytes() == rec.array[f].tobytes() for f in before.dtype.names if f != composed)
        if im[0] == "err":
            others = others and before[composed].tobytes() == rec.array[composed].tobytes()
        # the property itself on this case (no model involved), kept for the failing-input search
        lsb = (m & -m).bit_length() - 1
        oob = any(v > maxv or v < 0 for v in vlist)
        why = None
        if oob:
            if im != ("err", "EOverflow"):
                why = f"out-of-range value in {vlist} through a {kind} index with a {type(value).__name__} value was not refused ({im[0]})"
            elif not others:
                why = "record modified although OverflowError was raised"
        else:
            if im[0] != "ok":
                why = f"in-range assignment refused: {im}"
            else:
                got = np.frombuffer(im[1], dtype=np.uint8)
                last = {}
                for p_, v_ in zip(pos, vlist):
                    last[p_] = v_
                for i_ in range(n):
                    exp_b = (int(before[composed][i_]) & ~m & 0xFF) | ((last[i_] << lsb) if i_ in last else (int(before[composed][i_]) & m))
                    if int(got[i_]) != exp_b:
                        why = f"point {i_}: byte {int(got[i_]):#04x}, expected {exp_b:#04x}"
                        break
                if not others:
                    why = "another dimension changed"
        if why:
            _ARR_FAILS.append({"kind": f"index expression {kind} {'out-of-range' if oob else 'in-range'}",
                               "input": {"format": lf, "field": name, "index": str(key)[:60], "value": str(value)[:80], "value_type": type(value).__name__ + (":" + str(getattr(value, "dtype", "")))},
                               "observed": why})
        sel = ",".join(f"{p}:{v}" for p, v in zip(pos, vlist)) or "-"
        cases.append((f"sf_arr {m} {common.hexb(before[composed].tobytes())} {sel}", im, others, (fmt, name, kind, str(key)[:40], str(value)[:60])))
        ctx.count("index:" + kind)
    outs2 = common.run_model([c[0] for c in cases])
    for (cmd, im, others, desc), mo in zip(cases, outs2):
        ctx.traces += 1
        ctx.case(cmd, nontrivial=True)
        if mo.startswith("ok "):
            ok = im == ("ok", common.unhex(mo.split()[1])) and others
        else:
            ok = im[0] == "err" and "err " + im[1] == mo and others
        if not ok:
            dis.append({"kind": f"index expression {desc[2]}", "input": {"desc": desc, "cmd": cmd}, "model": mo, "impl": str(im)})
    dis += correspond_lookup(ctx)
    dis += correspond_sessions(ctx)
    dis += correspond_routes(ctx)
    dis += correspond_worlds(ctx)
    return dis


def impl_lookup(obj, rec, name):
    """what obj[name] addresses, read off the object it returns (the memory it is a view of):
    sub:<composed>:<mask> | field:<name> | none (numpy's ValueError)"""
    import laspy.point.dims as dims
    try:
        v = obj[name]
    except ValueError:
        return "none"
    arr = rec.array

    def where(a):
        a = np.asarray(a)
        ptr = a.__array_interface__["data"][0]
        for f in arr.dtype.names:
            col = arr[f]
            if col.__array_interface__["data"][0] == ptr and col.dtype == a.dtype and col.strides == a.strides:
                return f
        return "?"
    if isinstance(v, dims.SubFieldView):
        return f"sub:{where(v.array)}:{int(v.bit_mask)}"
    if isinstance(v, dims.ScaledArrayView):
        return "field:" + where(v.array)
    return "field:" + where(v)


def correspond_lookup(ctx):
    """round 6: the name lookup (Model/SubFieldRec.v `resolve`) against what rec[name] / las[name] hand out, on layouts with
    extra dimensions named like sub-fields, like aliases, like sub-fields of the other family"""
    import laspy.point.dims as dims
    cmds, meta, early = [], [], {}
    every = sorted({nm for _, nm, _, _ in sub_fields()}) + sorted(dims.OLD_LASPY_NAMES) + ["quality", "nope", "x", "X", "classification"]
    for base in range(11):
        tab, cols = fmt_table(base)
        layouts = [base] + [layout(base, gen_extras(ctx.rng, base, must=nm)) for nm in ctx.rng.sample(clash_names(base), ctx.n(4, 12))]
        for lf in layouts:
            for hostkind in HOSTS:
                raw = rand_bytes(ctx.rng, 2 * _itemsize(lf))
                try:
                    host = Host(hostkind, lf, raw)
                except Exception as ex:                           # (LasData reads return_number when it is given its points)
                    if "creating" not in early:
                        early["creating"] = {"kind": "name lookup: creating the record raised", "input": {"layout": lf, "host": hostkind, "raw": raw.hex()},
                                             "model": "a record", "impl": f"{type(ex).__name__}: {str(ex)[:100]}"}
                    continue
                rec = host.record()
                names = [nm for nm in every + cols + [x[0] for x in extras_of(lf)] if not (hostkind != "packed" and nm in ("x", "y", "z"))]
                cmds.append(f"sf_lookup {base} {','.join(rec.array.dtype.names)} {','.join(names)}")
                meta.append((lf, hostkind, names, [impl_lookup(host.obj, rec, nm) for nm in names]))
                ctx.count("lookup:" + ("extra-dims" if extras_of(lf) else "plain"))
    dis, seen = list(early.values()), set()
    for (lf, hostkind, names, impl), cmd, mo in zip(meta, cmds, common.run_model(cmds, name=DRIVER)):
        ctx.traces += 1
        ctx.evaluations += len(names)
        ctx.case(cmd, nontrivial=bool(extras_of(lf)), sample={"lookup": {"layout": lf, "cmd": cmd[:120], "model": mo[:120]}} if extras_of(lf) and len(ctx.samples) < 4 else None)
        mvals = mo.split(";")
        for j, nm in enumerate(names):
            mv = mvals[j] if j < len(mvals) else mo[:80]
            if mv != impl[j]:
                clashing = nm in [x[0] for x in extras_of(lf)]
                kind = "name lookup" + (" (an extra dimension has the name)" if clashing else "")
                if kind not in seen:
                    seen.add(kind)
                    dis.append({"kind": kind, "input": {"layout": lf, "host": hostkind, "name": nm}, "model": mv, "impl": impl[j]})
    return dis


# =====================================================================================================================
# histories: sessions of operations on one record, through every public path
# =====================================================================================================================
OLD_NAMES = {"return_number": "return_num", "number_of_returns": "num_returns",
             "scan_direction_flag": "scan_dir_flag", "edge_of_flight_line": "edge_flight_line"}
HOSTS = ["packed", "scaled", "las"]


def fmt_table(fmt):
    """[(sub-field name, composed dimension, mask)] in the order of the format's dimensions, [composed names]"""
    import laspy.point.dims as dims
    tab = []
    for composed, subs in dims.COMPOSED_FIELDS[base_fmt(fmt)].items():
        for sf in subs:
            tab.append((sf.name, composed, int(sf.mask)))
    cols = []
    for _, c, _ in tab:
        if c not in cols:
            cols.append(c)
    return tab, cols


def lsb_of(m):
    return (m & -m).bit_length() - 1


class Host:
    """a point record holding given raw bytes, reached the way a user reaches it"""

    def __init__(self, kind, fmt, raw):
        import laspy
        self.kind, self.fmt = kind, fmt
        pf = point_format(fmt)
        arr = np.frombuffer(raw, dtype=np.uint8).copy().view(pf.dtype()).copy()
        if kind == "packed":
            self.obj = self.rec = laspy.PackedPointRecord(arr, pf)
        elif kind == "scaled":
            self.obj = self.rec = laspy.ScaleAwarePointRecord(arr, pf, [1.0, 1.0, 1.0], [0.0, 0.0, 0.0])
        else:
            las = las_of(fmt)
            las.points = laspy.ScaleAwarePointRecord(arr, las.header.point_format, las.header.scales, las.header.offsets)
            self.obj = las
            self.rec = None

    def record(self):
        return self.obj.points if self.kind == "las" else self.rec

    def raw(self):
        return self.record().array.tobytes()

    def n(self):
        return len(self.record().array)


def mk_key(k):
    t = k["k"]
    if t == "all":
        return slice(None)
    if t == "ellipsis":
        return Ellipsis
    if t == "slice":
        return slice(*k["v"])
    if t == "mask":
        return np.array(k["v"], dtype=bool)
    if t == "list":
        return list(k["v"])
    if t == "arr":
        return np.array(k["v"], dtype=np.int64)
    if t == "npint":
        return np.int64(k["v"])
    if t == "range":
        return range(*k["v"])
    return int(k["v"])


def mk_value(v):
    t = v["t"]
    if t == "int":
        return int(v["v"])
    if t == "bool":
        return bool(v["v"])
    if t == "np":
        return np.dtype(v["dtype"]).type(v["v"])
    if t == "list":
        return [int(x) for x in v["v"]]
    if t == "tuple":
        return tuple(int(x) for x in v["v"])
    return np.array(v["v"], dtype=v["dtype"])


def value_list(v):
    """the assigned values as python ints: (is_scalar, [ints])"""
    if v["t"] in ("int", "bool", "np"):
        return True, [int(v["v"])]
    return False, [int(x) for x in v["v"]]


def materialise(fmt, raw, op):
    """round 6: in-place operators. `obj.name += k` / `obj[name] -= k` is a whole-dimension assignment of the field's CURRENT
    values plus / minus k (Python: getattr, __iadd__ or __add__ of the view, setattr): the operation is given the values it
    must assign on the state it starts from (key "delta" keeps how it is performed)"""
    if op.get("op") != "seq" or op["value"].get("t") != "delta":
        return op
    tab, _ = fmt_table(fmt)
    c, m = {nm: (c, m) for nm, c, m in tab}[op["field"]]
    _, cols = unpack_state(fmt, raw)
    k = int(op["value"]["v"])
    return {**op, "delta": k, "value": {"t": "array", "dtype": "int64", "v": [((b & m) >> lsb_of(m)) + k for b in cols[c]]}}


def apply_op(host, op):
    """run one operation on the implementation; returns 'ok' or 'err:<kind>'"""
    import laspy
    try:
        if op["op"] == "view":
            name = op["field"]
            obj = host.obj
            path = op["path"]
            if path.startswith("points_"):
                obj, path = host.record(), path[len("points_"):]
            if "subrec" in op:
                obj = host.record()[slice(*op["subrec"])]
            if path == "item":
                view = obj[name]
            elif path == "attr":
                view = getattr(obj, name)
            elif path == "old":
                view = obj[OLD_NAMES[name]]
            else:
                view = getattr(obj, OLD_NAMES[name])
            for s in op["chain"]:
                view = view[slice(*s)]
            view[mk_key(op["key"])] = mk_value(op["value"])
        elif op["op"] == "seq":
            name, path, value = op["field"], op["path"], mk_value(op["value"])
            obj = host.obj
            if path.startswith("points_"):
                obj, path = host.record(), path[len("points_"):]
            if "delta" in op:
                # exactly what Python does for `obj.name += k` / `obj[name] -= k`
                k = op["delta"]
                get, put = ((lambda: getattr(obj, name)), (lambda v: setattr(obj, name, v))) if path in ("setattr", "old_attr") else (
                    (lambda: obj[name]), (lambda v: obj.__setitem__(name, v)))
                if path in ("old", "old_attr"):
                    name = OLD_NAMES[name]
                v = get()
                v = operator.iadd(v, k) if k >= 0 else operator.isub(v, -k)
                put(v)
            elif path == "setitem":
                obj[name] = value
            elif path == "setattr":
                setattr(obj, name, value)
            elif path == "names":
                obj[[name]] = value
            elif path == "old":
                obj[OLD_NAMES[name]] = value
            else:
                setattr(obj, OLD_NAMES[name], value)
        else:
            spf = point_format(op["sfmt"])
            src = laspy.PackedPointRecord(np.frombuffer(bytes.fromhex(op["src"]), dtype=np.uint8).copy().view(spf.dtype()).copy(), spf)
            host.record().copy_fields_from(src)
        return "ok"
    except Exception as ex:
        return "err:" + common.exc_kind(ex)


def resolve_key(k, L):
    """positions (in a view of length L) a key addresses, in numpy's order; None = IndexError"""
    t = k["k"]
    if t in ("all", "ellipsis"):
        return list(range(L))
    if t == "slice":
        return list(range(L))[slice(*k["v"])]
    if t == "mask":
        return [i for i, b in enumerate(k["v"]) if b]
    idx = k["v"] if t in ("list", "arr") else list(range(*k["v"])) if t == "range" else [k["v"]]
    out = []
    for i in idx:
        if not -L <= i < L:
            return None
        out.append(i % L)
    return out


def view_positions(op, n):
    """base positions of the (derived) view the assignment goes through, and the chain as index lists"""
    pos, chain = list(range(n)), []
    for s in ([op["subrec"]] if "subrec" in op else []) + list(op["chain"]):
        idx = list(range(len(pos)))[slice(*s)]
        chain.append(idx)
        pos = [pos[i] for i in idx]
    return pos, chain


def unpack_state(fmt, raw):
    dt = _dtype(fmt)
    arr = np.frombuffer(raw, dtype=np.uint8).view(dt)
    tab, cols = fmt_table(fmt)
    return arr, {c: [int(b) for b in arr[c]] for c in cols}


def expect_op(fmt, raw, op):
    """THE PROPERTY, stated on bytes: (status, {composed: bytes} expected after the operation, new length).
    Python arithmetic only; neither the Coq model nor laspy's sub-field code is used."""
    import laspy
    arr, cols = unpack_state(fmt, raw)
    n = len(arr)
    tab, _ = fmt_table(fmt)
    by_name = {nm: (c, m) for nm, c, m in tab}

    def put(col, b, m, v):
        col[b] = (col[b] & ~m & 0xFF) | (v << lsb_of(m))

    def assign_seq(cols, n, name, vs):
        """rec[name] = vs -> (status, cols, n)"""
        c, m = by_name[name]
        maxv = m >> lsb_of(m)
        if not vs:
            return "ok", cols, n
        if any(v > maxv or v < 0 for v in vs):
            return "err:EOverflow", cols, n                      # refused: nothing modified, not grown
        k = max(n, len(vs))
        if len(vs) != k and len(vs) != 1:
            return "err:EValue", cols, n                         # shapes differ: refused, nothing modified
        new = {cc: list(bs) + [0] * (k - n) for cc, bs in cols.items()}      # appended points are zero
        for i in range(k):
            put(new[c], i, m, vs[i] if len(vs) == k else vs[0])
        return "ok", new, k

    if op["op"] == "view":
        c, m = by_name[op["field"]]
        maxv = m >> lsb_of(m)
        pos, _ = view_positions(op, n)
        scalar, vs = value_list(op["value"])
        if any(v > maxv or v < 0 for v in vs):
            return "err:EOverflow", cols, n
        idx = resolve_key(op["key"], len(pos))
        if idx is None:
            return "err:EIndex", cols, n
        new = {cc: list(bs) for cc, bs in cols.items()}
        for j, i in enumerate(idx):
            put(new[c], pos[i], m, vs[0] if scalar or len(vs) == 1 else vs[j])
        return "ok", new, n
    if op["op"] == "seq":
        _, vs = value_list(op["value"])
        return assign_seq(cols, n, op["field"], vs)
    # copy_fields_from: one whole-dimension assignment per sub-field name of the destination, in its order
    sarr, scols = unpack_state(op["sfmt"], bytes.fromhex(op["src"]))
    stab, _ = fmt_table(op["sfmt"])
    sby = {nm: (c, m) for nm, c, m in stab}
    status = "ok"
    if len(sarr) > n:
        # X, Y, Z ... precede the sub-fields in every format and are always copied: the record has already grown
        cols = {cc: list(bs) + [0] * (len(sarr) - n) for cc, bs in cols.items()}
        n = len(sarr)
    for name, _, _ in tab:
        if name in sby:
            sc, sm = sby[name]
            vs = [(b & sm) >> lsb_of(sm) for b in scols[sc]]
        elif name in _dtype(base_fmt(op["sfmt"])).names:         # a standard dimension of the source (not an extra one)
            vs = [int(x) for x in sarr[name]]
        else:
            continue                                             # the source lacks it
        st, cols, n = assign_seq(cols, n, name, vs)
        if st == "err:EOverflow":
            status = st
            break                                                # OverflowError leaves copy_fields_from
    return status, cols, n


def check_op(fmt, raw_before, op, status, raw_after):
    """compare what the implementation did with the property; returns None or a description of the violation"""
    import laspy
    exp_status, exp_cols, exp_n = expect_op(fmt, raw_before, op)
    before, _ = unpack_state(fmt, raw_before)
    after, got_cols = unpack_state(fmt, raw_after)
    tab, cols = fmt_table(fmt)
    if status != exp_status:
        return f"outcome {status}, expected {exp_status}"
    if len(after) != exp_n:
        return f"the record has {len(after)} points afterwards, expected {exp_n}" + (" (refused assignment)" if status != "ok" else "")
    for c in cols:
        if got_cols[c] != exp_cols[c]:
            i = [a != b for a, b in zip(got_cols[c], exp_cols[c])].index(True)
            return (f"{c}[{i}] = {got_cols[c][i]:#04x}, expected {exp_cols[c][i]:#04x}"
                    + (" although the assignment was refused" if status != "ok" else "")
                    + (" (appended point)" if i >= len(before) else ""))
    if op["op"] != "copy":
        for f in before.dtype.names:
            if f in cols:
                continue
            if after[f][:len(before)].tobytes() != before[f].tobytes():
                return f"dimension {f} of the existing points changed"
            if np.any(after[f][len(before):] != 0):
                return f"dimension {f} of the appended points is not zero"
    # every sub-field reads back what its bits say
    return None


# ---------------------------------------------------------------------------------------------------------------------
# round 5: READ ROUTES - "reads back the assigned values" judged through EVERY way a caller reads a sub-field
# ---------------------------------------------------------------------------------------------------------------------
# The expected values are decoded from the raw bytes of the record (tobytes + the offset of the composed dimension in the
# dtype), (byte & mask) >> lsb in Python integers: no laspy code, no numpy arithmetic. Every route below must give them:
#   np.array / np.asarray (with and without dtype=: bool, every int / uint width, float16/32/64, spelled as numpy types,
#   Python types, strings, np.dtype objects), view.copy(), view[i] (Python / numpy index, negative), view[slice] /
#   view[mask] / view[index list] and slices of those, list(view) / iteration / `in`, len / shape / ndim,
#   view.max() / view.min() (with and without arguments), max() / min() / sorted() of Python,
#   np.max / min / sum / unique / count_nonzero / nonzero / any / all / argmax / argmin / sort / bincount / cumsum / mean /
#   where / isin / array_equal / concatenate / take (through __array_function__), ufuncs and their reductions (through
#   __array_ufunc__), the arithmetic operators, the six comparisons (both sides) with Python ints / numpy scalars / floats /
#   bools / lists / arrays / live views, repr(); and the ways to reach the view: obj[name], obj.name, the old laspy names,
#   las.points[name], las.points.name, obj[selection][name].
import operator
import zlib

ROUTE_DTYPES = [np.bool_, np.int8, np.int16, np.int32, np.int64, np.uint8, np.uint16, np.uint32, np.uint64,
                np.float16, np.float32, np.float64]
DTYPE_SPELLINGS = [bool, int, float, "?", "bool", "b1", "i1", "u1", "<i2", "<u4", "i8", "f4", "f8", "float64", "uint8",
                   "int32", np.intp, np.uintp, np.longlong, np.half, np.bool_]
CMP_OPS = [("<", operator.lt), ("<=", operator.le), (">=", operator.ge), (">", operator.gt), ("==", operator.eq), ("!=", operator.ne)]
MODEL_CMP = {"<": 0, "<=": 1, ">=": 2, ">": 3, "==": 4, "!=": 5}


def conv(v, dt):
    """numpy's conversion of a small non-negative integer to dtype dt, in Python"""
    k = dt.kind
    if k == "b":
        return v != 0
    if k == "u":
        return v % (1 << (8 * dt.itemsize))
    if k == "i":
        bits = 8 * dt.itemsize
        r = v % (1 << bits)
        return r - (1 << bits) if r >= 1 << (bits - 1) else r
    return float(v)


def packed_bytes(rec, c):
    """the composed byte of every point, read off the raw bytes of the record"""
    arr = rec.array
    raw, sz, off = arr.tobytes(), arr.dtype.itemsize, arr.dtype.fields[c][1]
    return [raw[i * sz + off] for i in range(len(raw) // sz)]


def _norm(x):
    if isinstance(x, tuple):
        return tuple(_norm(y) for y in x)
    if isinstance(x, list):
        return [_norm(y) for y in x]
    if isinstance(x, (np.ndarray, np.generic)):
        return x.tolist()
    if hasattr(x, "__array__"):
        return np.array(x).tolist()                               # a derived view
    return x


class _Pick:
    """deterministic choices (a failing input must fail again when it is replayed)"""

    def __init__(self, salt):
        self.s = salt & 0xFFFFFFFF

    def _next(self):
        self.s = (self.s * 1103515245 + 12345) & 0x7FFFFFFF
        return self.s >> 8

    def choice(self, seq):
        return seq[self._next() % len(seq)]

    def some(self, seq, k):
        seq = list(seq)
        if len(seq) <= k:
            return seq
        out = []
        for _ in range(k):
            out.append(seq.pop(self._next() % len(seq)))
        return out


def cmp_constants(maxv, level, pk):
    """(type name, constant) operands of a comparison: level 2 = every value once per form in rotation and every form once"""
    cs = [-1, 0, 1, maxv, maxv + 1, max(0, maxv // 2), 255, 256, -300, 1000]

    def forms(c):
        fs = [("int", c), ("np.int64", np.int64(c)), ("float", float(c)), ("float", c + 0.5), ("np.float32", np.float32(c))]
        if 0 <= c <= 255:
            fs.append(("np.uint8", np.uint8(c)))
        if -128 <= c <= 127:
            fs.append(("np.int8", np.int8(c)))
        if c in (0, 1):
            fs += [("bool", bool(c)), ("np.bool_", np.bool_(c))]
        return fs
    if level == 0:
        return [("int", pk.choice(cs))]
    if level == 1:
        return [pk.choice(forms(c)) for c in pk.some(cs, 2)]
    out = []
    for c in cs:
        fs = forms(c)
        out.append(fs[0])
        out.extend(pk.some(fs[1:], 2))
    return out + forms(1) + forms(maxv)


def _slices_of(n, level, pk):
    sl = [slice(None), slice(None, None, -1), slice(None, None, 2), slice(1, None, 2), slice(0, 0), slice(n // 2, None),
          slice(None, max(1, n // 2)), slice(n - 1, n), slice(-2, None), slice(None, None, -3), slice(1, -1)]
    return sl if level == 2 else pk.some(sl, 1)


def routes(v, want, maxv, level, pk, others=None, depth=0):
    """(label, thunk, expected value, dtype the result must have or None) for the read routes of the view v, whose values
    must be `want`. level 0: one route per method of the view (used for derived views and the secondary ways to reach a view),
    1: the routes after every step of a history, 2: everything. others = {name: (live view, its values)} of sub-fields of
    the same record (operands of comparisons)."""
    W = list(want)
    n = len(W)
    full = level == 2
    yield "np.array(view)", (lambda: np.array(v)), W, None
    if level:
        yield "np.asarray(view)", (lambda: np.asarray(v)), W, None
    for D in (ROUTE_DTYPES if full else [np.bool_] + pk.some(ROUTE_DTYPES[1:9], 1) + (pk.some(ROUTE_DTYPES[9:], 1) if level else [])):
        dt = np.dtype(D)
        exp = [conv(x, dt) for x in W]
        yield f"np.asarray(view, dtype={dt.name})", (lambda D=D: np.asarray(v, dtype=D)), exp, dt
        if full:
            yield f"np.array(view, dtype={dt.name})", (lambda D=D: np.array(v, dtype=D)), exp, dt
    for D in (DTYPE_SPELLINGS if full else pk.some(DTYPE_SPELLINGS, 1) if level else []):
        dt = np.dtype(D)
        yield f"np.array(view, dtype={D!r}, copy=True)", (lambda D=D: np.array(v, dtype=D, copy=True)), [conv(x, dt) for x in W], dt
    yield "view.copy()", (lambda: v.copy()), W, None
    for meth in ("astype", "tolist"):                              # if the view ever gets them
        if hasattr(v, meth):
            yield f"view.{meth}", (lambda meth=meth: getattr(v, meth)(*([np.int64] if meth == "astype" else []))), W, None
    if level:
        yield "view.array (the packed bytes) masked and shifted by hand", (
            lambda: [(int(b) & int(v.bit_mask)) >> int(v.lsb) for b in np.asarray(v.array).reshape(-1).tolist()]), W, None
    if np.ndim(v.array) != 1:
        return
    yield "list(view)", (lambda: list(v)), W, None
    yield "len(view)", (lambda: len(v)), n, None
    if level:
        yield "[int(x) for x in view]", (lambda: [int(x) for x in v]), W, None
        yield "view.shape", (lambda: tuple(v.shape)), (n,), None
    if full:
        yield "view.ndim", (lambda: v.ndim), 1, None
        yield "tuple(iter(view))", (lambda: tuple(iter(v))), tuple(W), None
        yield "repr(view)", (lambda: repr(v)), f"<SubFieldView({np.array(W, dtype=np.uint8)})>", None
        for c in (0, maxv, maxv + 1):
            yield f"{c} in view", (lambda c=c: c in v), c in W, None
    for i in (range(-n, n) if full else pk.some(range(-n, n), 2 if level else 1)):
        yield f"view[{i}]", (lambda i=i: v[i]), W[i], None
        if full or (level and i % 2):
            yield f"view[np.int64({i})]", (lambda i=i: v[np.int64(i)]), W[i], None
            yield f"int(view[{i}]) / bool / float", (lambda i=i: (int(v[i]), bool(v[i]), float(v[i]))), (W[i], W[i] != 0, float(W[i])), None
    if n:
        yield "view.max()", (lambda: v.max()), max(W), None
        yield "view.min()", (lambda: v.min()), min(W), None
        yield "np.max(view)", (lambda: np.max(v)), max(W), None
        yield "np.min(view)", (lambda: np.min(v)), min(W), None
        if level:
            yield "view.max(axis=0)", (lambda: v.max(axis=0)), max(W), None
            yield "view.min(axis=None)", (lambda: v.min(axis=None)), min(W), None
            yield "max(view) / min(view)", (lambda: (max(v), min(v))), (max(W), min(W)), None
            yield "np.maximum.reduce / np.minimum.reduce", (lambda: (np.maximum.reduce(v), np.minimum.reduce(v))), (max(W), min(W)), None
        if full:
            yield "view.max(initial=0)", (lambda: v.max(initial=0)), max(W), None
            yield "np.amax / np.amin", (lambda: (np.amax(v), np.amin(v))), (max(W), min(W)), None
            yield "np.argmax / np.argmin", (lambda: (np.argmax(v), np.argmin(v))), (W.index(max(W)), W.index(min(W))), None
            yield "np.ptp(view)", (lambda: np.ptp(v)), max(W) - min(W), None
    yield "np.sum(view)", (lambda: np.sum(v)), sum(W), None
    yield "np.unique(view)", (lambda: np.unique(v)), sorted(set(W)), None
    if level:
        nz = [i for i, x in enumerate(W) if x]
        yield "np.count_nonzero(view)", (lambda: np.count_nonzero(v)), len(nz), None
        yield "np.nonzero(view)", (lambda: np.nonzero(v)), (nz,), None
        yield "np.add.reduce(view)", (lambda: np.add.reduce(v)), sum(W), None
        yield "np.logical_not(view)", (lambda: np.logical_not(v)), [not x for x in W], None
        yield "view + 0", (lambda: v + 0), W, None
    if full:
        yield "np.any / np.all", (lambda: (np.any(v), np.all(v))), (any(W), all(W)), None
        yield "np.sort(view)", (lambda: np.sort(v)), sorted(W), None
        yield "sorted(view)", (lambda: sorted(v)), sorted(W), None
        yield "np.bitwise_and(view, 1)", (lambda: np.bitwise_and(v, 1)), [x & 1 for x in W], None
        yield "np.where(view) / np.flatnonzero", (lambda: (np.where(v), np.flatnonzero(v))), ((nz,), nz), None
        yield "np.where(view, 1, 0)", (lambda: np.where(v, 1, 0)), [1 if x else 0 for x in W], None
        yield "np.bincount(view)", (lambda: np.bincount(v)), ([W.count(x) for x in range(max(W) + 1)] if W else []), None
        yield "np.cumsum(view)", (lambda: np.cumsum(v)), [sum(W[:i + 1]) for i in range(n)], None
        yield "np.unique(view, return_counts=True)", (lambda: np.unique(v, return_counts=True)), (sorted(set(W)), [W.count(x) for x in sorted(set(W))]), None
        if n:
            yield "np.mean(view)", (lambda: np.mean(v)), sum(W) / n, None
        yield "np.isin(view, [0, maxv])", (lambda: np.isin(v, [0, maxv])), [x in (0, maxv) for x in W], None
        yield "np.array_equal(view, values)", (lambda: np.array_equal(v, np.array(W, dtype=np.int64))), True, None
        yield "np.concatenate([view, view])", (lambda: np.concatenate([v, v])), W + W, None
        yield "np.take(view, [..])", (lambda: np.take(v, list(range(0, n, 2)))), W[0::2], None
        yield "np.add(view, 0) / np.multiply(view, 1)", (lambda: (np.add(v, 0), np.multiply(v, 1))), (W, W), None
        yield "np.add.accumulate(view, dtype=int64)", (lambda: np.add.accumulate(v, dtype=np.int64)), [sum(W[:i + 1]) for i in range(n)], None
        yield "view - 0, view * 1, view // 1", (lambda: (v - 0, v * 1, v // 1)), (W, W, W), None
        yield "view / 1", (lambda: v / 1), [float(x) for x in W], None
    # comparisons, both sides
    for tname, c in cmp_constants(maxv, level, pk):
        every = full and tname == "int"                            # Python ints: the six operators, both sides
        for sym, fn in (CMP_OPS if every else pk.some(CMP_OPS[:4], 1) + pk.some(CMP_OPS[4:], 1)):
            if every or not full or pk.choice([0, 1]):
                yield f"view {sym} {tname}({c})", (lambda fn=fn, c=c: fn(v, c)), [bool(fn(x, c)) for x in W], None
            else:
                yield f"{tname}({c}) {sym} view", (lambda fn=fn, c=c: fn(c, v)), [bool(fn(c, x)) for x in W], None
            if every:
                yield f"{tname}({c}) {sym} view", (lambda fn=fn, c=c: fn(c, v)), [bool(fn(c, x)) for x in W], None
    if level:
        rev = W[::-1]
        for sym, fn in (CMP_OPS if full else pk.some(CMP_OPS, 1)):
            yield f"view {sym} list of its values reversed", (lambda fn=fn: fn(v, rev)), [bool(fn(x, y)) for x, y in zip(W, rev)], None
            yield f"view {sym} int64 array", (lambda fn=fn: fn(v, np.array(rev, dtype=np.int64))), [bool(fn(x, y)) for x, y in zip(W, rev)], None
            yield f"view {sym} view", (lambda fn=fn: fn(v, v)), [bool(fn(x, x)) for x in W], None
            for oname, (ov, ow) in (others or {}).items():
                yield f"view {sym} view of {oname}", (lambda fn=fn, ov=ov: fn(v, ov)), [bool(fn(x, y)) for x, y in zip(W, ow)], None
        yield "np.equal(view, c) / np.less(view, c) / np.greater_equal(c, view)", (
            lambda: (np.equal(v, maxv), np.less(v, maxv), np.greater_equal(1, v))), ([x == maxv for x in W], [x < maxv for x in W], [1 >= x for x in W]), None
    # derived views: every selection of the view is a view of the selected values
    if depth == 0 and level:
        sels = [("view[%s]" % str(sl).replace("slice", ""), sl, W[sl]) for sl in _slices_of(n, level, pk)]
        if n:
            mask = [bool((i * 7 + pk.s) % 3) for i in range(n)]
            idx = [(i * 5 + pk.s) % n for i in range(min(n, 4))] + [-1]
            more = [("view[bool mask]", np.array(mask), [x for x, b in zip(W, mask) if b]),
                    ("view[index list]", list(idx), [W[i] for i in idx]),
                    ("view[index array]", np.array(idx, dtype=np.int64), [W[i] for i in idx]), ("view[...]", Ellipsis, W)]
            sels += more if full else pk.some(more, 1)
        for label, key, dw in sels:
            try:
                dv = v[key]
            except Exception as ex:
                yield label, (lambda ex=ex: (_ for _ in ()).throw(ex)), dw, None
                continue
            for lab2, fn, exp, dt in routes(dv, dw, maxv, 0, pk, None, depth + 1):
                yield label + ": " + lab2.replace("view", "it"), fn, exp, dt
            if full and len(dw) > 1:
                yield label + "[::-1][0]", (lambda dv=dv: dv[::-1][0]), dw[-1], None


class _Why(str):
    """a description of a wrong read, carrying the class of the route (for the `kind` of the failing input)"""
    route = None


def _why(label, text):
    import re
    w = _Why(text)
    w.route = re.sub(r"\[(-?\d+)\]", "[i]", re.sub(r"\((-?[\d.]+)\)", "(c)", re.sub(r"view\[\([^)]*\)\]", "view[slice]", label)))
    return w


def run_routes(v, want, maxv, level, pk, others=None, prefix=""):
    """first route of the view that does not read `want`: a description, or None"""
    for label, fn, exp, dt in routes(v, want, maxv, level, pk, others):
        try:
            got = fn()
        except Exception as ex:
            return _why(label, f"{prefix}{label} raised {type(ex).__name__}: {str(ex)[:80]} (the field holds {list(want)})")
        g = _norm(got)
        if g != exp:
            return _why(label, f"{prefix}{label} reads {str(g)[:120]}, the bits of the field say {str(exp)[:120]}")
        if dt is not None and getattr(got, "dtype", None) != dt:
            return _why(label, f"{prefix}{label} has dtype {getattr(got, 'dtype', None)}")
    return None


VIEW_PATHS = ["item", "attr", "old", "old_attr", "points_item", "points_attr"]


def view_by(host, name, path):
    """the view of a sub-field, reached the way `path` says; None if the path does not exist for this object / name"""
    obj = host.obj
    if path.startswith("points_"):
        if host.kind != "las":
            return None
        obj, path = host.record(), path[len("points_"):]
    if path in ("old", "old_attr") and name not in OLD_NAMES:
        return None
    return (obj[name] if path == "item" else getattr(obj, name) if path == "attr"
            else obj[OLD_NAMES[name]] if path == "old" else getattr(obj, OLD_NAMES[name]))


def check_reads(host, fmt, op=None, level="core", salt=0):
    """every sub-field, read through the routes, agrees with the packed bytes decoded by hand"""
    try:
        return _check_reads(host, fmt, op, level, salt)
    except Exception as ex:
        return _why("raised", f"reading the sub-fields back raised {type(ex).__name__}: {str(ex)[:100]}")


def _check_reads(host, fmt, op, level, salt):
    """level "core" / "core:<name>": the assigned field (<name>) through the level-1 routes and one sibling of its byte through
    the level-0 routes (three random sub-fields after a copy); "full" / "full:<name>": <name> (default: the assigned field)
    through everything, in every way to reach its view, and the siblings of its byte through the level-1 routes ("focus:<name>":
    level-0 routes). Every sub-field is read once through np.array in any case."""
    rec = host.record()
    tab, _ = fmt_table(fmt)
    pk = _Pick(salt)
    by_name = {nm: (c, m) for nm, c, m in tab}
    names = [nm for nm, _, _ in tab]
    main = level.split(":")[1] if ":" in level else (op or {}).get("field")
    full = level.startswith("full") or level.startswith("focus")
    sib_level = 0 if level.startswith("focus") else 1
    if main in by_name:
        sibs = [nm for nm, c, _ in tab if c == by_name[main][0] and nm != main]
        group = [main] + (sibs if full else pk.some(sibs, 1))
    else:
        main = None
        group = names if full else pk.some(names, 3)
    wants = {}
    for name, c, m in tab:
        wants[name] = [(b & m) >> lsb_of(m) for b in packed_bytes(rec, c)]
        got = np.array(rec[name]).astype(np.int64).tolist()
        if got != wants[name]:
            return f"{name} reads {got} while its bits say {wants[name]}"
    n = len(rec.array)
    for name in group:
        c, m = by_name[name]
        maxv = m >> lsb_of(m)
        deep = full and name == (main or name)
        others = {o: (rec[o], wants[o]) for o in (group if deep else pk.some(group, 2)) if o != name}
        lvl1 = pk.choice(VIEW_PATHS[1:3] if host.kind != "las" else VIEW_PATHS[1:2] + VIEW_PATHS[4:])
        for path in (VIEW_PATHS if deep else ["item"] + pk.some(VIEW_PATHS[1:], 1) if (full and sib_level) or name == group[0] else ["item"]):
            v = view_by(host, name, path)
            if v is None:
                continue
            lvl = (2 if deep else sib_level if full else 1 if name == group[0] else 0) if path == "item" else (1 if deep and path == lvl1 else 0)
            why = run_routes(v, wants[name], maxv, lvl, pk, others if path == "item" else None, f"{name} ({path}): ")
            if why:
                return why
        # through ONE point selected by an integer (a 0-d record): obj[i][name]
        if n and name == group[0]:
            for i in sorted({0, n - 1, -1, -n, n // 2}):
                for base, bname in ((host.obj, "obj"), (rec, "points")) if host.kind == "las" else ((rec, "points"),):
                    got = np.array(base[i][name])
                    if got.shape != () or int(got) != wants[name][i]:
                        return _why("obj[i][name]", f"{name} ({bname}[{i}][name]) reads {got.tolist()}, the bits of the field say {wants[name][i]}")
        # through a selection of the points (a new record object): obj[selection][name]
        if n and ((full and sib_level) or name == group[0]):
            sels = [("[::-1]", slice(None, None, -1), wants[name][::-1]), ("[1::2]", slice(1, None, 2), wants[name][1::2]),
                    ("[mask]", np.array([i % 3 != 1 for i in range(n)]), [x for i, x in enumerate(wants[name]) if i % 3 != 1]),
                    ("[[n-1, 0]]", [n - 1, 0], [wants[name][n - 1], wants[name][0]])]
            for label, key, dw in (sels if deep else pk.some(sels, 1)):
                for base, bname in ((host.obj, "obj"), (rec, "points")) if host.kind == "las" and deep else ((rec, "points"),):
                    sub = base[key]
                    why = run_routes(sub[name], dw, maxv, 0, pk, None, f"{name} ({bname}{label}[name]): ")
                    if why:
                        return why
    return None


def classify(fmt, n, op):
    tab, _ = fmt_table(fmt)
    by_name = {nm: (c, m) for nm, c, m in tab}
    if op["op"] == "copy":
        sn = len(bytes.fromhex(op["src"])) // _itemsize(op["sfmt"])
        fam = "same-family" if (base_fmt(op["sfmt"]) >= 6) == (base_fmt(fmt) >= 6) else "cross-family"
        if extras_of(op["sfmt"]) or extras_of(fmt):
            fam += " extra-dims"
        ln = ("empty-source" if sn == 0 else "same-length" if sn == n else "one-point-source" if sn == 1
              else "longer-source" if sn > n else "shorter-source")
        return f"copy {fam} {ln}"
    c, m = by_name[op["field"]]
    maxv = m >> lsb_of(m)
    _, vs = value_list(op["value"])
    rng_ = "out-of-range" if any(v > maxv or v < 0 for v in vs) else "in-range"
    if op["op"] == "seq":
        ln = ("empty" if not vs else "grow" if len(vs) > n else "same" if len(vs) == n else "broadcast" if len(vs) == 1 else "shorter")
        return f"seq {ln} {rng_}"
    pos, chain = view_positions(op, n)
    derived = "derived" if chain else "direct"
    if chain and any(len(ix) == 1 for ix in chain):
        derived += " one-point"
    if resolve_key(op["key"], len(pos)) is None:
        rng_ = rng_ + " bad-index"
    return f"view {derived} {op['key']['k']} {rng_}"


_ITEMSIZE = {}


def _itemsize(fmt):
    import laspy
    if fmt not in _ITEMSIZE:
        _ITEMSIZE[fmt] = point_format(fmt).dtype().itemsize
    return _ITEMSIZE[fmt]


# ---------------------------------------------------------------------------------------------------------------------
# generator
# ---------------------------------------------------------------------------------------------------------------------
def gen_value(rng, count, maxv, bad, scalar):
    """a JSON value descriptor: `count` values (or one scalar); bad = at least one value outside [0, maxv]"""
    oob = [maxv + 1, -1, 255, -7, maxv + 17, 256, 257, 256 + maxv, -256, -255, 65536, 2 ** 32, maxv + 2]

    def one(b):
        return rng.choice(oob) if b else rng.choice([0, maxv, rng.randrange(maxv + 1), rng.randrange(maxv + 1)])
    if scalar:
        v = one(bad)
        kinds = ["int", "np:int64"]
        if 0 <= v <= 255:
            kinds.append("np:uint8")
        if -2 ** 15 <= v < 2 ** 15:
            kinds.append("np:int16")
        if maxv == 1 and v in (0, 1):
            kinds.append("bool")
        k = rng.choice(kinds)
        if k == "int":
            return {"t": "int", "v": v}
        if k == "bool":
            return {"t": "bool", "v": bool(v)}
        return {"t": "np", "dtype": k[3:], "v": v}
    vs = [one(False) for _ in range(count)]
    if bad and count:
        for i in rng.sample(range(count), rng.randrange(1, min(count, 2) + 1)):
            vs[i] = one(True)
    kinds = ["list", "tuple", "array:int64"]
    if all(0 <= v <= 255 for v in vs):
        kinds.append("array:uint8")
    if all(-2 ** 15 <= v < 2 ** 15 for v in vs):
        kinds.append("array:int16")
    if all(-2 ** 31 <= v < 2 ** 31 for v in vs):
        kinds.append("array:int32")
    k = rng.choice(kinds)
    if k in ("list", "tuple"):
        return {"t": k, "v": vs}
    return {"t": "array", "dtype": k[6:], "v": vs}


def gen_slice(rng, L):
    """a slice of a sequence of length L, aimed at one-element / whole / empty / strided selections"""
    r = rng.random()
    if L and r < 0.35:
        a = rng.randrange(L)
        return rng.choice([[a, a + 1, None], [a, a + 1, 1], [a - L, (a - L + 1) or None, None]])        # exactly one element
    if r < 0.5:
        return rng.choice([[None, None, None], [0, None, None], [None, L, 1]])
    if r < 0.6:
        return [None, None, -1]
    if r < 0.65:
        return rng.choice([[0, 0, None], [L, None, None]])
    a, b = rng.randrange(-L - 1, L + 2), rng.randrange(-L - 1, L + 2)
    return [a, b, rng.choice([None, 1, 2, 3, -1, -2])]


def gen_key(rng, L, allow_bad_index):
    r = rng.random()
    if r < 0.22:
        return {"k": "all"}
    if r < 0.27:
        return {"k": "ellipsis"}
    if r < 0.45:
        return {"k": "slice", "v": gen_slice(rng, L)}
    if r < 0.6:
        return {"k": "mask", "v": [rng.random() < 0.5 for _ in range(L)]}
    if L == 0:
        return {"k": "all"}
    if allow_bad_index and rng.random() < 0.08:
        bad = rng.choice([L, -L - 1, L + 5])
        return rng.choice([{"k": "int", "v": bad}, {"k": "list", "v": [0, bad]}, {"k": "arr", "v": [bad]}])
    if r < 0.64:                                               # a Python range as the index (negative bounds too)
        st = rng.choice([1, 1, 2, -1, -2])
        a = rng.randrange(-L, L)
        cnt = 0
        while cnt < 4 and -L <= a + cnt * st < L:
            cnt += 1
        cnt = rng.randrange(1, cnt + 1)                        # (an empty sequence is not an index for numpy)
        return {"k": "range", "v": [a, a + cnt * st, st]}
    if r < 0.8:
        idx = [rng.randrange(-L, L) for _ in range(rng.randrange(1, 6))]
        return {"k": rng.choice(["list", "arr"]), "v": idx}
    return {"k": rng.choice(["int", "npint"]), "v": rng.randrange(-L, L)}


def gen_view_op(rng, fmt, hostkind, n):
    tab, _ = fmt_table(fmt)
    name, c, m = rng.choice(tab)
    maxv = m >> lsb_of(m)
    paths = ["item", "attr"] + (["old", "old_attr"] if name in OLD_NAMES else [])
    path = rng.choice(paths)
    if hostkind == "las" and rng.random() < 0.5:
        path = "points_" + path
    op = {"op": "view", "field": name, "path": path, "chain": []}
    L = n
    if rng.random() < 0.2:
        op["subrec"] = gen_slice(rng, L)
        L = len(range(L)[slice(*op["subrec"])])
        if not op["path"].startswith("points_") and hostkind == "las":
            op["path"] = "points_" + op["path"]
    depth = rng.choice([0, 0, 1, 1, 1, 2, 3])
    for _ in range(depth):
        s = gen_slice(rng, L)
        op["chain"].append(s)
        L = len(range(L)[slice(*s)])
    key = gen_key(rng, L, True)
    idx = resolve_key(key, L)
    count = len(idx) if idx is not None else 1
    bad = rng.random() < 0.2
    scalar = key["k"] in ("int", "npint") or idx is None or rng.random() < 0.45
    if not scalar and count == 0:
        bad = False
    if scalar and count == 0 and bad:
        bad = False            # the value check on a selection addressing nothing: covered by oracle_special
    if key["k"] == "ellipsis" and not scalar and count == 0:
        scalar = True
    op["key"] = key
    op["value"] = gen_value(rng, count, maxv, bad, scalar)
    return op


def gen_seq_op(rng, fmt, hostkind, n):
    tab, _ = fmt_table(fmt)
    name, c, m = rng.choice(tab)
    maxv = m >> lsb_of(m)
    paths = ["setitem", "setattr", "names"] + (["old", "old_attr"] if name in OLD_NAMES else [])
    path = rng.choice(paths)
    if hostkind == "las" and rng.random() < 0.4:
        path = "points_" + path
    r = rng.random()
    if r < 0.4:
        count = n + rng.choice([1, 1, 2, 3, 5])          # the record grows
    elif r < 0.75:
        count = n
    elif r < 0.85:
        count = 1
    elif r < 0.95 and n >= 3:
        count = rng.randrange(2, n)                      # shorter: refused
    else:
        count = 0
    if path.endswith("names") and count == 0:
        path = path.replace("names", "setitem")
    if rng.random() < 0.12:                                  # obj.name += k / obj[name] -= k
        return {"op": "seq", "field": name, "path": path.replace("names", "setitem"),
                "value": {"t": "delta", "v": rng.choice([1, 1, 2, -1, -1, 0, maxv, -maxv])}}
    return {"op": "seq", "field": name, "path": path, "value": gen_value(rng, count, maxv, rng.random() < 0.2 and count > 0, False)}


def gen_copy_op(rng, fmt, n):
    r = rng.random()
    dbase = base_fmt(fmt)
    same = [f for f in range(11) if (f >= 6) == (dbase >= 6)]
    cross = [f for f in range(11) if (f >= 6) != (dbase >= 6)]
    sfmt = rng.choice(same) if r < 0.65 else rng.choice(cross)
    if rng.random() < (0.6 if extras_of(fmt) else 0.08):
        # the source has extra dimensions too: some of the destination's (same type), maybe one more named like a sub-field
        ex = [e for e in extras_of(fmt) if rng.random() < 0.7 and fits([e], sfmt)]
        if rng.random() < 0.5:
            ex += [e for e in gen_extras(rng, sfmt)[:1] if e[0] not in [x[0] for x in extras_of(fmt)]]
        sfmt = layout(sfmt, ex)
    r = rng.random()
    sn = n if r < 0.6 else n + rng.choice([1, 2, 4]) if r < 0.75 else 1 if r < 0.85 else rng.randrange(0, max(n, 1)) if r < 0.97 else 0
    dt = _dtype(sfmt)
    arr = rand_array(rng, dt, sn)
    if base_fmt(sfmt) >= 6 and dbase < 6 and rng.random() < 0.7:
        arr["bit_fields"] &= 0x77                         # values that fit the narrower fields of formats 0-5
        arr["classification"] &= 0x1F
    return {"op": "copy", "sfmt": sfmt, "src": arr.tobytes().hex()}


def gen_session(rng):
    fmt = gen_layout(rng)
    host = rng.choice(HOSTS)
    n = rng.choice([0, 1, 1, 2, 3, 4, 5, 7, 8])
    raw = rand_bytes(rng, n * _itemsize(fmt))
    if rng.random() < 0.1:
        raw = bytes(len(raw))
    ops, cur = [], n
    for _ in range(rng.choice([1, 2, 3, 4])):
        r = rng.random()
        if r < 0.5:
            op = gen_view_op(rng, fmt, host, cur)
        elif r < 0.78:
            op = gen_seq_op(rng, fmt, host, cur)
        else:
            op = gen_copy_op(rng, fmt, cur)
        ops.append(op)
        # the length the record will have if the operation is accepted (the generator follows the property)
        try:
            st, _, cur2 = expect_op(fmt, bytes(cur * _itemsize(fmt)), op) if op["op"] != "view" else ("ok", None, cur)
            cur = cur2
        except Exception:
            pass
    return {"format": fmt, "host": host, "raw": raw.hex(), "ops": ops}


def chunk_sessions(rng):
    """the chunk-by-chunk update pattern: fill a sub-field through slices of its view (last chunk of one point), then
    a preallocated record filled from several chunks with copy_fields_from"""
    out = []
    for fmt in range(11):
        tab, _ = fmt_table(fmt)
        for name, c, m in tab:
            maxv = m >> lsb_of(m)
            n, size = rng.choice([(7, 3), (5, 2), (4, 3), (1, 10), (3, 1)])
            ops = []
            for a in range(0, n, size):
                cnt = min(size, n - a)
                ops.append({"op": "view", "field": name, "path": "item", "chain": [[a, a + size, None]], "key": {"k": "all"},
                            "value": gen_value(rng, cnt, maxv, False, False)})
            lf = layout(fmt, gen_extras(rng, fmt, must=name)) if rng.random() < 0.3 else fmt
            out.append({"format": lf, "host": rng.choice(HOSTS), "raw": rand_bytes(rng, n * _itemsize(lf)).hex(), "ops": ops})
        n = rng.choice([1, 3, 4])
        import laspy
        ops = []
        for _ in range(3):
            sfmt = rng.choice([f for f in range(11) if (f >= 6) == (fmt >= 6)])
            ops.append({"op": "copy", "sfmt": sfmt, "src": rand_array(rng, _dtype(sfmt), n).tobytes().hex()})
        out.append({"format": fmt, "host": rng.choice(HOSTS), "raw": bytes(n * _itemsize(fmt)).hex(), "ops": ops})
    return out


# ---------------------------------------------------------------------------------------------------------------------
# running a session: implementation, property, model command
# ---------------------------------------------------------------------------------------------------------------------
def cols_tok(fmt, raw):
    _, cols = unpack_state(fmt, raw)
    return "|".join(f"{c}={common.hexb(bytes(bs))}" for c, bs in cols.items())


def model_op(fmt, n, op):
    """the operation in the model driver's syntax (positions resolved by the harness, see ASSUMPTIONS)"""
    if op["op"] == "seq":
        _, vs = value_list(op["value"])
        return f"S!{op['field']}!{common.zl(vs)}"
    if op["op"] == "copy":
        import laspy
        sfmt = op["sfmt"]
        raw = bytes.fromhex(op["src"])
        sarr, _ = unpack_state(sfmt, raw)
        stab, _ = fmt_table(sfmt)
        dtab, _ = fmt_table(fmt)
        snames = {nm for nm, _, _ in stab}
        plain = [f"{nm}={common.zl(int(x) for x in sarr[nm])}" for nm, _, _ in dtab if nm not in snames and nm in _dtype(base_fmt(sfmt)).names]
        return f"C!{base_fmt(sfmt)}!{cols_tok(sfmt, raw)}!{'|'.join(plain) or '-'}"
    pos, chain = view_positions(op, n)
    L = len(pos)
    scalar, vs = value_list(op["value"])
    idx = resolve_key(op["key"], L)
    if idx is None:                      # an index outside the view: the model refuses the position L
        k = op["key"]
        idx = [(i % L if -L <= i < L else L) for i in (k["v"] if k["k"] in ("list", "arr") else list(range(*k["v"])) if k["k"] == "range" else [k["v"]])]
    if scalar or len(vs) == 1:
        pairs = [(i, vs[0]) for i in idx]
        if not pairs and vs:             # nothing addressed: only the range check of the value remains (never out of range here)
            pairs = []
    else:
        pairs = list(zip(idx, vs))
    ch = "/".join((",".join(map(str, ix)) or "e") for ix in chain) or "-"
    sel = ",".join(f"{i}:{v}" for i, v in pairs) or "-"
    return f"V!{op['field']}!{ch}!{sel}"


def _level(sess, i):
    """how thoroughly the sub-fields are read back after step i: sess["routes"] = a level, or one per step"""
    lv = sess.get("routes", "core")
    return lv if isinstance(lv, str) else lv[min(i, len(lv) - 1)]


def run_session(sess, observe=None):
    """implementation side: [(raw_before, op, status, raw_after, reads_problem)]"""
    try:
        host = Host(sess["host"], sess["format"], bytes.fromhex(sess["raw"]))
    except Exception as ex:                                       # (LasData reads the sub-fields when it is given its points)
        import traceback
        tb = traceback.extract_tb(ex.__traceback__)
        raw = bytes.fromhex(sess["raw"])
        return [(raw, op, "err:host", raw, f"building the {sess['host']} record over the points raised {type(ex).__name__}: {str(ex)[:100]} "
                 f"(at {tb[-1].filename.split('/laspy/')[-1]}:{tb[-1].lineno})") for op in sess["ops"][:1]]
    steps = []
    for op in sess["ops"]:
        before = host.raw()
        op = materialise(sess["format"], before, op)
        status = apply_op(host, op)
        after = host.raw()
        steps.append((before, op, status, after,
                      check_reads(host, sess["format"], op, _level(sess, len(steps)), zlib.crc32(after))))
        if observe is not None:
            observe(host, op, len(steps) - 1)
    return steps


def session_failures(sess, steps):
    """the property on every step of a session; a failing step is reduced to one operation on the state before it
    when that still fails"""
    out = []
    fmt = sess["format"]
    for i, (before, op, status, after, reads) in enumerate(steps):
        if status == "err:host":
            out.append({"kind": "creating the record raised", "input": {**sess, "ops": sess["ops"][:1]}, "observed": reads})
            break
        why = check_op(fmt, before, op, status, after)
        if not why and not reads:
            continue
        kind = classify(fmt, len(before) // _itemsize(fmt), op)
        if not why:
            why, kind = reads, "read route " + (getattr(reads, "route", None) or "np.array(view)")
        single = {"format": fmt, "host": sess["host"], "raw": before.hex(), "ops": [op]}
        if "routes" in sess:
            single["routes"] = _level(sess, i)
        st1 = run_session(single)
        why1 = check_op(fmt, st1[0][0], op, st1[0][2], st1[0][3]) or st1[0][4]
        if why1:
            out.append({"kind": kind, "input": single, "observed": why1})
        else:
            out.append({"kind": kind + " (history)", "input": {**sess, "ops": sess["ops"][:i + 1]}, "observed": f"step {i}: {why}"})
        break
    return out


_SESSION_FAILS = []


def correspond_sessions(ctx):
    sessions = chunk_sessions(ctx.rng) + [gen_session(ctx.rng) for _ in range(ctx.n(1500, 20000))]
    cmds, runs = [], []
    for sess in sessions:
        fmt = sess["format"]
        steps = run_session(sess)
        _SESSION_FAILS.extend(session_failures(sess, steps))
        mops = []
        for before, op, status, after, _ in steps:
            n = len(before) // _itemsize(fmt)
            mops.append(model_op(fmt, n, op))
            ctx.count("hist:" + classify(fmt, n, op).replace(" in-range", "").replace(" out-of-range", " oob"))
        ctx.count("host:" + sess["host"])
        cmds.append(f"sf_hist {base_fmt(fmt)} {cols_tok(fmt, bytes.fromhex(sess['raw']))} {';'.join(mops)}")
        runs.append((sess, steps))
    outs = common.run_model(cmds, name=DRIVER)
    dis = []
    for (sess, steps), cmd, mo in zip(runs, cmds, outs):
        fmt = sess["format"]
        ctx.traces += len(steps)
        ctx.case(cmd, nontrivial=True, sample={"session": {**sess, "raw": sess["raw"][:32] + "..."}, "model": mo[:80] + "..."} if len(ctx.samples) < 6 and len(sess["ops"]) > 1 else None)
        msteps = mo.split(";")
        if len(msteps) != len(steps):
            dis.append({"kind": "history driver", "input": {"cmd": cmd[:300]}, "model": mo[:200], "impl": f"{len(steps)} steps"})
            continue
        for i, ((before, op, status, after, _), ms) in enumerate(zip(steps, msteps)):
            mstatus, mcols, mreads = ms.split("@")
            host_reads = None
            icols = cols_tok(fmt, after)
            ok = (mstatus == status) and (mcols == icols)
            if ok:
                # the values the model reads per sub-field (rec_read of the theorems) = what the bytes of the implementation say
                _, cols = unpack_state(fmt, after)
                tab, _ = fmt_table(fmt)
                want = "|".join(f"{nm}={common.zl((b & m) >> lsb_of(m) for b in cols[c])}" for nm, c, m in tab)
                ok = want == mreads
            if not ok:
                n = len(before) // _itemsize(fmt)
                dis.append({"kind": "history " + classify(fmt, n, op), "input": {"session": {**sess, "ops": sess["ops"][:i + 1]}, "step": i},
                            "model": (mstatus + " " + mcols)[:200], "impl": (status + " " + icols)[:200]})
                break
    return dis


# ---------------------------------------------------------------------------------------------------------------------
# read routes: the systematic sweep (every format x sub-field x adversarial sibling bits), the model's routes
# ---------------------------------------------------------------------------------------------------------------------
def pattern_bytes(pattern, n, rng):
    """the packed byte of n points BEFORE the field is assigned: what the siblings hold"""
    if pattern == "ones":
        return [0xFF] * n
    if pattern == "zeros":
        return [0x00] * n
    if pattern == "alternating":
        return [0xFF if i % 2 == 0 else 0x00 for i in range(n)]
    if pattern == "aa55":
        return [0xAA if i % 2 == 0 else 0x55 for i in range(n)]
    if pattern == "descending":
        return [(n - 1 - i) * 255 // max(1, n - 1) for i in range(n)]
    if pattern == "ascending":
        return [i * 255 // max(1, n - 1) for i in range(n)]
    return [rng.randrange(256) for _ in range(n)]


def pattern_values(kind, n, maxv, rng):
    """values of one field"""
    if kind == "ascending":
        return [i * maxv // max(1, n - 1) for i in range(n)]
    if kind == "descending":
        return [(n - 1 - i) * maxv // max(1, n - 1) for i in range(n)]
    if kind == "ones":
        return [maxv] * n
    if kind == "zeros":
        return [0] * n
    if kind == "alternating":
        return [maxv if i % 2 == 0 else 0 for i in range(n)]
    if kind == "zero-one-point":
        return [0 if i == n // 2 else rng.randrange(1, maxv + 1) for i in range(n)]
    if kind == "max-one-point":
        return [maxv if i == n // 2 else rng.randrange(maxv) for i in range(n)]
    return [rng.randrange(maxv + 1) for _ in range(n)]


# what the siblings hold x what is assigned to the field: siblings all ones / all zeros / alternating, the bytes (so the
# HIGHER siblings) ordered opposite to the field, random
SWEEP = [("descending", "ascending"), ("ascending", "descending"), ("ones", "zero-one-point"), ("zeros", "max-one-point"),
         ("alternating", "alternating"), ("aa55", "random"), ("random", "random"), ("ones", "zeros"), ("zeros", "ones")]


def whole_assign(rng, name, n, vs, kindhost):
    """an operation that assigns vs to all n points of the sub-field, through one of the index expressions / entry points"""
    r = rng.randrange(7)
    val = {"t": "array", "dtype": rng.choice(["int64", "uint8", "int32"]), "v": vs} if rng.random() < 0.6 else {"t": "list", "v": vs}
    if r < 5:
        idx = list(range(n))
        key = [{"k": "all"}, {"k": "ellipsis"}, {"k": "slice", "v": [0, n, 1]}, {"k": "mask", "v": [True] * n}, {"k": "arr", "v": idx}][r]
        path = rng.choice(["item", "attr"] + (["old"] if name in OLD_NAMES else []))
        if kindhost == "las" and rng.random() < 0.5:
            path = "points_" + path
        return {"op": "view", "field": name, "path": path, "chain": [], "key": key, "value": val}
    return {"op": "seq", "field": name, "path": ["setitem", "setattr"][r - 5], "value": val}


def route_sessions(rng, thorough=False):
    """for every format and sub-field: the field assigned on records whose sibling bits are adversarial (one session per
    pattern), then every sibling of its byte assigned adversarial values through the API while the field must keep reading
    the same through every route"""
    out = []
    for fmt in range(11):
        tab, _ = fmt_table(fmt)
        base = fmt
        for name, c, m in tab:
            # one time in three (thorough: every second sub-field) the layout has an extra dimension named like the field
            fmt = layout(base, gen_extras(rng, base, must=name)) if rng.random() < (0.5 if thorough else 0.34) else base
            sz = _itemsize(fmt)
            off = {c: _dtype(fmt).fields[c][1] for _, c, _ in tab}
            maxv = m >> lsb_of(m)
            sibs = [(nm, mm) for nm, cc, mm in tab if cc == c and nm != name]
            sweep = SWEEP if thorough else SWEEP[:2] + rng.sample(SWEEP[2:], 1)
            for pat, vk in sweep:
                for n in ([1, 2, 5, 12, 64] if thorough else [rng.choice([2, 5, 12, 12])]):
                    raw = bytearray(rand_bytes(rng, n * sz))
                    for cc in off:
                        for i, b in enumerate(pattern_bytes(pat, n, rng)):
                            raw[i * sz + off[cc]] = b
                    host = rng.choice(HOSTS)
                    out.append({"format": fmt, "host": host, "raw": bytes(raw).hex(), "routes": ("full:" if thorough else "focus:") + name,
                                "ops": [whole_assign(rng, name, n, pattern_values(vk, n, maxv, rng), host)]})
            # the siblings move, the field stays
            n = rng.choice([3, 8, 12])
            host = rng.choice(HOSTS)
            vs = pattern_values(rng.choice(["ascending", "descending", "random"]), n, maxv, rng)
            ops = [whole_assign(rng, name, n, vs, host)]
            kinds = ["descending", "ascending", "ones", "zeros", "alternating", "random"]
            for sn, sm in sibs:
                for vk in (kinds if thorough else rng.sample(kinds[:2], 1) + rng.sample(kinds[2:], 1)):
                    ops.append(whole_assign(rng, sn, n, pattern_values(vk, n, sm >> lsb_of(sm), rng), host))
            out.append({"format": fmt, "host": host, "raw": rand_bytes(rng, n * sz).hex(), "ops": ops,
                        "routes": "full:" + name if thorough else ["focus:" + name, "core:" + name]})
    return out


def model_route_tokens(n, maxv):
    toks = ["arr", "max", "min", "sum", "cnt", "uniq", "bool", "i8", "u8", "i16", "u16", "i32", "u32", "i64", "u64"]
    toks += [f"at{i}" for i in sorted({0, n // 2, max(0, n - 1), n})]
    toks += [f"c{op}_{c}" for op in range(6) for c in sorted({-1, 0, 1, maxv, maxv + 1, 256})]
    return toks


def impl_route(v, tok):
    """what the implementation reads through the route the model calls `tok`, in the model driver's syntax"""
    try:
        if tok == "arr":
            r = np.array(v)
        elif tok == "max":
            r = [v.max()]
        elif tok == "min":
            r = [v.min()]
        elif tok == "sum":
            r = [np.sum(v)]
        elif tok == "cnt":
            r = [np.count_nonzero(v)]
        elif tok == "uniq":
            r = np.unique(v)
        elif tok == "bool":
            r = np.asarray(v, dtype=bool)
        elif tok.startswith("at"):
            r = [v[int(tok[2:])]]
        elif tok[0] in "iu":
            r = np.asarray(v, dtype=np.dtype(("int" if tok[0] == "i" else "uint") + tok[1:]))
        else:
            op, c = tok[1:].split("_")
            r = CMP_OPS[int(op)][1](v, int(c))
    except (ValueError, IndexError):
        return "none"
    return common.zl(int(x) for x in np.asarray(r).reshape(-1).tolist())


_ROUTE_FAILS = []
_ROUTES_RAN = []


def correspond_routes(ctx):
    """the sweep on the implementation (failures kept for `search`), and every route the model has, on the bytes the
    implementation holds after every step, against what the implementation reads through that route"""
    sessions = route_sessions(ctx.rng, ctx.thorough())
    cmds, meta = [], []
    for sess in sessions:
        fmt = sess["format"]
        tab, _ = fmt_table(fmt)
        by_name = {nm: (c, m) for nm, c, m in tab}
        focus = _level(sess, 0).split(":")[1]
        group = [focus] + [nm for nm, c, _ in tab if c == by_name[focus][0] and nm != focus]

        def observe(host, op, i, sess=sess, group=group, by_name=by_name):
            rec = host.record()
            for nm in (group if ctx.thorough() else [group[0], group[1 + i % (len(group) - 1)]] if len(group) > 1 else group):
                c, m = by_name[nm]
                bs = packed_bytes(rec, c)
                toks = model_route_tokens(len(bs), m >> lsb_of(m))
                v = rec[nm]
                cmds.append(f"sf_routes {m} {common.hexb(bytes(bs))} {','.join(toks)}")
                meta.append((sess, i, nm, toks, [impl_route(v, t) for t in toks]))
        steps = run_session(sess, observe)
        _ROUTE_FAILS.extend(session_failures(sess, steps))
        ctx.count("routes:" + sess["host"])
        ctx.count("routes:steps", len(steps))
    _ROUTES_RAN.append(True)
    dis = []
    seen = set()
    for (sess, i, nm, toks, impl), cmd, mo in zip(meta, cmds, common.run_model(cmds, name=DRIVER)):
        ctx.traces += 1
        ctx.evaluations += len(toks)
        ctx.case(cmd, nontrivial=True, sample={"routes": {"format": sess["format"], "field": nm, "cmd": cmd[:100], "model": mo[:100]}} if len(ctx.samples) < 9 and i else None)
        mvals = mo.split(";")
        if mvals != impl:
            j = next((j for j in range(min(len(mvals), len(impl))) if mvals[j] != impl[j]), 0)
            kind = "read route " + toks[j].rstrip("-0123456789_") if len(mvals) == len(impl) else "read route driver"
            if kind not in seen:
                seen.add(kind)
                dis.append({"kind": kind, "input": {"session": {**sess, "ops": sess["ops"][:i + 1]}, "field": nm, "route": toks[j]},
                            "model": (mvals[j] if j < len(mvals) else mo)[:200], "impl": impl[j][:200]})
    return dis


def search_routes(ctx):
    """the sweep of the read routes on the implementation (run again only if the correspondence did not get to it)"""
    if _ROUTES_RAN:
        return list(_ROUTE_FAILS)
    out = []
    for sess in route_sessions(ctx.rng, ctx.thorough()):
        out.extend(session_failures(sess, run_session(sess)))
    return out


# =====================================================================================================================
# round 4: WORLDS - several record objects the API hands out as distinct point sets, alive at the same time
# =====================================================================================================================
# What each route hands out is read off the unchanged code and pinned here (OWorld): a record is (memory, positions).
#   own memory  : a record built from bytes; zeros() / empty() / LasData(header) / laspy.create; laspy.read; every chunk of LasReader.read_points / chunk_iterator / read();
#                 rec.copy(); rec[mask] / rec[index list] / rec[index array] / rec[tuple] (numpy advanced indexing);
#                 PackedPointRecord.from_point_record; laspy.convert
#   a view      : rec[slice] and las[slice] (any step, also negative); PackedPointRecord(rec.array, ..) /
#                 ScaleAwarePointRecord(rec.array, ..) / LasData(header, points=rec) (a new record object over the same
#                 array); from_buffer over the same bytearray; laspy.mmap (a view of the FILE's points: two mmaps of one
#                 file, and the file itself, are the same memory); a SubFieldView kept by the caller
#   the object  : las.points (and `las.points = rec` makes rec the record of las)
# A whole-dimension assignment longer than the record (and copy_fields_from a longer record) gives the record NEW memory
# (np.append): from then on it shares nothing; a refused one leaves it attached where it was.
# The property across objects: an assignment on A changes B exactly where B is a view of the addressed points of A
# (same memory, same position) and nowhere else; creating, reading or dropping an object changes no other object.
import gc
import io
import os


class _ReadOnly:
    """a source that offers read/seek/tell only (no readinto)"""

    def __init__(self, data):
        self._b = io.BytesIO(data)

    def read(self, n=-1):
        return self._b.read(n)

    def seek(self, *a):
        return self._b.seek(*a)

    def tell(self):
        return self._b.tell()

    def seekable(self):
        return True

    def close(self):
        pass


class _FailingDest(io.BytesIO):
    """a destination that takes the header and then fails on every write (once armed)"""
    armed = False

    def write(self, b):
        if self.armed and len(b):
            raise OSError("disk full")
        return super().write(b)


_DTYPES = {}


def _dtype(fmt):
    import laspy
    if fmt not in _DTYPES:
        _DTYPES[fmt] = point_format(fmt).dtype()
    return _DTYPES[fmt]


def _dim_order(fmt):
    """dimension names in the order copy_fields_from visits them: the dtype's fields, a composed byte replaced by its sub-fields"""
    tab, _ = fmt_table(fmt)
    out = []
    for f in _dtype(base_fmt(fmt)).names:
        subs = [nm for nm, c, _ in tab if c == f]
        out.extend(subs if subs else [f])
    return out


def expect_raw(fmt, raw, op):
    """THE PROPERTY on whole points: (status, all bytes of the record after the operation). The packed bytes come from
    expect_op; the other dimensions keep their values (appended points are zero), copy_fields_from copies those the
    source has (plain numpy assignment), up to the sub-field whose values do not fit."""
    status, cols, n = expect_op(fmt, raw, op)
    dt = _dtype(fmt)
    old = np.frombuffer(raw, dtype=np.uint8).view(dt)
    new = np.zeros(n, dtype=dt)
    new[:len(old)] = old
    if op["op"] == "copy":
        tab, _ = fmt_table(fmt)
        by_name = {nm: (c, m) for nm, c, m in tab}
        sarr, scols = unpack_state(op["sfmt"], bytes.fromhex(op["src"]))
        stab, _ = fmt_table(op["sfmt"])
        sby = {nm: (c, m) for nm, c, m in stab}

        def src_values(name):
            if name in sby:
                sc, sm = sby[name]
                return np.array([(b & sm) >> lsb_of(sm) for b in scols[sc]], dtype=np.uint8)
            if name in _dtype(base_fmt(op["sfmt"])).names:       # standard dimensions come from standard dimensions only
                return sarr[name]
            return None
        completed = True
        for name in _dim_order(fmt):
            vs = src_values(name)
            if vs is None:
                continue
            if name in by_name:
                c, m = by_name[name]
                if len(vs) and int(vs.max()) > (m >> lsb_of(m)):
                    completed = False
                    break                                        # OverflowError leaves copy_fields_from here
                continue                                         # (the packed bytes are expect_op's)
            try:
                new[name][:] = vs
            except ValueError:
                pass                                             # shapes differ: this dimension is skipped
        # then the extra dimensions, from the EXTRA dimension of that name of the source (the stored values)
        sextra = {nm for nm, _, _ in extras_of(op["sfmt"])}
        for name, _, _ in (extras_of(fmt) if completed else []):
            if name in sextra:
                try:
                    with np.errstate(all="ignore"):
                        new[name][:] = sarr[name]
                except ValueError:
                    pass
    for c, bs in cols.items():
        new[c] = np.array(bs, dtype=np.uint8)
    return status, new.tobytes()


def layout_names(fmt):
    """every name that addresses points of a record of this layout: the fields of the array, the sub-fields, the old aliases"""
    tab, _ = fmt_table(fmt)
    names = set(_dtype(fmt).names) | {nm for nm, _, _ in tab} | {x[0] for x in extras_of(fmt)}
    return names | {old for nm, old in OLD_NAMES.items() if nm in names}


def foreign_names(fmt):
    """names that are NO dimension of the layout but are one elsewhere: the sub-fields (and composed bytes, and standard
    dimensions) of the other format family, the old aliases of none, plus a name of the user's"""
    import laspy.point.dims as dims
    have = layout_names(fmt)
    subs, std = [], []
    for f in range(11):
        for composed, sfs in dims.COMPOSED_FIELDS[f].items():
            for sf in sfs:
                if sf.name not in have and sf.name not in subs:
                    subs.append(sf.name)
        for nm in dims.POINT_FORMAT_DIMENSIONS[f]:
            if nm not in have and nm not in subs and nm not in std:
                std.append(nm)
    return subs, std


def plain_status(name, path):
    import laspy.point.dims as dims
    if path.endswith("setattr"):
        return "err:EValue" if name in dims.DIMENSIONS_TO_TYPE else "ok"
    return "err:*"                                               # (refused; with which exception is not this property's subject)


class OWorld:
    """the expected state of a world, in bytes (no laspy sub-field code, no Coq model)"""

    def __init__(self, fmt, raw):
        self.bufs = []                      # [fmt, structured array]
        self.objs = {}                      # id -> entry {"buf", "pos", "origin", ("field", "mask", "col")}; two ids may share one
        self.is_las = {}                    # id -> the object is a LasData (else a point record)
        self.ubufs = {}                     # id -> the caller's bytearray a from_buffer record was built on
        self.readers = {}                   # id -> {"cur": cursor, "buf": the points the reader sees}
        self.fmt = fmt
        self.base = raw
        self.new_buf(fmt, raw)              # buffer 0: the points of the file

    def new_buf(self, fmt, raw):
        self.bufs.append([fmt, np.frombuffer(raw, dtype=np.uint8).copy().view(_dtype(fmt)).copy()])
        return len(self.bufs) - 1

    def fmt_of(self, e):
        return self.bufs[e["buf"]][0]

    def raw_of(self, e):
        return self.bufs[e["buf"]][1][np.array(e["pos"], dtype=np.intp)].tobytes()

    def n_of(self, e):
        return len(e["pos"])

    def entries(self):
        seen, out = set(), []
        for k, e in self.objs.items():
            if id(e) not in seen:
                seen.add(id(e))
                out.append((k, e))
        return out

    def fresh(self, oid, fmt, raw, origin, las):
        b = self.new_buf(fmt, raw)
        self.objs[oid] = {"buf": b, "pos": list(range(len(self.bufs[b][1]))), "origin": origin}
        self.is_las[oid] = las

    def view(self, oid, e, idx, origin, las, **kw):
        self.objs[oid] = {"buf": e["buf"], "pos": [e["pos"][i] for i in idx], "origin": origin, **kw}
        self.is_las[oid] = las

    def assign(self, e, op):
        """an operation of the single-record property on the points of e, written through to e's memory"""
        fmt, arr = self.bufs[e["buf"]]
        status, new_raw = expect_raw(fmt, self.raw_of(e), op)
        new = np.frombuffer(new_raw, dtype=np.uint8).view(arr.dtype)
        if len(new) == len(e["pos"]):
            if len(new):
                arr[np.array(e["pos"], dtype=np.intp)] = new
        else:                                                    # grown: new memory, shared with nobody
            e["buf"] = self.new_buf(fmt, new_raw)
            e["pos"] = list(range(len(new)))
        return status

    def apply(self, st):
        """expected outcome of one step: 'ok' / 'err:<kind>'; updates the expected state"""
        s = st["s"]
        file_e = {"buf": 0, "pos": list(range(len(self.bufs[0][1])))}
        if s == "mem":
            # (round 7: "fmt" / "raw" = an object of ANOTHER layout - the other format family - alive in the same process)
            self.fresh(st["id"], st.get("fmt", self.fmt), bytes.fromhex(st["raw"]) if "raw" in st else self.base,
                       "created " + st["host"], st["host"] == "las")
            if st["host"] == "buffer":
                self.ubufs[st["id"]] = dict(self.objs[st["id"]])
        elif s == "zeros":
            self.fresh(st["id"], self.fmt, bytes(st["n"] * _itemsize(self.fmt)), "zeros " + st["host"], st["host"] in ("las", "create"))
        elif s == "frombuf":
            e = self.ubufs[st["of"]]
            self.view(st["id"], e, list(range(st["offset"], st["offset"] + st["count"])), "from_buffer", False)
        elif s == "read":
            self.fresh(st["id"], self.fmt, self.raw_of(file_e), "read", True)
        elif s == "reader":
            # the reader sees the file as it was when it was opened (an in-memory source is a snapshot; a buffered file
            # object has read ahead): the generator opens no reader on the path of a file that is modified through mmap
            self.readers[st["id"]] = {"cur": 0, "buf": self.new_buf(self.fmt, self.raw_of(file_e))}
        elif s == "seek":
            self.readers[st["reader"]]["cur"] = st["pos"]
        elif s in ("next", "readall"):
            rd = self.readers[st["reader"]]
            cur, total = rd["cur"], len(file_e["pos"])
            k = total - cur if s == "readall" or st["n"] < 0 else min(st["n"], total - cur)
            sub = {"buf": rd["buf"], "pos": list(range(cur, cur + k))}
            self.fresh(st["id"], self.fmt, self.raw_of(sub), "chunk" if s == "next" else "rest", s == "readall")
            rd["cur"] = cur + k
        elif s == "mmap":
            self.view(st["id"], file_e, file_e["pos"], "mmap", True)
        elif s == "slice":
            e = self.objs[st["of"]]
            self.view(st["id"], e, list(range(len(e["pos"])))[slice(*st["v"])], "slice of " + e["origin"].split(" ")[0], self.is_las[st["of"]])
        elif s == "fancy":
            e = self.objs[st["of"]]
            idx = resolve_key(st["key"], len(e["pos"]))
            sub = {"buf": e["buf"], "pos": [e["pos"][i] for i in idx]}
            self.fresh(st["id"], self.fmt_of(e), self.raw_of(sub), "selection", self.is_las[st["of"]])
        elif s == "copy":
            e = self.objs[st["of"]]
            self.fresh(st["id"], self.fmt_of(e), self.raw_of(e), "copy", False)
        elif s == "wrap":
            e = self.objs[st["of"]]
            self.view(st["id"], e, list(range(len(e["pos"]))), "wrapped", st["as"] == "las")
        elif s == "setpoints":
            self.objs[st["of"]] = self.objs[st["from"]]          # one and the same record from now on
        elif s == "convert":
            e = self.objs[st["of"]]
            n = len(e["pos"])
            status, raw = expect_raw(st["to"], bytes(n * _itemsize(st["to"])),
                                     {"op": "copy", "sfmt": self.fmt_of(e), "src": self.raw_of(e).hex()})
            if status != "ok":
                return status
            self.fresh(st["id"], st["to"], raw, "converted", st["how"] == "convert")
        elif s == "hold":
            e = self.objs[st["of"]]
            pos, _ = view_positions({"chain": st["chain"]}, len(e["pos"]))
            tab, _ = fmt_table(self.fmt_of(e))
            c, m = {nm: (c, m) for nm, c, m in tab}[st["field"]]
            self.view(st["id"], e, pos, "kept view", False, field=st["field"], col=c, mask=m)
        elif s == "drop":
            del self.objs[st["id"]]
            del self.is_las[st["id"]]
        elif s == "touch":
            # round 6: operations of a LasData / record that are NOT assignments to a sub-field and, in the unchanged code,
            # keep the array where it is (every view / slice / record over it taken earlier stays attached): update_header,
            # write (LasData.write, LasWriter.write_points - also when the writer rescales X, Y, Z in place and puts them back,
            # also when the destination fails), change_scaling (X, Y, Z change in place: run_world takes them from the object)
            return {"writer_fail": "err:*", "change_scaling": "ok|err:EOverflow"}.get(st["how"], "ok")
        elif s == "extradims":
            # add_extra_dims / remove_extra_dims: the LasData gets a NEW record (zeros, copy_fields_from, points setter):
            # what was taken from the old record earlier stays on the old memory
            e = self.objs[st["on"]]
            cur = self.fmt_of(e)
            ex = extras_of(cur)
            new = layout(base_fmt(cur), [x for x in ex if x[0] not in st.get("remove", [])] + [tuple(x) for x in st.get("add", [])])
            status, raw = expect_raw(new, bytes(len(e["pos"]) * _itemsize(new)), {"op": "copy", "sfmt": cur, "src": self.raw_of(e).hex()})
            if status != "ok":
                return status
            b = self.new_buf(new, raw)
            self.objs[st["on"]] = {"buf": b, "pos": list(range(len(e["pos"]))), "origin": e["origin"]}
        elif s == "resize":
            # rec.resize(k): another length = a new array (np.append / a copy of the first k points); the same length: nothing
            e = self.objs[st["on"]]
            n, k = len(e["pos"]), st["n"]
            if k != n:
                raw = self.raw_of(e)
                sz = _itemsize(self.fmt_of(e))
                e["buf"] = self.new_buf(self.fmt_of(e), raw[:k * sz] + bytes(max(0, k - n) * sz))
                e["pos"] = list(range(k))
        elif s == "op":
            e = self.objs[st["on"]]
            return self.assign(e, materialise(self.fmt_of(e), self.raw_of(e), st["op"]))
        elif s == "plain":
            # round 7: an assignment, by attribute or by item, of a NAME that is not a dimension of this object's layout (a
            # sub-field of the other format family, a standard dimension the format lacks, a name of the user's): no
            # point of any object changes. What the unchanged code answers: obj.name = v keeps a python attribute unless the
            # name is a LAS dimension (refused with ValueError); obj[name] = v is refused with ValueError.
            return plain_status(st["name"], st["path"])
        elif s == "copyfrom":
            src = self.objs[st["src"]]
            return self.assign(self.objs[st["on"]], {"op": "copy", "sfmt": self.fmt_of(src), "src": self.raw_of(src).hex()})
        elif s == "vset":
            e = self.objs[st["view"]]
            return self.assign(e, {"op": "view", "field": e["field"], "path": "item", "chain": [], "key": st["key"], "value": st["value"]})
        else:
            raise KeyError(s)
        return "ok"


class _Obj:
    """what apply_op needs of a Host, for an object of a world"""

    def __init__(self, obj, las):
        self.obj, self.kind = obj, ("las" if las else "packed")

    def record(self):
        return self.obj.points if self.kind == "las" else self.obj


class AWorld:
    """the same steps on the implementation, through laspy's public API"""

    def __init__(self, fmt, raw, tmpdir):
        self.fmt, self.raw, self.tmpdir = fmt, raw, tmpdir
        self.objs, self.views, self.readers, self.iters, self.mmaps, self.open_files = {}, {}, {}, {}, [], []
        self.bufs = {}
        self._file, self.path = None, None

    def file_bytes(self):
        import laspy
        if self.path is not None:
            with open(self.path, "rb") as f:
                return f.read()
        if self._file is None:
            las = las_of(self.fmt)
            arr = np.frombuffer(self.raw, dtype=np.uint8).copy().view(las.header.point_format.dtype()).copy()
            las.points = laspy.ScaleAwarePointRecord(arr, las.header.point_format, las.header.scales, las.header.offsets)
            bio = io.BytesIO()
            las.write(bio)
            self._file = bio.getvalue()
        return self._file

    def file_path(self):
        if self.path is None:
            data = self.file_bytes()
            os.makedirs(self.tmpdir, exist_ok=True)
            path = os.path.join(self.tmpdir, "w.las")
            with open(path, "wb") as f:
                f.write(data)
            self.path = path
        return self.path

    def file_points(self):
        """the bytes of the points as they are in the file now"""
        data = self.file_bytes()
        k = len(self.raw)
        off = int.from_bytes(data[96:100], "little")
        return data[off:off + k]

    def source(self, kind):
        if kind == "path":
            return self.file_path()
        if kind == "fileobj":
            f = open(self.file_path(), "rb")
            self.open_files.append(f)
            return f
        if kind == "bytesio":
            return io.BytesIO(self.file_bytes())
        return _ReadOnly(self.file_bytes())

    def rec(self, oid):
        o = self.objs[oid]
        return o.record()

    def apply(self, st):
        import laspy
        try:
            return self._apply(st, laspy)
        except Exception as ex:
            return "err:" + common.exc_kind(ex)

    def _apply(self, st, laspy):
        s = st["s"]
        if s == "mem":
            pf = point_format(self.fmt)
            arr = np.frombuffer(self.raw, dtype=np.uint8).copy().view(pf.dtype()).copy()
            if st["host"] == "buffer":
                buf = bytearray(self.raw)
                self.bufs[st["id"]] = (buf, pf)
                self.objs[st["id"]] = _Obj(laspy.PackedPointRecord.from_buffer(buf, pf), False)
            else:
                h = Host(st["host"], st.get("fmt", self.fmt), bytes.fromhex(st["raw"]) if "raw" in st else self.raw)
                self.objs[st["id"]] = _Obj(h.obj, st["host"] == "las")
        elif s == "zeros":
            pf = point_format(self.fmt)
            if st["host"] == "packed":
                new = laspy.PackedPointRecord.zeros(st["n"], pf) if st["n"] else laspy.PackedPointRecord.empty(pf)
            elif st["host"] == "scaled":
                new = laspy.ScaleAwarePointRecord.zeros(st["n"], point_format=pf, scales=[1.0, 1.0, 1.0], offsets=[0.0, 0.0, 0.0])
            elif st["host"] == "las":
                header = las_of(self.fmt).header
                header.point_count = st["n"]
                new = laspy.LasData(header)
            else:
                new = las_of(self.fmt)
                new.points = laspy.ScaleAwarePointRecord.zeros(st["n"], header=new.header)
            self.objs[st["id"]] = _Obj(new, st["host"] in ("las", "create"))
        elif s == "frombuf":
            buf, pf = self.bufs[st["of"]]
            self.objs[st["id"]] = _Obj(laspy.PackedPointRecord.from_buffer(buf, pf, count=st["count"], offset=st["offset"] * pf.size), False)
        elif s == "read":
            src = self.source(st["src"])
            if st.get("via") == "open":
                with laspy.open(src) as rd:
                    las = rd.read()
            else:
                las = laspy.read(src)
            self.objs[st["id"]] = _Obj(las, True)
        elif s == "reader":
            src = self.source(st["src"])
            if st.get("via") == "ctor":
                if isinstance(src, str):
                    src = open(src, "rb")
                rd = laspy.LasReader(src)
            else:
                rd = laspy.open(src)
            self.readers[st["id"]] = rd
        elif s == "seek":
            self.readers[st["reader"]].seek(st["pos"])
        elif s == "next":
            rd = self.readers[st["reader"]]
            if st["how"] == "iter":
                key = (st["reader"], st["n"])
                if key not in self.iters:
                    self.iters[key] = rd.chunk_iterator(st["n"])
                pts = next(self.iters[key])
            else:
                pts = rd.read_points(st["n"])
            self.objs[st["id"]] = _Obj(pts, False)
        elif s == "readall":
            self.objs[st["id"]] = _Obj(self.readers[st["reader"]].read(), True)
        elif s == "mmap":
            mm = laspy.mmap(self.file_path())
            self.mmaps.append(mm)
            self.objs[st["id"]] = _Obj(mm, True)
        elif s == "slice":
            o = self.objs[st["of"]]
            self.objs[st["id"]] = _Obj(o.obj[slice(*st["v"])], o.kind == "las")
        elif s == "fancy":
            o = self.objs[st["of"]]
            k = st["key"]
            self.objs[st["id"]] = _Obj(o.obj[mk_key(k)], o.kind == "las")
        elif s == "copy":
            self.objs[st["id"]] = _Obj(self.rec(st["of"]).copy(), False)
        elif s == "wrap":
            r = self.rec(st["of"])
            if st["as"] == "packed":
                new = laspy.PackedPointRecord(r.array, r.point_format)
            elif st["as"] == "scaled":
                new = laspy.ScaleAwarePointRecord(r.array, r.point_format, [1.0, 1.0, 1.0], [0.0, 0.0, 0.0])
            else:
                o = self.objs[st["of"]]
                header = o.obj.header if o.kind == "las" else laspy.LasHeader(
                    point_format=r.point_format, version=laspy.create(point_format=r.point_format.id).header.version)
                new = laspy.LasData(header, points=r)
            self.objs[st["id"]] = _Obj(new, st["as"] == "las")
        elif s == "setpoints":
            self.objs[st["of"]].obj.points = self.rec(st["from"])
            self.objs[st["from"]] = _Obj(self.objs[st["of"]].obj.points, False)
        elif s == "convert":
            o = self.objs[st["of"]]
            if st["how"] == "convert":
                new = _Obj(laspy.convert(o.obj, point_format_id=base_fmt(st["to"])), True)      # (keeps the extra dimensions)
            else:
                new = _Obj(laspy.PackedPointRecord.from_point_record(o.record(), point_format(st["to"])), False)
            self.objs[st["id"]] = new
        elif s == "hold":
            o = self.objs[st["of"]]
            obj, path, name = o.obj, st["path"], st["field"]
            if path.startswith("points_"):
                obj, path = o.record(), path[len("points_"):]
            view = (obj[name] if path == "item" else getattr(obj, name) if path == "attr"
                    else obj[OLD_NAMES[name]] if path == "old" else getattr(obj, OLD_NAMES[name]))
            for sl in st["chain"]:
                view = view[slice(*sl)]
            self.views[st["id"]] = view
        elif s == "drop":
            self.objs.pop(st["id"], None)
            self.views.pop(st["id"], None)
        elif s == "touch":
            self.touch(st, laspy)
        elif s == "extradims":
            las = self.objs[st["on"]].obj
            if st.get("remove"):
                (las.remove_extra_dim(st["remove"][0]) if len(st["remove"]) == 1 and st.get("single") else las.remove_extra_dims(list(st["remove"])))
            if st.get("add"):
                prm = extra_params(None, [tuple(x) for x in st["add"]])
                (las.add_extra_dim(prm[0]) if len(prm) == 1 and st.get("single") else las.add_extra_dims(prm))
        elif s == "resize":
            self.rec(st["on"]).resize(st["n"])
        elif s == "op":
            return apply_op(self.objs[st["on"]], st["op"])
        elif s == "plain":
            o = self.objs[st["on"]]
            obj, path, value = o.obj, st["path"], mk_value(st["value"])
            if path.startswith("points_"):
                obj, path = o.record(), path[len("points_"):]
            if path == "setattr":
                setattr(obj, st["name"], value)
            elif path == "names":
                obj[[st["name"]]] = value
            else:
                obj[st["name"]] = value
        elif s == "copyfrom":
            self.rec(st["on"]).copy_fields_from(self.rec(st["src"]))
        elif s == "vset":
            self.views[st["view"]][mk_key(st["key"])] = mk_value(st["value"])
        else:
            raise KeyError(s)
        return "ok"

    def touch(self, st, laspy):
        o = self.objs[st["on"]]
        how, rec = st["how"], o.record()
        k = np.array(st.get("k", [3, -2, 5]), dtype=np.float64)
        if how == "update_header":
            o.obj.update_header()
        elif how == "write":
            o.obj.write(io.BytesIO())
        elif how in ("write_offsets", "write_scales"):
            # the header is given other offsets / scales than the points have: LasData.write -> the writer rescales X, Y, Z
            # in place for the time of the write and puts the caller's values back
            h = o.obj.header
            if how == "write_offsets":
                h.offsets = np.array(h.offsets) + np.array(h.scales) * k
            else:
                h.scales = np.array(h.scales) * 2.0
            o.obj.write(io.BytesIO())
        elif how in ("writer", "writer_fail", "writer_point"):
            # a writer of its own, whose header has other scales and offsets than the record
            pf = rec.point_format
            h = laspy.LasHeader(point_format=pf, version=laspy.create(point_format=pf.id).header.version)
            sc = np.array(getattr(rec, "scales", [1.0, 1.0, 1.0]), dtype=np.float64)
            of = np.array(getattr(rec, "offsets", [0.0, 0.0, 0.0]), dtype=np.float64)
            h.scales, h.offsets = sc * 2.0, of + sc * k
            dest = _FailingDest() if how == "writer_fail" else io.BytesIO()
            with laspy.open(dest, mode="w", header=h, closefd=False) as w:
                dest.armed = True
                # (writer_point: ONE point selected by an integer, a 0-d record over the same memory)
                w.write_points(rec[len(rec) // 2] if how == "writer_point" and len(rec.array) else rec)
        elif how == "change_scaling":
            h = o.obj.header
            o.obj.change_scaling(scales=np.array(h.scales) * 2.0, offsets=np.array(h.offsets) + np.array(h.scales) * k)
        else:
            raise KeyError(how)

    def raw_of(self, oid):
        return self.rec(oid).array.tobytes()

    def close(self):
        for rd in self.readers.values():
            try:
                rd.close()
            except Exception:
                pass
        self.objs.clear()
        self.views.clear()
        self.iters.clear()
        self.bufs.clear()
        if self.mmaps:
            gc.collect()                     # a LasData in a reference cycle would keep the mapping exported
        for mm in self.mmaps:
            try:
                mm.close()
            except Exception:
                pass
        for f in self.open_files:
            try:
                f.close()
            except Exception:
                pass


_TMP = os.path.join("/var/tmp", "c09_w_%d" % os.getpid())


def _rm_tmp():
    import shutil
    shutil.rmtree(_TMP, ignore_errors=True)


import atexit  # noqa: E402
atexit.register(_rm_tmp)


def step_class(st):
    if st["s"] == "op":
        o = st["op"]
        return {"view": "view assignment", "seq": "whole-dimension assignment", "copy": "copy_fields_from"}[o["op"]]
    return {"copyfrom": "copy_fields_from a live record", "vset": "assignment through a kept view", "next": "reading a chunk",
            "readall": "reading the rest", "read": "reading the file", "mem": "creating a record", "convert": "conversion",
            "fancy": "selection", "slice": "slice", "copy": "copy", "wrap": "wrapping", "hold": "keeping a view",
            "frombuf": "from_buffer", "mmap": "mmap", "setpoints": "las.points = record", "drop": "dropping an object",
            "reader": "opening a reader", "seek": "seek", "zeros": "creating a zero record",
            "touch": "a " + st.get("how", "") + " in between", "plain": "assignment of a name that is no dimension of the object", "extradims": "add/remove_extra_dims", "resize": "resize"}[st["s"]]


def plain_tok(sfmt, raw, dfmt):
    """the source's dimensions that are not bit-packed there but are sub-fields of the destination format"""
    sarr, _ = unpack_state(sfmt, raw)
    stab, _ = fmt_table(sfmt)
    dtab, _ = fmt_table(dfmt)
    snames = {nm for nm, _, _ in stab}
    plain = [f"{nm}={common.zl(int(x) for x in sarr[nm])}" for nm, _, _ in dtab if nm not in snames and nm in _dtype(base_fmt(sfmt)).names]
    return "|".join(plain) or "-"


def _ilist(ix):
    return ",".join(map(str, ix)) or "e"


class WorldModel:
    """the steps of a world in the model driver's syntax (sf_world): object ids -> indices of the model's objects.
    Object 0 is the file's points; a reader is the copy of them it sees; a caller's bytearray is a view that is never assigned."""

    def __init__(self, ow):
        self.ops = [f"N!{base_fmt(ow.fmt)}!{cols_tok(ow.fmt, ow.base)}"]
        self.count = 1
        self.idx = {}

    def tokens(self, ow, st):
        """[(token, id the new object gets or None)] for one step, from the state BEFORE it"""
        s, ix = st["s"], self.idx
        nfile = len(ow.bufs[0][1])
        L = len(ow.objs[st["of"]]["pos"]) if "of" in st and st["of"] in ow.objs else 0
        if s == "mem":
            mfmt, mraw = st.get("fmt", ow.fmt), (bytes.fromhex(st["raw"]) if "raw" in st else ow.base)
            out = [(f"N!{base_fmt(mfmt)}!{cols_tok(mfmt, mraw)}", st["id"])]
            if st["host"] == "buffer":
                out.append(("L!@!-", "ubuf:" + st["id"]))
            return out
        if s == "zeros":
            return [(f"N!{base_fmt(ow.fmt)}!{cols_tok(ow.fmt, bytes(st['n'] * _itemsize(ow.fmt)))}", st["id"])]
        if s == "frombuf":
            return [(f"L!{ix['ubuf:' + st['of']]}!{_ilist(range(st['offset'], st['offset'] + st['count']))}", st["id"])]
        if s == "read":
            return [(f"G!0!{_ilist(range(nfile))}", st["id"])]
        if s == "reader":
            return [(f"G!0!{_ilist(range(nfile))}", "r:" + st["id"])]
        if s in ("next", "readall"):
            cur = ow.readers[st["reader"]]["cur"]
            k = nfile - cur if s == "readall" or st["n"] < 0 else min(st["n"], nfile - cur)
            return [(f"G!{ix['r:' + st['reader']]}!{_ilist(range(cur, cur + k))}", st["id"])]
        if s == "mmap":
            return [("L!0!-", st["id"])]
        if s == "slice":
            return [(f"L!{ix[st['of']]}!{_ilist(list(range(L))[slice(*st['v'])])}", st["id"])]
        if s == "fancy":
            return [(f"G!{ix[st['of']]}!{_ilist(resolve_key(st['key'], L))}", st["id"])]
        if s == "copy":
            return [(f"G!{ix[st['of']]}!{_ilist(range(L))}", st["id"])]
        if s == "wrap":
            return [(f"L!{ix[st['of']]}!-", st["id"])]
        if s == "convert":
            e = ow.objs[st["of"]]
            return [(f"K!{ix[st['of']]}!{base_fmt(st['to'])}!{plain_tok(ow.fmt_of(e), ow.raw_of(e), st['to'])}", st["id"])]
        if s == "hold":
            _, chain = view_positions({"chain": st["chain"]}, L)
            return [(f"L!{ix[st['of']]}!{'/'.join(_ilist(c) for c in chain) or '-'}", st["id"])]
        if s == "op":
            e = ow.objs[st["on"]]
            o = st["op"]
            if o["op"] == "seq" and o["path"].endswith("attr") and "delta" not in o:
                # (round 7) obj.name = vs: the model looks the name up in the layout of THIS object (wattr)
                nm = OLD_NAMES[o["field"]] if o["path"].endswith("old_attr") else o["field"]
                return [(f"P!{ix[st['on']]}!{','.join(_dtype(ow.fmt_of(e)).names)}!{nm}!{common.zl(value_list(o['value'])[1])}", None)]
            return [(f"A!{ix[st['on']]}!{model_op(ow.fmt_of(e), len(e['pos']), st['op'])}", None)]
        if s == "plain" and st["path"].endswith("setattr"):
            e = ow.objs[st["on"]]
            return [(f"P!{ix[st['on']]}!{','.join(_dtype(ow.fmt_of(e)).names)}!{st['name']}!{common.zl(value_list(st['value'])[1])}", None)]
        if s == "copyfrom":
            e, src = ow.objs[st["on"]], ow.objs[st["src"]]
            return [(f"F!{ix[st['on']]}!{ix[st['src']]}!{plain_tok(ow.fmt_of(src), ow.raw_of(src), ow.fmt_of(e))}", None)]
        if s == "vset":
            e = ow.objs[st["view"]]
            op = {"op": "view", "field": e["field"], "path": "item", "chain": [], "key": st["key"], "value": st["value"]}
            return [(f"A!{ix[st['view']]}!{model_op(ow.fmt_of(e), len(e['pos']), op)}", None)]
        if s == "setpoints":
            ix[st["of"]] = ix[st["from"]]
        if s == "extradims":                                      # the LasData's record is a new one, a copy of its points
            return [(f"G!{ix[st['on']]}!{_ilist(range(len(ow.objs[st['on']]['pos'])))}", st["on"])]
        if s == "resize":
            e = ow.objs[st["on"]]
            n, k = len(e["pos"]), st["n"]
            if k < n:                                             # (the record object is the same: every id of it follows)
                return [(f"G!{ix[st['on']]}!{_ilist(range(k))}", "same:" + st["on"])]
            if k > n:                                             # (the model has no operation that appends zero points without assigning)
                sz = _itemsize(ow.fmt_of(e))
                return [(f"N!{base_fmt(ow.fmt_of(e))}!{cols_tok(ow.fmt_of(e), ow.raw_of(e) + bytes((k - n) * sz))}", "same:" + st["on"])]
        return []

    def commit(self, toks, status):
        """after the step: the objects it created exist (unless the step was refused)"""
        for tok, oid in toks:
            self.ops.append(tok.replace("@", str(self.count - 1)))
            if oid is not None and status == "ok":
                if oid.startswith("same:"):
                    old = self.idx[oid[5:]]
                    for k in [k for k, v in self.idx.items() if v == old and not k.startswith(("r:", "ubuf:"))]:
                        self.idx[k] = self.count
                else:
                    self.idx[oid] = self.count
                self.count += 1
        return len(self.ops) - 1 if toks else None


def run_world(sess, upto=None):
    """runs a world on the implementation and on the expected state in lockstep.
    Returns (failure or None, trace) - trace = [(step, expected status, {id: (fmt, bytes the implementation holds)}, index of the
    step's last model operation, {id: model object}, the model operations)] for the model comparison."""
    for earlier in (sess.get("before", []) if upto is None else []):
        # (round 7) worlds that were run EARLIER in the same process: what they leave behind in the library (class attributes,
        # module-level caches) is part of the history of this one
        try:
            run_world(earlier)
        except Exception:
            pass
    fmt, raw = sess["format"], bytes.fromhex(sess["raw"])
    ow, aw = OWorld(fmt, raw), AWorld(fmt, raw, _TMP)
    trace = []
    secondary = None
    wm = WorldModel(ow)

    def failed(f, st):
        """an ASSIGNMENT that breaks the property ends the run. A step that only creates / reads / drops an object and
        changes another one is kept as the result if no assignment fails later: the expected state is set to what the
        objects hold now and the run goes on (the assignments are judged on the state they start from)."""
        nonlocal secondary
        if st["s"] in ("op", "copyfrom", "vset", "plain") or "outcome" in f["kind"]:
            return True
        if secondary is None:
            secondary = f
        for k, e in ow.entries():
            if "field" in e:
                continue
            have = np.frombuffer(aw.raw_of(k), dtype=np.uint8).view(ow.bufs[e["buf"]][1].dtype)
            if len(have) == len(e["pos"]):
                if len(have):
                    ow.bufs[e["buf"]][1][np.array(e["pos"], dtype=np.intp)] = have
            else:
                e["buf"], e["pos"] = ow.new_buf(ow.fmt_of(e), have.tobytes()), list(range(len(have)))
        return False
    try:
        for i, st in enumerate(sess["steps"][:upto]):
            if st["s"] == "op" and st["on"] in ow.objs:          # (an in-place operator: the values it must assign, on this state)
                st = {**st, "op": materialise(ow.fmt_of(ow.objs[st["on"]]), ow.raw_of(ow.objs[st["on"]]), st["op"])}
            before = {k: ow.raw_of(e) for k, e in ow.entries()}
            toks = wm.tokens(ow, st)
            exp = ow.apply(st)
            mstep = wm.commit(toks, exp)
            got = aw.apply(st)
            target = st.get("on") or st.get("view") or st.get("id")
            tgt_e = ow.objs.get(target)
            t_origin = tgt_e["origin"] if tgt_e else "-"
            if st["s"] == "touch" and st["how"] == "change_scaling" and got == "ok" and tgt_e is not None:
                # X, Y, Z were recomputed in place (not this property's business): taken from the object, into its memory
                have = np.frombuffer(aw.raw_of(target), dtype=np.uint8).view(ow.bufs[tgt_e["buf"]][1].dtype)
                if len(have) == len(tgt_e["pos"]) and len(have):
                    for f in ("X", "Y", "Z"):
                        ow.bufs[tgt_e["buf"]][1][f][np.array(tgt_e["pos"], dtype=np.intp)] = have[f]
            if st["s"] == "touch" and not (got == exp or (exp == "err:*" and got.startswith("err:")) or ("|" in exp and got in exp.split("|"))):
                # the outcome of an operation that is NOT an assignment to a sub-field (change_scaling on a LasData whose points were
                # replaced by a record that is not scale aware, a write whose rescaling overflows ...) is not this property's subject:
                # the world is not judged any further
                return (None, trace)
            if not (got == exp or (exp == "err:*" and got.startswith("err:")) or ("|" in exp and got in exp.split("|"))):
                return ({"kind": f"objects: {step_class(st)} on {t_origin}: outcome", "input": {**sess, "steps": sess["steps"][:i + 1]},
                         "observed": f"step {i} ({st['s']}): outcome {got}, expected {exp}"}, trace)
            state = {k: (ow.fmt_of(e), aw.raw_of(k)) for k, e in ow.entries() if "field" not in e}
            entry = (st, exp, state, mstep, {k: wm.idx[k] for k in state}, wm.ops)
            for k, e in ow.entries():
                want = ow.raw_of(e)
                if "field" in e:                                  # a kept SubFieldView: its packed byte and its values
                    v = aw.views[k]
                    col = np.frombuffer(want, dtype=np.uint8).view(ow.bufs[e["buf"]][1].dtype)[e["col"]]
                    ok = (np.asarray(v.array).tobytes() == col.tobytes()
                          and np.array(v).astype(np.int64).tolist() == ((col.astype(np.int64) & e["mask"]) >> lsb_of(e["mask"])).tolist())
                    if ok:                                        # the view kept by the caller, through its read routes
                        vwant = [(b & e["mask"]) >> lsb_of(e["mask"]) for b in col.tobytes()]
                        vwhy = run_routes(v, vwant, e["mask"] >> lsb_of(e["mask"]), 1, _Pick(zlib.crc32(col.tobytes()) + i))
                        if vwhy:
                            return ({"kind": f"objects: {step_class(st)} on {t_origin}: reads of a kept view", "input": {**sess, "steps": sess["steps"][:i + 1]},
                                     "observed": f"step {i}: the kept view {k} of {e['field']}: {vwhy}"}, trace)
                    have = None
                else:
                    have = state[k][1]
                    ok = have == want
                if not ok:
                    rel = ("the target" if e is tgt_e else
                           f"a {e['origin']} that was not addressed" if before.get(k) == want else f"a {e['origin']} viewing the addressed points (not updated)")
                    where = ""
                    if have is not None and len(have) == len(want):
                        sz = _itemsize(ow.fmt_of(e))
                        j = next(j for j in range(len(want)) if have[j] != want[j])
                        names = _dtype(ow.fmt_of(e))
                        fld = next((f for f in names.names if names.fields[f][1] <= j % sz < names.fields[f][1] + names.fields[f][0].itemsize), "?")
                        where = f": point {j // sz} dimension {fld} is {have[j]:#04x}, expected {want[j]:#04x}"
                    elif have is not None:
                        where = f": {len(have) // max(1, _itemsize(ow.fmt_of(e)))} points, expected {len(want) // max(1, _itemsize(ow.fmt_of(e)))}"
                    f = {"kind": f"objects: {step_class(st)} on {t_origin} changes {rel.split(' (')[0] if e is not tgt_e else 'the target wrongly'}",
                         "input": {**sess, "steps": sess["steps"][:i + 1]},
                         "observed": f"step {i} ({step_class(st)} on object {target}): object {k} = {rel}{where}"}
                    if failed(f, st):
                        return f, trace + [entry]                 # the model is asked about the failing step too
                    break
            if aw.path is not None and aw.file_points() != ow.bufs[0][1].tobytes():
                return ({"kind": f"objects: {step_class(st)} on {t_origin}: the mapped file", "input": {**sess, "steps": sess["steps"][:i + 1]},
                         "observed": f"step {i}: the points in the file differ from what the mmap views say"}, trace)
            if st["s"] in ("op", "copyfrom") and tgt_e is not None:
                why = check_reads(aw.objs[target], ow.fmt_of(tgt_e), st.get("op"), "core", zlib.crc32(ow.raw_of(tgt_e)) + i)
                if why:
                    return ({"kind": f"objects: {step_class(st)} on {t_origin}: reads", "input": {**sess, "steps": sess["steps"][:i + 1]}, "observed": why}, trace)
            trace.append(entry)
        return secondary, trace
    finally:
        aw.close()


def shrink_world(sess, fail):
    """drop the steps the failure does not need (a step another one refers to stays)"""
    steps = list(sess["steps"])
    i = len(steps) - 2
    while i >= 0:
        if steps[i]["s"] == "plain":
            # (what was assigned to ANOTHER object earlier is the history a state shared in the process depends on: a run
            # in this process cannot tell whether the failure needs it - it stays)
            i -= 1
            continue
        cand = steps[:i] + steps[i + 1:]
        try:
            f2, _ = run_world({**sess, "steps": cand})
        except Exception:
            f2 = None
        if f2 and f2["kind"] == fail["kind"]:
            steps = f2["input"]["steps"]
            fail = f2
            i = min(i, len(steps) - 1)
        i -= 1
    return fail


# ---------------------------------------------------------------------------------------------------------------------
# worlds: generator
# ---------------------------------------------------------------------------------------------------------------------
SOURCES = ["path", "bytesio", "fileobj", "readonly"]


class WorldGen:
    def __init__(self, rng, fmt=None, n=None):
        self.rng = rng
        self.fmt = gen_layout(rng) if fmt is None else fmt
        self.tainted = set()                 # objects whose PointFormat / header OBJECT is shared with another live object
        self.n = rng.choice([1, 2, 3, 4, 6, 8, 9, 12]) if n is None else n
        self.raw = rand_bytes(rng, self.n * _itemsize(self.fmt))
        self.ow = OWorld(self.fmt, self.raw)
        self.steps = []
        self.k = 0
        self.has_buffer = []
        self.maps = rng.random() < 0.3       # this world maps the file: its readers get in-memory sources

    def new_id(self):
        self.k += 1
        return f"o{self.k}"

    def add(self, st):
        status = self.ow.apply(st)
        self.steps.append(st)
        return status

    def session(self):
        return {"world": 1, "format": self.fmt, "raw": self.raw.hex(), "steps": self.steps}

    def records(self):
        return [k for k, e in self.ow.objs.items() if "field" not in e]

    def root(self):
        rng = self.rng
        r = rng.random()
        if r < 0.3:
            host = rng.choice(HOSTS + ["buffer"])
            oid = self.new_id()
            self.add({"s": "mem", "id": oid, "host": host})
            if host == "buffer":
                self.has_buffer.append(oid)
        elif r < 0.36:
            self.add({"s": "zeros", "id": self.new_id(), "host": rng.choice(["packed", "scaled", "las", "create"]), "n": rng.choice([0, 1, self.n, self.n])})
        elif r < 0.47:
            self.add({"s": "read", "id": self.new_id(), "src": rng.choice(SOURCES), "via": rng.choice(["read", "open"])})
        elif r < 0.6 and self.maps:
            self.add({"s": "mmap", "id": self.new_id()})
        else:
            self.reader()

    def reader(self):
        rng = self.rng
        rid = "r%d" % (len(self.ow.readers) + 1)
        self.add({"s": "reader", "id": rid, "src": rng.choice(SOURCES[1::2] if self.maps else SOURCES), "via": rng.choice(["open", "open", "ctor"])})
        self.chunk(rid)
        self.chunk(rid)

    def chunk(self, rid=None):
        rng = self.rng
        if rid is None:
            rid = rng.choice(sorted(self.ow.readers))
        cur = self.ow.readers[rid]["cur"]
        left = self.n - cur
        if left <= 0 and rng.random() < 0.6:
            self.add({"s": "seek", "reader": rid, "pos": rng.randrange(self.n)})
            cur = self.ow.readers[rid]["cur"]
            left = self.n - cur
        prev = [st["n"] for st in self.steps if st["s"] == "next" and st["reader"] == rid]
        if prev and rng.random() < 0.7:
            k = prev[-1]                                         # chunks of the same size, like an iteration
        else:
            k = rng.choice([1, 2, 3, max(1, self.n // 3), max(1, self.n // 2), self.n])
        if rng.random() < 0.07:
            self.add({"s": "readall", "id": self.new_id(), "reader": rid})
            return
        how = rng.choice(["iter", "read_points"]) if left > 0 else "read_points"
        self.add({"s": "next", "id": self.new_id(), "reader": rid, "n": k, "how": how})

    def derive(self):
        rng = self.rng
        recs = self.records()
        a = rng.choice(recs)
        e = self.ow.objs[a]
        L, fmt, las = len(e["pos"]), self.ow.fmt_of(e), self.ow.is_las[a]
        r = rng.random()
        if self.has_buffer and rng.random() < 0.3:
            b = rng.choice(self.has_buffer)
            LB = len(self.ow.ubufs[b]["pos"])
            off = rng.randrange(LB)
            self.add({"s": "frombuf", "id": self.new_id(), "of": b, "offset": off, "count": rng.randrange(0, LB - off + 1)})
        elif r < 0.25:
            self.add({"s": "slice", "id": self.new_id(), "of": a, "v": gen_slice(rng, L)})
        elif r < 0.4:
            k = gen_key(rng, L, False)
            while k["k"] not in ("mask", "list", "arr"):
                k = gen_key(rng, L, False) if L else {"k": "mask", "v": []}
            self.add({"s": "fancy", "id": self.new_id(), "of": a, "key": k})
        elif r < 0.5:
            self.add({"s": "copy", "id": self.new_id(), "of": a})
        elif r < 0.65:
            nid = self.new_id()
            self.add({"s": "wrap", "id": nid, "of": a, "as": rng.choice(["packed", "scaled", "las"])})
            self.tainted.update({a, nid})
        elif r < 0.75:
            b, ex = base_fmt(fmt), extras_of(fmt)
            to = rng.choice([b, rng.randrange(11), rng.choice([f for f in range(11) if (f >= 6) == (b >= 6)])])
            how = "convert" if las and rng.random() < 0.6 else "from_point_record"
            if not fits(ex, to):
                to = b
            if how == "convert":
                to = layout(to, ex)                                # laspy.convert keeps the extra dimensions
            elif rng.random() < 0.6:
                to = layout(to, [x for x in ex if rng.random() < 0.7] + ([x for x in gen_extras(rng, to)[:1] if x[0] not in [y[0] for y in ex]] if rng.random() < 0.3 else []))
            self.add({"s": "convert", "id": self.new_id(), "of": a, "to": to, "how": how})
        elif r < 0.82:
            lases = [k for k in recs if self.ow.is_las[k] and self.ow.objs[k]["origin"] not in ("mmap", "rest") and self.ow.fmt_of(self.ow.objs[k]) == fmt]
            same = [k for k in recs if not self.ow.is_las[k] and self.ow.fmt_of(self.ow.objs[k]) == fmt and self.ow.objs[k] is not e]
            if las and e["origin"] not in ("mmap", "rest") and same:
                b = rng.choice(same)
                self.add({"s": "setpoints", "of": a, "from": b})
                self.tainted.update({a, b})
            elif lases and not las and self.ow.objs[lases[0]] is not e:
                self.add({"s": "setpoints", "of": lases[0], "from": a})
                self.tainted.update({a, lases[0]})
        else:
            tab, _ = fmt_table(fmt)
            name = rng.choice(tab)[0]
            paths = ["item", "attr"] + (["old", "old_attr"] if name in OLD_NAMES else [])
            path = rng.choice(paths)
            if las and rng.random() < 0.5:
                path = "points_" + path
            chain, LL = [], L
            for _ in range(rng.choice([0, 0, 1, 2])):
                sl = gen_slice(rng, LL)
                chain.append(sl)
                LL = len(range(LL)[slice(*sl)])
            self.add({"s": "hold", "id": self.new_id(), "of": a, "field": name, "path": path, "chain": chain})

    TOUCH_LAS = ["update_header", "write", "write_offsets", "write_scales", "writer", "writer", "writer_fail", "change_scaling", "writer_point"]

    def touch(self, on=None, how=None):
        """round 6: an operation in between that is not an assignment to a sub-field: the ones that leave the array where it
        is (write with and without rescaling, update_header, change_scaling) and the ones that give the object a new array
        (add / remove extra dimensions, resize). Objects over a mapped file are left out."""
        rng = self.rng
        recs = [k for k in self.records() if self.ow.objs[k]["buf"] != 0]          # (memory 0 = the points of the file, mapped)
        if on is None:
            if not recs:
                return False
            lases = [k for k in recs if self.ow.is_las[k]]
            on = rng.choice(lases) if lases and rng.random() < 0.6 else rng.choice(recs)
        e = self.ow.objs[on]
        las = self.ow.is_las[on]
        fmt = self.ow.fmt_of(e)
        if how is None:
            r = rng.random()
            how = ("extradims" if las and r < 0.25 and on not in self.tainted and e["origin"] != "rest" else
                   "resize" if r < 0.35 and on not in self.has_buffer else rng.choice(self.TOUCH_LAS if las else ["writer", "writer", "writer_fail", "writer_point"]))
        if how == "extradims":
            ex = extras_of(fmt)
            st = {"s": "extradims", "on": on}
            if ex and rng.random() < 0.4:
                st["remove"] = [x[0] for x in rng.sample(ex, rng.choice([1, 1, min(2, len(ex))]))]
            if "remove" not in st or rng.random() < 0.3:
                have = [x[0] for x in ex if x[0] not in st.get("remove", [])]
                st["add"] = [list(x) for x in gen_extras(rng, base_fmt(fmt)) if x[0] not in have and x[0] not in st.get("remove", [])][:rng.choice([1, 1, 2])]
                if not st["add"]:
                    del st["add"]
            if rng.random() < 0.5:
                st["single"] = True
            if "add" not in st and "remove" not in st:
                return False
            self.add(st)
        elif how == "resize":
            n = len(e["pos"])
            self.add({"s": "resize", "on": on, "n": rng.choice([n, n + 1, n + 3, max(0, n - 1), n // 2, 0])})
        else:
            self.add({"s": "touch", "on": on, "how": how, "k": [rng.choice([1, 3, -2, 5, 0]) for _ in range(3)]})
        return True

    def foreign(self, fmt=None, host=None):
        """round 7: a record / LasData of ANOTHER layout (by default of the other format family) in the same process"""
        rng = self.rng
        if fmt is None:
            b = base_fmt(self.fmt)
            fmt = gen_layout(rng, rng.choice([f for f in range(11) if (f >= 6) != (b >= 6)]), 0.2)
        n = rng.choice([self.n, self.n, 1, 3])
        oid = self.new_id()
        self.add({"s": "mem", "id": oid, "host": host or rng.choice(["las", "las", "packed", "scaled"]), "fmt": fmt,
                  "raw": rand_bytes(rng, n * _itemsize(fmt)).hex()})
        return oid

    def plain(self, on=None, name=None, path=None):
        """round 7: obj.name = v / obj[name] = v with a name that is no dimension of obj's layout but is one of another layout
        (first of all: a sub-field of the other format family; also of a live object of this world), or a user's name"""
        rng = self.rng
        a = on or rng.choice(self.records())
        e = self.ow.objs[a]
        L, fmt, las = len(e["pos"]), self.ow.fmt_of(e), self.ow.is_las[a]
        if name is None:
            subs, std = foreign_names(fmt)
            have = layout_names(fmt)
            live = sorted({nm for k in self.records() for nm in layout_names(self.ow.fmt_of(self.ow.objs[k])) if nm not in have} - set(std))
            pool = (subs * 3 + live * 2 + [rng.choice(std)] + ["user_note"]) if rng.random() < 0.85 else std
            name = rng.choice(pool)
        if path is None:
            path = rng.choice(["setattr", "setattr", "setattr", "setitem", "names"])
            if las and rng.random() < 0.3:
                path = "points_" + path
        self.add({"s": "plain", "on": a, "name": name, "path": path,
                  "value": gen_value(rng, rng.choice([L, L, 1]), rng.choice([1, 3, 1, 7]), False, rng.random() < 0.2)})

    def op(self, on=None):
        rng = self.rng
        views = [k for k, e in self.ow.objs.items() if "field" in e]
        if (on is None and views and rng.random() < 0.25) or on in views:
            v = on if on in views else rng.choice(views)
            e = self.ow.objs[v]
            L = len(e["pos"])
            maxv = e["mask"] >> lsb_of(e["mask"])
            key = gen_key(rng, L, False)
            idx = resolve_key(key, L)
            scalar = key["k"] in ("int", "npint") or rng.random() < 0.5 or not idx
            self.add({"s": "vset", "view": v, "key": key, "value": gen_value(rng, len(idx), maxv, rng.random() < 0.12 and bool(idx), scalar)})
            return
        a = on or rng.choice(self.records())
        e = self.ow.objs[a]
        L, fmt = len(e["pos"]), self.ow.fmt_of(e)
        kind = "las" if self.ow.is_las[a] else "packed"
        r = rng.random()
        if r < 0.6:
            op = gen_view_op(rng, fmt, kind, L)
        elif r < 0.8:
            op = gen_seq_op(rng, fmt, kind, L)
        elif r < 0.88:
            op = gen_copy_op(rng, fmt, L)
        else:
            # (two mappings of one file with EXTRA dimensions are not copied onto each other: copy_fields_from hands numpy
            # the source's extra bytes without copying them, numpy cannot see that two mappings overlap, and what the extra
            # bytes then hold is not this property's subject - reported as an observation)
            others = [k for k in self.records() if self.ow.objs[k] is not e
                      and not (e["buf"] == 0 and self.ow.objs[k]["buf"] == 0 and extras_of(fmt))]
            if others:
                self.add({"s": "copyfrom", "on": a, "src": rng.choice(others)})
                return
            op = gen_view_op(rng, fmt, kind, L)
        self.add({"s": "op", "on": a, "op": op})


def gen_world(rng):
    g = WorldGen(rng)
    g.root()
    if rng.random() < 0.4:
        g.root()
    two = rng.random() < 0.3                                      # (round 7) objects of both format families in this world
    if two:
        g.foreign()
    for _ in range(rng.choice([3, 4, 5, 6, 8])):
        r = rng.random()
        if two and g.records() and rng.random() < 0.3:
            g.plain()
        elif r < 0.3 and g.records():
            g.derive()
        elif r < 0.42 and g.ow.readers:
            g.chunk()
        elif 0.45 <= r < 0.57 and g.records():
            g.touch()
        elif r < 0.45 and len(g.ow.objs) > 1:
            k = rng.choice(sorted(g.ow.objs))
            if g.ow.objs[k]["origin"] != "mmap" and k not in g.has_buffer and sum(1 for kk, ee in g.ow.objs.items() if ee is g.ow.objs[k]) == 1:
                g.add({"s": "drop", "id": k})
        elif g.records():
            g.op()
    return g.session()


def pattern_worlds(rng):
    """the patterns of use, systematically: a file read chunk by chunk with every chunk kept (equal sizes, every kind of
    source, iterator and read_points), then a sub-field assignment on every chunk; a record and its slices / selections /
    copies / conversions, an assignment on each"""
    out = []
    for fmt in range(11):
        tab, _ = fmt_table(fmt)
        for src in SOURCES:
            size = rng.choice([1, 2, 3, 4])
            g = WorldGen(rng, gen_layout(rng, fmt, 0.25), size * rng.choice([2, 3]) + rng.choice([0, 0, 1]))
            g.add({"s": "reader", "id": "r1", "src": src, "via": rng.choice(["open", "ctor"])})
            how = rng.choice(["iter", "read_points"])
            while g.ow.readers["r1"]["cur"] < g.n:
                g.add({"s": "next", "id": g.new_id(), "reader": "r1", "n": size, "how": how})
            ids = g.records()
            rng.shuffle(ids)
            for a in ids[:3]:
                g.op(on=a)
            out.append(g.session())
        g = WorldGen(rng, gen_layout(rng, fmt, 0.3))
        g.add({"s": "mem", "id": "o0", "host": rng.choice(HOSTS)})
        g.k = 1
        L = g.n
        g.add({"s": "slice", "id": g.new_id(), "of": "o0", "v": rng.choice([[None, None, 2], [1, None, None], [None, None, -1], [0, max(1, L // 2), None]])})
        g.add({"s": "fancy", "id": g.new_id(), "of": "o0", "key": {"k": "mask", "v": [i % 2 == 0 for i in range(L)]}})
        g.add({"s": "copy", "id": g.new_id(), "of": "o0"})
        g.add({"s": "wrap", "id": g.new_id(), "of": "o0", "as": rng.choice(["packed", "scaled", "las"])})
        g.add({"s": "convert", "id": g.new_id(), "of": "o0", "to": g.fmt, "how": "from_point_record"})
        for host in ("packed", "las"):
            g.add({"s": "zeros", "id": g.new_id(), "host": host, "n": g.n})
        for a in list(g.records()):
            g.op(on=a)
        out.append(g.session())
        g = WorldGen(rng, gen_layout(rng, fmt, 0.3))
        g.maps = True
        g.add({"s": "mmap", "id": "o0"})
        g.k = 1
        g.add({"s": "mmap", "id": g.new_id()})
        g.add({"s": "slice", "id": g.new_id(), "of": "o0", "v": [None, None, rng.choice([1, 2, -1])]})
        g.add({"s": "read", "id": g.new_id(), "src": "path", "via": "read"})
        for a in list(g.records()):
            g.op(on=a)
        g.add({"s": "read", "id": g.new_id(), "src": "fileobj", "via": "open"})
        out.append(g.session())
    return out


def family_worlds(rng, thorough=False):
    """round 7: STATE SHARED IN THE PROCESS between objects of different layouts. Two live objects, one of point format 0-5
    and one of 6-10 (LasData / records, with and without extra dimensions): a name that is a sub-field in one family and no
    dimension in the other (overlap, scanner_channel; a sub-field name borne by an extra dimension) is assigned by attribute
    and by item on the object where it is NOT a dimension (before, between and after), and the sub-fields of that name - and
    the others - are assigned on the object where they are, through every path: judged on the bytes of every object
    after every step (not on what obj.name then returns)."""
    out = []
    pairs = [(fa, rng.randrange(6, 11)) for fa in range(6)] + [(rng.randrange(6), fb) for fb in range(6, 11)]
    if thorough:
        pairs = [(fa, fb) for fa in range(6) for fb in range(6, 11)]
    for j, (fa, fb) in enumerate(pairs):
        la, lb = gen_layout(rng, fa, 0.15), gen_layout(rng, fb, 0.15)
        first_b = j % 2 == 1                                      # which of the two is the world's file format
        g = WorldGen(rng, lb if first_b else la)
        hosts = ["las", "las"] if j % 3 else [rng.choice(HOSTS), rng.choice(HOSTS)]
        g.add({"s": "mem", "id": "o0", "host": hosts[0]})
        g.k = 1
        other = g.foreign(la if first_b else lb, hosts[1])
        a, b = ("o0", other) if not first_b else (other, "o0")    # a: format 0-5, b: format 6-10
        subs = foreign_names(g.ow.fmt_of(g.ow.objs[a]))[0]        # names that are sub-fields of b only
        tab, _ = fmt_table(g.ow.fmt_of(g.ow.objs[b]))
        masks = {nm: m for nm, _, m in tab}
        nb = len(g.ow.objs[b]["pos"])
        kindb = "las" if g.ow.is_las[b] else "packed"

        def assign_b(name, bad=False):
            maxv = masks[name] >> lsb_of(masks[name])
            path = rng.choice(["setattr", "setattr", "setitem"] + (["points_setattr"] if kindb == "las" else []))
            n_now = len(g.ow.objs[b]["pos"])
            g.add({"s": "op", "on": b, "op": {"op": "seq", "field": name, "path": path, "value": gen_value(rng, n_now, maxv, bad, False)}})

        history_first = j % 4 < 2
        if not history_first:
            for nm in subs:
                assign_b(nm)
        for nm in subs + ["user_note"]:
            g.plain(on=a, name=nm, path="setattr" if rng.random() < 0.8 or not g.ow.is_las[a] else "points_setattr")
        for nm in subs:
            assign_b(nm)
            assign_b(nm, bad=True)
        g.op(on=b)
        for nm in subs[:1]:
            g.plain(on=a, name=nm, path=rng.choice(["setitem", "setattr"]))
        if subs:
            g.plain(on=b, name="user_note", path="setattr")
            g.plain(on=a, name="user_note", path="setattr")
        g.op(on=a)
        g.op(on=b)
        out.append(g.session())
    return out


def kept_worlds(rng, thorough=False):
    """round 6: what was taken from a LasData EARLIER (sub-field views through every path, a slice of its record, a slice of
    the LasData) across every operation in between that is not an assignment: after each of them an assignment through each
    kept handle (it must reach the LasData where the unchanged code keeps the array in place, and must not where the LasData got
    a new record), then an assignment on the LasData itself (the kept handles read it)"""
    out = []
    for base in range(11):
        for host in (["las"] if not thorough else ["las", "las"]):
            g = WorldGen(rng, gen_layout(rng, base, 0.4))
            g.add({"s": "mem", "id": "o0", "host": host})
            g.k = 1
            tab, _ = fmt_table(base)
            names = rng.sample([nm for nm, _, _ in tab], 2)
            handles = []
            for nm in names:
                paths = ["item", "attr", "points_item", "points_attr"] + (["old", "old_attr"] if nm in OLD_NAMES else [])
                vid = g.new_id()
                g.add({"s": "hold", "id": vid, "of": "o0", "field": nm, "path": rng.choice(paths), "chain": [] if rng.random() < 0.6 else [gen_slice(rng, g.n)]})
                handles.append(vid)
            sid = g.new_id()
            g.add({"s": "slice", "id": sid, "of": "o0", "v": rng.choice([[None, None, None], [None, None, 2], [None, None, -1], [1, None, None]])})
            handles.append(sid)
            hows = list(WorldGen.TOUCH_LAS[:5] + WorldGen.TOUCH_LAS[6:]) + ["resize", "extradims"]
            if not thorough:
                hows = ["write_offsets", "writer"] + rng.sample(hows, 3)
            else:
                rng.shuffle(hows)
            for how in hows:
                if not g.touch(on="o0", how=how):
                    continue
                for h in handles:
                    g.op(on=h)
                g.op(on="o0")
                if how in ("resize", "extradims"):                 # the handles taken now are attached again
                    vid = g.new_id()
                    g.add({"s": "hold", "id": vid, "of": "o0", "field": rng.choice(names), "path": "attr", "chain": []})
                    handles = handles[-2:] + [vid]
            out.append(g.session())
    return out


def world_failures(worlds, ctx=None, keep=None):
    out = []
    for sess in worlds:
        try:
            fail, trace = run_world(sess)
        except Exception as ex:                                   # the objects could not even be observed
            import traceback
            tb = traceback.extract_tb(ex.__traceback__)
            fail, trace = {"kind": "objects: observing the objects raised", "input": sess,
                           "observed": f"{type(ex).__name__}: {str(ex)[:120]} at {tb[-1].filename.split('/')[-1]}:{tb[-1].lineno}"}, []
        if keep is not None:
            keep.append((sess, trace, fail))
        if ctx is not None:
            for st in sess["steps"]:
                ctx.count("world:" + st["s"] + (":" + st["op"]["op"] if st["s"] == "op" else ""))
        if fail:
            out.append(fail)
    return out


_WORLD_FAILS = []


def correspond_worlds(ctx):
    """worlds on the implementation, on the property (failures kept for `search`) and on the model (wrun)"""
    worlds = (family_worlds(ctx.rng, ctx.thorough()) + pattern_worlds(ctx.rng) + kept_worlds(ctx.rng, ctx.thorough())
              + [gen_world(ctx.rng) for _ in range(ctx.n(450, 8000))])
    kept = []
    _WORLD_FAILS.extend(world_failures(worlds, ctx, kept))
    cmds = ["sf_world " + ";".join(trace[-1][5][:trace[-1][3] + 1] if trace[-1][3] is not None else trace[-1][5])
            for _, trace, _ in kept if trace]
    outs = iter(common.run_model(cmds, name=DRIVER))
    dis = []
    for sess, trace, _ in kept:
        if not trace:
            continue
        mo = next(outs).split(";")
        ctx.case("world " + json.dumps(sess["steps"], sort_keys=True)[:400], nontrivial=len(trace[-1][2]) > 1,
                 sample={"world": {**sess, "raw": sess["raw"][:32] + "..."}} if len(ctx.samples) < 8 and len(trace) > 3 else None)
        for i, (st, exp, state, mstep, midx, _) in enumerate(trace):
            if mstep is None or mstep >= len(mo):
                continue
            ctx.traces += 1
            mstatus, mobjs = mo[mstep].split("@")
            mobjs = mobjs.split("#")
            bad = None
            if mstatus != exp and st["s"] != "plain":             # (a name that is no dimension: kept or refused is not the model's)
                bad = (mstatus, exp)
            else:
                for k, (f, have) in state.items():
                    if mobjs[midx[k]] != cols_tok(f, have):
                        bad = (f"object {k}: " + mobjs[midx[k]][:120], cols_tok(f, have)[:120])
                        break
            if bad:
                dis.append({"kind": "world " + step_class(st), "input": {"world": {**sess, "steps": sess["steps"][:i + 1]}, "step": i},
                            "model": str(bad[0])[:200], "impl": str(bad[1])[:200]})
                break
    return dis


def oracle_element(fmt, name, composed, m, v, rng, clash=None):
    """property on the implementation, no model involved"""
    lsb = (m & -m).bit_length() - 1
    maxv = m >> lsb
    im = impl_column(fmt, name, composed, v, rng, clash)
    if 0 <= v <= maxv:
        if im[0] != "ok":
            return f"in-range value {v} refused ({im[1]})"
        got = np.frombuffer(im[1], dtype=np.uint8)
        b = np.arange(256, dtype=np.uint8)
        if not np.array_equal((got & m) >> lsb, np.full(256, v)):
            return f"value {v} does not read back"
        if not np.array_equal(got & (~m & 0xFF), b & (~m & 0xFF)):
            bad = int(np.nonzero((got & (~m & 0xFF)) != (b & (~m & 0xFF)))[0][0])
            return f"sibling bits changed: prior byte {bad:#04x} became {int(got[bad]):#04x} after {name} = {v}"
        if not im[2]:
            return "another dimension changed"
    else:
        if im[0] != "err" or im[1] != "EOverflow":
            return f"out-of-range value {v} not refused with OverflowError ({im[0]} {im[1] if im[0] == 'err' else ''})"
        if not im[2]:
            return f"out-of-range value {v} modified the record before raising"
    return None


def oracle_special(rng, only=None):
    """aliasing and empty-selection cases of the property, on the implementation. Every operation in them is one the
    property requires to succeed (or to raise OverflowError where stated): any other exception is a failing input."""
    out = []
    for fmt, name, composed, m in [(lf, nm, c, m) for f, nm, c, m in sub_fields() for lf in (f, layout(f, [(nm, "uint16", False)]))]:
        # (every case also on the layout that has an extra dimension named like the sub-field)
        if only is not None and (fmt, name) != only:
            continue
        try:
            _special_checks(out, fmt, name, composed, m, rng)
        except Exception as ex:
            import traceback
            tb = traceback.extract_tb(ex.__traceback__)
            here = [f for f in tb if f.filename.endswith("c09.py")]
            out.append((f"unexpected exception {name}", {"format": fmt, "field": name},
                        f"{type(ex).__name__}: {str(ex)[:120]} raised by `{(here[-1].line if here else '?')}` "
                        f"(at {tb[-1].filename.split('/laspy/')[-1]}:{tb[-1].lineno}), an operation that must succeed"))
    return out


def _special_checks(out, fmt, name, composed, m, rng):
    lsb = (m & -m).bit_length() - 1
    maxv = m >> lsb
    n = 9
    rec = fresh_record(fmt, rng, n)
    vals = np.array(rec[name]).copy()
    full = rec.array.copy()
    # a live view of the same field as the value: v[:] = v, v[:] = v[::-1], shifted overlapping slices
    rec[name][:] = rec[name]
    if rec.array.tobytes() != full.tobytes():
        out.append((f"self-assignment {name}", {"format": fmt, "field": name}, f"{name}[:] = {name} changed the record"))
    rec = fresh_record(fmt, rng, n); vals = np.array(rec[name]).copy(); other = rec.array.copy()
    rec[name][:] = rec[name][::-1]
    if not np.array_equal(np.array(rec[name]), vals[::-1]):
        out.append((f"reversed self-assignment {name}", {"format": fmt, "field": name}, f"{name}[:] = {name}[::-1] gave {np.array(rec[name]).tolist()} expected {vals[::-1].tolist()}"))
    # overlapping live views: shifted by one point, and a live view of a sibling sharing the byte as the value
    rec = fresh_record(fmt, rng, n); vals = np.array(rec[name]).copy(); raw0 = rec.array.copy()
    rec[name][1:] = rec[name][:-1]
    if np.array(rec[name]).tolist() != [vals[0]] + vals[:-1].tolist() or not all(
            raw0[f].tobytes() == rec.array[f].tobytes() for f in raw0.dtype.names if f != composed) or np.any((raw0[composed] ^ rec.array[composed]) & ~np.uint8(m)):
        out.append((f"shifted self-assignment {name}", {"format": fmt, "field": name}, f"{name}[1:] = {name}[:-1] gave {np.array(rec[name]).tolist()} from {vals.tolist()}"))
    for sfmt_, sname, scomp, sm in sub_fields():
        if sfmt_ == base_fmt(fmt) and scomp == composed and sname != name and (sm >> ((sm & -sm).bit_length() - 1)) <= maxv:
            rec = fresh_record(fmt, rng, n); svals = np.array(rec[sname]).copy()
            rec[name][:] = rec[sname]
            if np.array(rec[name]).tolist() != svals.tolist() or np.array(rec[sname]).tolist() != svals.tolist():
                out.append((f"sibling-view assignment {name}", {"format": fmt, "field": name, "value_view": sname},
                            f"{name}[:] = {sname} (live view of the same byte) gave {np.array(rec[name]).tolist()}, {sname} = {svals.tolist()}"))
            break
    rec = fresh_record(fmt, rng, n); vals = np.array(rec[name]).copy()
    setattr(rec, name, rec[name])
    if not np.array_equal(np.array(rec[name]), vals):
        out.append((f"attribute self-assignment {name}", {"format": fmt, "field": name}, "rec.f = rec.f changed the field"))
    # the packed record is resized between two assignments (a cached view of the old array would swallow the second one)
    rec = fresh_record(fmt, rng, n)
    _ = rec[name]
    rec.resize(n + 3)
    rec[name][:] = maxv
    if not np.array_equal(np.array(rec[name]), np.full(n + 3, maxv)) or not np.array_equal((rec.array[composed] & m) >> lsb, np.full(n + 3, maxv)):
        out.append((f"assignment after resize {name}", {"format": fmt, "field": name}, f"after resize(), {name}[:] = {maxv} did not reach the record's packed bytes"))
    rec.resize(2)
    rec[name] = np.array([0, maxv])
    if ((rec.array[composed] & m) >> lsb).tolist() != [0, maxv]:
        out.append((f"assignment after resize {name}", {"format": fmt, "field": name}, "after shrinking, the assignment did not reach the record"))
    # per-point values through the list-of-names form
    rec = fresh_record(fmt, rng, n)
    want = np.array([rng.randrange(maxv + 1) for _ in range(n)])
    rec[[name]] = want
    if not np.array_equal(np.array(rec[name]), want):
        out.append((f"list-of-names assignment {name}", {"format": fmt, "field": name, "values": want.tolist()}, f"rec[[{name!r}]] = values stored {np.array(rec[name]).tolist()}"))
    rec = fresh_record(fmt, rng, n); before = rec.array.tobytes()
    bad = want.copy(); bad[n // 2] = maxv + 1
    try:
        rec[[name]] = bad
        out.append((f"list-of-names out-of-range {name}", {"format": fmt, "field": name}, "an out-of-range value in the middle of the array was not refused"))
    except OverflowError:
        if rec.array.tobytes() != before:
            out.append((f"list-of-names out-of-range {name}", {"format": fmt, "field": name}, "record modified although OverflowError was raised"))
    except Exception as ex:
        out.append((f"list-of-names out-of-range {name}", {"format": fmt, "field": name}, f"raised {type(ex).__name__}"))
    # every OTHER sub-field of the format, read by name, keeps its values (two fields sharing a bit would fail here)
    rec = fresh_record(fmt, rng, 64)
    others = {o[1]: np.array(rec[o[1]]).copy() for o in sub_fields() if o[0] == base_fmt(fmt) and o[1] != name}
    rec[name][:] = np.array([rng.randrange(maxv + 1) for _ in range(64)])
    for on, ov in others.items():
        if not np.array_equal(np.array(rec[on]), ov):
            out.append((f"sibling {on} changed by {name}", {"format": fmt, "field": name, "sibling": on}, f"assigning {name} changed the values of {on}"))
            break
    # values that cannot be broadcast onto the selection: refused (ValueError), nothing modified - in particular the
    # field is not left cleared; an out-of-range value among them is still an OverflowError
    for key, cnt, kd in ((slice(0, 4), 3, "slice of 4, 3 values"), (slice(None), n + 2, "whole view, n+2 values"),
                         (np.arange(n) % 2 == 0, 2, "mask of 5, 2 values"), ([0, 1, 2], 2, "index list of 3, 2 values")):
        for badv in (False, True):
            rec = fresh_record(fmt, rng, n); before = rec.array.tobytes()
            vals_ = [rng.randrange(maxv + 1) for _ in range(cnt)]
            if badv:
                vals_[-1] = maxv + 1
            try:
                rec[name][key] = vals_
                out.append((f"shape mismatch {name}", {"format": fmt, "field": name, "key": kd, "values": vals_}, "accepted"))
            except (OverflowError if badv else ValueError):
                pass
            except Exception as ex:
                out.append((f"shape mismatch {name}", {"format": fmt, "field": name, "key": kd, "values": vals_}, f"raised {type(ex).__name__}"))
            if rec.array.tobytes() != before:
                out.append((f"shape mismatch {name}", {"format": fmt, "field": name, "key": kd, "values": vals_},
                            f"{name}[{kd}] = {vals_} was refused but the record was modified"))
    # out-of-range value with a selection that addresses nothing
    for key, kd in ((np.zeros(n, dtype=bool), "mask matching nothing"), (slice(0, 0), "empty slice")):
        for v in (maxv + 1, -1):
            rec = fresh_record(fmt, rng, n); before = rec.array.tobytes()
            try:
                rec[name][key] = v
                out.append((f"out-of-range with empty selection {name}", {"format": fmt, "field": name, "value": v, "key": kd}, f"{name}[{kd}] = {v} did not raise OverflowError"))
            except OverflowError:
                pass
            except Exception as ex:
                out.append((f"out-of-range with empty selection {name}", {"format": fmt, "field": name, "value": v, "key": kd}, f"raised {type(ex).__name__}"))
            if rec.array.tobytes() != before:
                out.append((f"empty selection modified {name}", {"format": fmt, "field": name}, "record modified"))


def search_sessions(ctx):
    """the property on fresh sessions (independent of the correspondence run: also used when the model could not be built)"""
    out = []
    for sess in chunk_sessions(ctx.rng) + [gen_session(ctx.rng) for _ in range(ctx.n(600, 6000))]:
        out.extend(session_failures(sess, run_session(sess)))
    return out


def fresh_world(sess, timeout=120):
    """round 7: the world in a NEW python process (nothing any earlier world left behind in the library): the kind of its
    failure, None if it passes, "?" if the process could not be run"""
    import subprocess
    import sys
    code = ("import sys, json; d = json.load(sys.stdin); sys.path[:0] = [p for p in d['path'] if p not in sys.path]\n"
            "from harness.props import c09\n"
            "try:\n"
            "    if 'ops' in d['sess']:\n"
            "        fs = c09.session_after(d['sess'])\n"
            "        f = fs[0] if fs else None\n"
            "    else:\n"
            "        f, _ = c09.run_world(d['sess'])\n"
            "    print('FRESH ' + json.dumps(f['kind'] if f else None))\n"
            "except Exception as ex:\n"
            "    print('FRESH ' + json.dumps('objects: observing the objects raised'))\n")
    try:
        r = subprocess.run([sys.executable, "-c", code], input=json.dumps({"path": [p for p in sys.path if p], "sess": sess}),
                           capture_output=True, text=True, timeout=timeout, cwd=common.VERIF)
        for line in r.stdout.splitlines():
            if line.startswith("FRESH "):
                return json.loads(line[6:])
    except Exception:
        pass
    return "?"


def session_after(inp):
    """a single-record history, after the worlds listed under "before" were run in the same process"""
    for earlier in inp.get("before", []):
        try:
            run_world(earlier)
        except Exception:
            pass
    return session_failures(inp, run_session(inp))


def self_contained(fails, budget=10, history=None):
    """round 7: every failing world that is reported must fail in a process of its own. One that does not (it was found
    only because of what EARLIER worlds of this run left behind in the library) is given the first self-contained failing
    world as its "before" history; if it still passes it is reported last, marked."""
    good, loose = [], []
    for f in fails:
        if budget <= 0:
            loose.append(f)
            continue
        budget -= 1
        k = fresh_world(f["input"])
        if k == "?" or k is not None:
            good.append(f)
            continue
        loose.append(f)
    out = list(good)
    history = history or [g["input"] for g in good if "world" in g["input"]][:1]
    for f in loose:
        if history and budget > 0:
            budget -= 1
            inp = {**f["input"], "before": history}
            if fresh_world(inp) not in (None, "?"):
                out.append({**f, "kind": f["kind"] + " (after other objects were used in the process)", "input": inp})
                continue
        out.append({**f, "kind": f["kind"] + " (only after the earlier worlds of this run: state kept in the process)"})
    return out


def search_worlds(ctx):
    """the property across objects on fresh worlds (also when the model could not be built); assignments that break it first"""
    fails = _WORLD_FAILS + world_failures(family_worlds(ctx.rng, ctx.thorough()) + pattern_worlds(ctx.rng) + kept_worlds(ctx.rng, ctx.thorough())
                                          + [gen_world(ctx.rng) for _ in range(ctx.n(200, 4000))])
    fails.sort(key=lambda f: 0 if f["input"]["steps"][-1]["s"] in ("op", "copyfrom", "vset") else 1)
    out, seen = [], set()
    for f in fails:
        if f["kind"] not in seen and len(out) < 4:
            seen.add(f["kind"])
            try:
                f = shrink_world(f["input"], f)
            except Exception:
                pass
            out.append(f)
    return self_contained(out) if out else out


def search(ctx, seeds):
    failing, seen = [], set()
    for f in search_routes(ctx):                                  # the sweep of the read routes first: at most three classes
        if f["kind"] not in seen and len(failing) < 3:
            seen.add(f["kind"])
            failing.append(f)
    nroute = len(failing)
    sf = []
    for f in _SESSION_FAILS + search_sessions(ctx):
        if f["kind"] not in seen:
            seen.add(f["kind"])
            sf.append(f)
    wf = search_worlds(ctx)
    if sf:
        # (round 7) a history on one record that fails only because of what the worlds run earlier in this process left behind
        # in the library is reported with such a world as its "before" history
        sf = self_contained(sf[:6], budget=8, history=[w["input"] for w in wf if "world" in w["input"] and "before" not in w["input"]][:1])
    failing = (failing + sf)[:6 + nroute]
    failing = failing[:6 + nroute - min(3, len(wf))] + wf[:3]
    seen.update(f["kind"] for f in wf)
    for f in _ARR_FAILS:
        if f["kind"] not in seen:
            seen.add(f["kind"])
            failing.append(f)
    for kind, inp, why in oracle_special(ctx.rng):
        k = kind.split(" ")[0] + " " + kind.split(" ")[1]
        if k not in seen:
            seen.add(k)
            failing.append({"kind": kind, "input": inp, "observed": why})
    for fmt, name, composed, m in sub_fields():
        for v in values(ctx):
            why = oracle_element(fmt, name, composed, m, v, ctx.rng)
            if why:
                kind = f"assign {name} value {'negative' if v < 0 else 'too large' if v > (m >> ((m & -m).bit_length() - 1)) else 'in range'}"
                if kind not in seen:
                    seen.add(kind)
                    failing.append({"kind": kind, "input": {"format": fmt, "field": name, "value": v, "extra_dimension_named_like_it": v % 4 == 1}, "observed": why})
    return failing[:12]


def replay(ctx, data):
    inp = data.get("failing_input", {}).get("input")
    if inp and "world" in inp:
        fail, _ = run_world(inp)
        print("REPRODUCED: " + fail["kind"] + ": " + fail["observed"] if fail else "not reproduced")
        return 1 if fail else 0
    if inp and "ops" in inp:
        fails = session_after(inp)
        print("REPRODUCED: " + fails[0]["kind"] + ": " + fails[0]["observed"] if fails else "not reproduced")
        return 1 if fails else 0
    if not inp or "field" not in inp:
        print("nothing to replay")
        return 0
    if "value" not in inp or isinstance(inp.get("value"), str) or "key" in inp or "value_view" in inp or "sibling" in inp or "values" in inp:
        fails = oracle_special(ctx.rng, only=(inp["format"], inp["field"])) if "index" not in inp else []
        for kind, _, why in fails:
            print("REPRODUCED: " + kind + ": " + why)
        if not fails:
            print("not reproduced")
        return 1 if fails else 0
    sf = [s for s in sub_fields() if s[0] == inp["format"] and s[1] == inp["field"]][0]
    why = oracle_element(sf[0], sf[1], sf[2], sf[3], inp["value"], ctx.rng, inp.get("extra_dimension_named_like_it"))
    print("REPRODUCED: " + why if why else "not reproduced")
    return 1 if why else 0
