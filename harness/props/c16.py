"""C16 — COPC HTTP fetching is schedule-independent and always terminates.

Model: coq/Model/Fetch.v — transition systems whose worker loop / main function / HttpRangeStream.read are the instruction
lists that tools/py2v_c16.py extracts from laspy/copc.py (Gen/GenFetch.v); the queue strategy is replayed in the step-by-step
system (pstate: one step per put / thread start of main), which Proofs/FetchPrologueProofs.v shows to refine the system with an
atomic prologue the safety / progress / termination theorems are proved on.  Whether a request fails is computed by the model
from the status the fake server answers with (stream_fails gen_stream_read).

Tie (schedule replay): the REAL HttpFetcherThread / http_queue_strategy / http_thread_executor_strategy / HttpRangeStream run in
this process against instrumented doubles patched into the `laspy.copc` namespace only: queue.Queue / SimpleQueue doubles, a
fake `requests` session under the real HttpRangeStream (subclassed to make `seek` observable), a ThreadPoolExecutor subclass.
Every queue operation (INCLUDING the main thread's query_queue.put calls), every thread start of the queue strategy, request
completion, seek (executor), future.result() and the pool shutdown hands control to a controller that lets exactly one thread
move at a time, following a schedule (list of thread ids).  A failing request is an answer of the fake server with any 4xx / 5xx
status (incl. 416) and an error body of any length (empty, shorter, as long as, longer than the range), or no answer at all
(session.get raises); empty ranges (the byte query of nodes without points) are part of the inputs. The executed trace is replayed in the
extracted model, which must accept it (same operations in the same order per thread) and end in the same outcome: bytes /
exception, which workers have exited, nobody blocked.

Search: the property stated on the implementation alone: same bytes as the local read, a failure surfaces as the exception of a
failed request, every thread started has finished (threading.enumerate()), no deadlock — over model-independent schedules
(random priority policies and the adversarial ones).

After the call: the controller notes the moment every observed call (a strategy call, a CopcReader.query) returns or raises -
which of the threads it started are not finished and what each is about to do, how many requests the server has seen - and keeps
driving those threads: any operation for a range (request, seek, result published, task_done, job begun) or any range request after
that moment is a failing input ("worker thread still at work / range request issued after the call returned|raised"); model:
C16_queue_steps_only_exits_after_done, C16_exec_nothing_after_done, compared per trace (quiet=).  A fail-fast schedule (a failed
request answered before every other request in flight, main running whenever it can) is among the adversarial ones.

Sessions: successive calls of a strategy on one source, and successive queries on ONE CopcReader over the fake http source
(levels / boxes growing and shrinking, so that byte ranges start at the same offset with different lengths; repeats; unrelated
ones), persistent and transient faults: each must equal the local answer for ITS ranges.  Model: reader_session gen_fetch_site
(what the reader keeps between queries - nothing), compared on the compressed bytes each query hands to the LAZ backend.
"""
import io
import struct
import threading
import time
from collections import deque
from queue import Empty

from harness import common

DRIVER = "c16"
ASSUMPTIONS = [
    "stdlib semantics assumed, not verified: queue.Queue (FIFO, unfinished_tasks/join/task_done), queue.SimpleQueue, "
    "threading.Thread, concurrent.futures.ThreadPoolExecutor (FIFO work queue, Future.result(), shutdown(wait=True) on leaving "
    "the with block); they are replaced by instrumented doubles with exactly these semantics during replay",
    "the HTTP server answers a range request with exactly the requested bytes (status 206), with a client/server error status "
    "400..599 and any body, or not at all (the session raises); requests.Response.raise_for_status raises exactly for 400..599; "
    "requests' retry adapter, sockets and success answers with a body of the wrong length are outside the model; at least one "
    "worker (http_num_threads >= 1)",
    "byte ranges handed to the strategies have strictly increasing offsets (what CopcReader builds from distinct nodes); "
    "for unsorted ranges the queue strategy returns the blocks in offset order (proved and compared, not required by the oracle)",
    "the OS scheduler is abstracted to: any interleaving of the threads at queue operations (main's puts included), thread "
    "starts (queue strategy), request completions, seeks, future.result() and pool shutdown; code between two such points of "
    "one thread is treated as atomic",
    "http_queue_strategy does not join the threads it starts: a worker that has marked its last range done may still be on its way out "
    "(one non-blocking take that finds the queue empty, closing its stream) when the call returns; that is not counted as work "
    "(proved: it is the only step left, C16_queue_steps_only_exits_after_done), threading.enumerate() is checked once those steps ran",
    "end-to-end queries use harness/fake_lazrs as the LAZ backend; a chunk-table entry (0 points, 0 bytes) - an empty COPC "
    "node - is dropped before the stand-in sees it (it rejects a 0-byte chunk)",
]

WAIT = 8.0       # seconds the controller waits for the threads to reach their next control point before calling it a hang


class Abort(BaseException):
    """raised inside controlled threads to unwind them when a run is abandoned (passes `except Exception`)"""


class FakeHTTPError(Exception):
    """what requests raises: HTTPError from raise_for_status (status 4xx/5xx) or a ConnectionError (status -1)"""

    def __init__(self, start, n, status=500):
        super().__init__(f"{status} Error for range {start}+{n}" if status >= 0 else f"connection error for range {start}+{n}")
        self.range = (start, n)
        self.status = status


# what a failing request is answered with: (status, body kind); status -1 = no answer, session.get raises
STATUSES = [416, 500, 404, 403, 503, 400, 429, 502, 401, 504, 408, 410, 599]
BODIES = ["empty", "short", "exact", "long"]
FAULTS = [(st, BODIES[(i + k) % 4]) for k in range(4) for i, st in enumerate(STATUSES)]
FAULTS.insert(5, (-1, "none"))


class FaultCycle:
    """hands out the fault kinds in a fixed order, so that every run covers every status x body kind (both strategies get
    the same fault for the same failing set)"""

    def __init__(self):
        self.k = 0

    def next(self):
        f = FAULTS[self.k % len(FAULTS)]
        self.k += 1
        return f

    def assign(self, failing):
        return {tuple(r): self.next() for r in failing}


def error_body(kind, n):
    return {"empty": b"", "short": b"\xee" * max(0, n - 1), "exact": b"\xee" * n, "long": b"\xee" * (n + 7), "none": b""}[kind]


class TInfo:
    __slots__ = ("tid", "thread", "state", "label", "enabled", "granted", "extra", "gate")

    def __init__(self, tid, thread, state):
        self.tid, self.thread, self.state = tid, thread, state
        self.label = None
        self.enabled = None
        self.granted = False
        self.extra = None
        self.gate = threading.Lock()          # binary gate: held by the controller, released to grant
        self.gate.acquire()


class Controller:
    """cooperative scheduler: one controlled thread moves at a time"""

    def __init__(self, mode, schedule=None, policy=None, seek_yields=False):
        self.mode = mode                      # 'queue' | 'exec' | 'free'
        self.schedule = list(schedule or [])
        self.policy = policy
        self.seek_yields = seek_yields
        self.cv = threading.Lock()            # protects the bookkeeping below
        self.wake = threading.Lock()          # binary event: released whenever a thread changed state
        self.wake.acquire()
        self.infos = []                       # by tid
        self.by_ident = {}
        self.trace = []                       # (window, tid, label, extra)
        self.window = 0
        self.aborting = False
        self.submitted = 0
        self.begun = 0
        self.done_jobs = set()
        self.shutdown_flag = False
        self.executors = []
        self.query_queue = None
        self.thread_errors = []
        self.problem = None                   # ('deadlock', [...]) | ('hang', [...])
        self.decisions = []                   # what was granted: tids
        self.boundaries = []                  # one per observed call (strategy call / query): the moment it returned or raised

    # ---- called by controlled threads
    def ping(self):
        try:
            self.wake.release()
        except RuntimeError:
            pass

    def me(self):
        return self.by_ident.get(threading.get_ident())

    def register(self, thread):
        with self.cv:
            info = TInfo(len(self.infos), thread, "limbo" if (self.mode == "exec" and self.infos) else "running")
            self.infos.append(info)
        orig_run = thread.run

        def run():
            with self.cv:
                self.by_ident[threading.get_ident()] = info
            try:
                orig_run()
            except Abort:
                pass
            except BaseException as ex:  # noqa  (what threading.excepthook would report)
                self.thread_errors.append((info.tid, type(ex).__name__, str(ex)))
            finally:
                with self.cv:
                    info.state = "finished"
                self.ping()
        thread.run = run
        return info

    def point(self, label, enabled=None, extra=None):
        info = self.me()
        if info is None:
            return
        with self.cv:
            if self.aborting:
                raise Abort()
            info.state, info.label, info.enabled, info.extra = "parked", label, enabled, extra
        self.ping()
        while True:
            got = info.gate.acquire(timeout=0.5)
            with self.cv:
                if info.granted:
                    info.granted = False
                    return
                if self.aborting:
                    raise Abort()

    def log(self, label, extra=None):
        info = self.me()
        if info is None:
            return
        with self.cv:
            self.trace.append((self.window, info.tid, label, extra))

    def boundary(self, world, how):
        """called by the main controlled thread at the moment an observed call returns or raises: what has been traced and
        requested so far, which threads exist and what each unfinished one is about to do"""
        with self.cv:
            if self.aborting:
                return
            self.boundaries.append({"how": how, "trace": len(self.trace), "requests": len(world.requests),
                                    "failed": len(world.failed), "tids": len(self.infos), "jobs": self.submitted,
                                    "alive": [(i.tid, i.state, i.label) for i in self.infos[1:] if i.state != "finished"]})

    def job_begin(self, idx):
        info = self.me()
        with self.cv:
            self.begun += 1
            if info is not None:
                info.state = "running"
                self.trace.append((self.window, info.tid, "begin", idx))
        self.ping()

    def job_end(self, idx):
        info = self.me()
        with self.cv:
            self.done_jobs.add(idx)
            if info is not None and not self.aborting:
                info.state = "limbo"
        self.ping()

    # ---- the driving loop (harness thread)
    def quiescent(self):
        limbo = 0
        for i in self.infos:
            if i.state == "running":
                return False
            if i.state == "limbo":
                limbo += 1
        if limbo:
            unbegun = self.submitted - self.begun
            if self.shutdown_flag or unbegun > 0:
                return False
        return True

    def choose(self, enabled):
        ids = [i.tid for i in enabled]
        while self.schedule:
            t = self.schedule.pop(0)
            if t in ids:
                return enabled[ids.index(t)]
        if self.policy is not None:
            return self.policy(self, enabled)
        return enabled[0]

    def drive(self):
        deadline = time.time() + 60
        while True:
            t_end = time.time() + WAIT
            while True:
                with self.cv:
                    if self.quiescent():
                        break
                left = t_end - time.time()
                if left <= 0:
                    with self.cv:
                        self.problem = ("hang", [(i.tid, i.state, i.label) for i in self.infos if i.state in ("running", "limbo")])
                    return
                self.wake.acquire(timeout=min(left, 0.2))
            with self.cv:
                parked = [i for i in self.infos if i.state == "parked"]
                if not parked:
                    return
                enabled = [i for i in parked if i.enabled is None or i.enabled()]
                if not enabled:
                    self.problem = ("deadlock", [(i.tid, i.label) for i in parked])
                    return
                if time.time() > deadline:
                    self.problem = ("hang", [("run exceeded 60 s", "", "")])
                    return
                info = self.choose(enabled)
                self.window += 1
                self.trace.append((self.window, info.tid, info.label, info.extra))
                self.decisions.append(info.tid)
                info.state = "running"
                info.granted = True
            info.gate.release()

    def abort(self):
        with self.cv:
            self.aborting = True
        for i in self.infos:
            try:
                i.gate.release()
            except RuntimeError:
                pass
        for ex in self.executors:
            try:
                ex._real_shutdown(wait=False)
            except Exception:
                pass

    def events(self):
        return render(self.trace)


def render(trace, tid0=0, job0=0):
    """trace in model order: `begin` events of one window sorted by job index (they are not ordered by any controlled op);
    tid0 / job0: worker ids and job indices are renumbered relative to these (one call of a session)"""
    out = []
    cur = []

    def tn(t):
        return t if t == 0 else t - tid0
    for w, tid, label, extra in trace:
        if label == "begin":
            cur.append((extra - job0, tn(tid)))
            continue
        if cur:
            out += [f"{t}.begin.{j}" for j, t in sorted(cur)]
            cur = []
        out.append(f"{tn(tid)}.{label}")
    if cur:
        out += [f"{t}.begin.{j}" for j, t in sorted(cur)]
    return out


CURRENT = None      # the controller of the run in progress
_ORIG_START = threading.Thread.start


def _patched_start(self):
    ctl = CURRENT
    if ctl is not None and ctl.me() is not None and not ctl.aborting:
        if ctl.mode == "queue":
            ctl.point("start")                 # ... and before each thread start
        ctl.register(self)
    return _ORIG_START(self)


# ------------------------------------------------------------------------------------------------ doubles
class CtlQueue:
    """queue.Queue double (FIFO, unfinished_tasks, join, task_done)"""

    def __init__(self, maxsize=0):
        self.items = deque()
        self.unfinished = 0
        if CURRENT is not None:
            CURRENT.query_queue = self

    def put(self, x, block=True, timeout=None):
        CURRENT.point("qput")                  # the main thread can be preempted between two puts
        self.items.append(x)
        self.unfinished += 1

    put_nowait = put

    def get_nowait(self):
        CURRENT.point("take")
        if not self.items:
            raise Empty
        return self.items.popleft()

    def get(self, block=True, timeout=None):
        if not block:
            return self.get_nowait()
        if timeout is not None:
            CURRENT.point("take")
            if not self.items:
                raise Empty
            return self.items.popleft()
        CURRENT.point("take", enabled=lambda: len(self.items) > 0)
        return self.items.popleft()

    def empty(self):
        CURRENT.point("test")
        return not self.items

    def qsize(self):
        CURRENT.point("test")
        return len(self.items)

    def task_done(self):
        CURRENT.point("done")
        if self.unfinished <= 0:
            raise ValueError("task_done() called too many times")
        self.unfinished -= 1

    def join(self):
        CURRENT.point("join", enabled=lambda: self.unfinished == 0)


class CtlSimpleQueue:
    def __init__(self):
        self.items = deque()

    def put(self, x, block=True, timeout=None):
        CURRENT.point("put")
        self.items.append(x)

    put_nowait = put

    def empty(self):
        CURRENT.point("drain")
        return not self.items

    def qsize(self):
        CURRENT.point("drain")
        return len(self.items)

    def get(self, block=True, timeout=None):
        if not self.items:
            if not block:
                raise Empty
            CURRENT.point("rget", enabled=lambda: len(self.items) > 0)
        return self.items.popleft()

    def get_nowait(self):
        return self.get(False)


class FakeResponse:
    def __init__(self, status, content, rng):
        self.status_code = status
        self.content = content
        self.ok = status < 400
        self.reason = "fake"
        self.headers = {"Content-Length": str(len(content))}
        self.text = ""
        self._rng = rng

    def raise_for_status(self):
        if 400 <= self.status_code < 600:
            raise FakeHTTPError(self._rng[0], self._rng[1], self.status_code)


class FakeSession:
    """what HttpRangeStream needs from requests.Session; the request completes when the controller says so"""

    def __init__(self, world):
        self.world = world
        self.closed = False

    def mount(self, *a, **k):
        pass

    def get(self, url, headers=None, **k):
        rng = headers["Range"]
        assert rng.startswith("bytes=")
        a, b = rng[6:].split("-")
        start, end = int(a), int(b)
        n = end - start + 1
        ctl = CURRENT
        if ctl is not None and not ctl.seek_yields:
            ctl.point("fetch", extra=(start, n))       # queue strategy: the request completes when the controller says so
        w = self.world
        me = ctl.me() if ctl is not None else None
        w.requests.append((start, n))
        w.request_tids.append(None if me is None else me.tid)
        fault = w.fault_for(start, n)
        if fault is None and (start >= len(w.file) or n <= 0):
            fault = (416, "empty")                      # what a server answers for a range outside the resource
        if fault is not None:
            w.failed.append((start, n))
            if fault[0] < 0:
                raise FakeHTTPError(start, n, -1)
            return FakeResponse(fault[0], error_body(fault[1], n), (start, n))
        return FakeResponse(206, bytes(w.file[start:end + 1]), (start, n))

    def close(self):
        self.closed = True


class World:
    """the server: the file, and what it answers the requests of the failing ranges with"""

    def __init__(self, file, faults=None, by_start=False, once=False):
        self.file = bytes(file)
        self.faults = dict(faults or {})       # (start, n) -> (status, body kind)   [by_start: start -> ...]
        self.by_start = by_start
        self.once = once                       # a fault hits the first request it applies to only (a transient error)
        self.requests = []
        self.request_tids = []                 # which controlled thread made the request (None: not a controlled thread)
        self.failed = []                       # the requests that were answered with an error / not answered

    def fault_for(self, start, n):
        key = start if self.by_start else (start, n)
        if self.once:
            return self.faults.pop(key, None)
        return self.faults.get(key)


_PATCH_LOCK = threading.Lock()


class Patched:
    """patches laspy.copc (this process only) for the duration of one run"""

    def __init__(self, ctl, world):
        self.ctl, self.world = ctl, world

    def __enter__(self):
        global CURRENT
        import laspy.copc as copc
        _PATCH_LOCK.acquire()
        self.copc = copc
        self.saved = {k: getattr(copc, k) for k in ("Queue", "SimpleQueue", "HttpRangeStream", "ThreadPoolExecutor",
                                                   "requests_retry_session", "requests")}
        real_stream = copc.HttpRangeStream
        real_tpe = copc.ThreadPoolExecutor
        ctl, world = self.ctl, self.world

        class InstrStream(real_stream):
            def seek(self, pos, whence=io.SEEK_SET):
                if ctl.seek_yields:
                    ctl.point("seek")
                return real_stream.seek(self, pos, whence)

            def read(self, n):
                # executor strategy: seek and read are separate observable operations of a job (a stream shared between
                # jobs could be moved in between); the whole read = range computation + response + position update is one step
                # (an empty range makes no request: the read itself is the step)
                if ctl.seek_yields or n == 0:
                    ctl.point("fetch", extra=(self.range_start, n))
                return real_stream.read(self, n)

        class FutProxy:
            def __init__(self, fut, idx):
                self._f, self._idx = fut, idx

            def result(self, timeout=None):
                ctl.point("collect", enabled=lambda: self._idx in ctl.done_jobs)
                return self._f.result(timeout)

            def __getattr__(self, name):
                return getattr(self._f, name)

        class CtlExecutor(real_tpe):
            def __init__(self, *a, **k):
                super().__init__(*a, **k)
                ctl.executors.append(self)
                with ctl.cv:
                    ctl.shutdown_flag = False          # a new pool (a later call of a session): nobody has shut it down yet

            def _real_shutdown(self, wait=True):
                real_tpe.shutdown(self, wait=wait)

            def submit(self, fn, *a, **k):
                with ctl.cv:
                    idx = ctl.submitted
                    ctl.submitted += 1

                def wrapped(*a2, **k2):
                    ctl.job_begin(idx)
                    try:
                        return fn(*a2, **k2)
                    finally:
                        ctl.job_end(idx)
                return FutProxy(real_tpe.submit(self, wrapped, *a, **k), idx)

            def shutdown(self, wait=True, **k):
                ctl.point("shutdown")
                real_tpe.shutdown(self, wait=False, **k)
                with ctl.cv:
                    ctl.shutdown_flag = True
                ctl.ping()
                if wait:
                    mine = [i for i in ctl.infos if i.thread in self._threads]
                    ctl.point("joined", enabled=lambda: all(i.state == "finished" for i in mine))
                    real_tpe.shutdown(self, wait=True)

            def __exit__(self, *exc):
                self.shutdown(wait=True)
                return False

        copc.Queue = CtlQueue
        copc.SimpleQueue = CtlSimpleQueue
        copc.HttpRangeStream = InstrStream
        copc.ThreadPoolExecutor = CtlExecutor
        copc.requests_retry_session = lambda *a, **k: FakeSession(world)
        if copc.requests is None:
            copc.requests = object()
        self.stream_cls = InstrStream
        threading.Thread.start = _patched_start
        self.hook = threading.excepthook
        threading.excepthook = lambda args: ctl.thread_errors.append((-1, args.exc_type.__name__, str(args.exc_value)))
        CURRENT = ctl
        return self

    def observed(self, f):
        """runs one call of the code under test in the main controlled thread and notes the moment it returns or raises"""
        try:
            out = ("returned", f())
        except Abort:
            raise
        except FakeHTTPError as ex:
            out = ("raised", ex.range)
        except Exception as ex:  # noqa
            out = ("error", common.exc_kind(ex) + ": " + str(ex)[:80])
        self.ctl.boundary(self.world, out[0])
        return out

    def __exit__(self, *exc):
        global CURRENT
        CURRENT = None
        threading.Thread.start = _ORIG_START
        threading.excepthook = self.hook
        for k, v in self.saved.items():
            setattr(self.copc, k, v)
        _PATCH_LOCK.release()
        return False


# ------------------------------------------------------------------------------------------------ one controlled run
WORK = ("fetch", "put", "done", "seek", "begin")     # what a thread does for a range it holds (everything but its exit path)


def calls_of(ctl, world):
    """per observed call: how it ended, the requests made / failed during it, and what the threads IT started still did for a
    range after it had returned or raised (`late`); a thread that only leaves (a last non-blocking take that finds the queue
    empty, closing its stream) is `winding_down`"""
    out = []
    prev = {"trace": 0, "requests": 0, "failed": 0, "tids": 1, "jobs": 0}
    for b in ctl.boundaries:
        mine = range(prev["tids"], b["tids"])
        own = [e for k, e in enumerate(ctl.trace) if e[1] in mine or (e[1] == 0 and prev["trace"] <= k < b["trace"])]
        late = [f"{tid}.{label}" for (_w, tid, label, _x) in ctl.trace[b["trace"]:] if tid in mine and label in WORK]
        late_req = [list(r) for r, t in zip(world.requests[b["requests"]:], world.request_tids[b["requests"]:]) if t in mine]
        alive = [a for a in b["alive"] if a[0] in mine]
        out.append({"how": b["how"], "threads": len(mine), "requests": list(world.requests[prev["requests"]:b["requests"]]),
                    "failed": list(world.failed[prev["failed"]:b["failed"]]),
                    "alive_at_return": [[t, st, lb] for t, st, lb in alive], "late": late, "late_requests": late_req,
                    "events": render(own, prev["tids"] - 1, prev["jobs"]),
                    "exited": [i.state == "finished" for i in ctl.infos[prev["tids"]:b["tids"]]],
                    "winding_down": len(alive) if not late and not late_req else 0})
        prev = b
    return out


def controlled_call(mode, world, fn, schedule=None, policy=None, seek_yields=False, session=False):
    """runs fn(patched) in a controlled thread; returns dict(outcome, events, exited, problem, leaked, errors, decisions, calls).
    session: fn makes several observed calls itself (p.observed) and returns the list of their outcomes"""
    before = set(threading.enumerate())
    ctl = Controller(mode, schedule, policy, seek_yields)
    res = {}
    with Patched(ctl, world) as p:
        def target():
            if session:
                try:
                    res["outcome"] = ("session", fn(p))
                except Abort:
                    raise
                except Exception as ex:  # noqa   (outside the observed calls: building the reader ...)
                    res["outcome"] = ("error", common.exc_kind(ex) + ": " + str(ex)[:80])
            else:
                res["outcome"] = p.observed(lambda: fn(p))
        t0 = threading.Thread(target=target, name="c16-main")
        info0 = ctl.register(t0)
        info0.state = "running"
        _ORIG_START(t0)
        ctl.drive()
        blocked = []
        if ctl.problem is not None:
            blocked = list(ctl.problem[1])
            ctl.abort()
        for i in ctl.infos:
            i.thread.join(3.0)
        started = [i.thread for i in ctl.infos]
    leaked = [t.name for t in threading.enumerate() if t not in before and t.is_alive()]
    leaked_ctl = [i.tid for i in ctl.infos if i.thread.is_alive()]
    return {
        "outcome": res.get("outcome", ("none", None)),
        "events": ctl.events(),
        "exited": [i.state == "finished" and not (ctl.problem and any(b[0] == i.tid for b in blocked)) for i in ctl.infos[1:]],
        "problem": ctl.problem,
        "leaked": leaked + [f"tid{t}" for t in leaked_ctl],
        "errors": list(ctl.thread_errors),
        "decisions": list(ctl.decisions),
        "requests": list(world.requests),
        "failed": list(world.failed),
        "threads": len(started) - 1,
        "calls": calls_of(ctl, world),
    }


def run_queue(file, ranges, workers, faults, schedule=None, policy=None):
    world = World(file, faults)

    def fn(p):
        src = p.stream_cls("http://fake/file.copc.laz")
        out = bytearray(sum(n for _, n in ranges))
        p.copc.http_queue_strategy(src, list(ranges), out, workers)
        return bytes(out)
    return controlled_call("queue", world, fn, schedule, policy, seek_yields=False)


def run_exec(file, ranges, workers, faults, schedule=None, policy=None):
    world = World(file, faults)

    def fn(p):
        src = p.stream_cls("http://fake/file.copc.laz")
        out = bytearray(sum(n for _, n in ranges))
        p.copc.http_thread_executor_strategy(src, list(ranges), out, workers)
        return bytes(out)
    return controlled_call("exec", world, fn, schedule, policy, seek_yields=True)


STRATEGY_FN = {"queue": "http_queue_strategy", "exec": "http_thread_executor_strategy"}


def run_session(mode, file, calls, workers, faults, schedule=None, policy=None, once=False):
    """several calls of one strategy, one after the other, on the same source object (what successive queries of one reader
    are to the strategies); calls: list of range lists.  outcome = ('session', [outcome of each call])"""
    world = World(file, faults, once=once)

    def fn(p):
        src = p.stream_cls("http://fake/file.copc.laz")
        outs = []
        for ranges in calls:
            def one(ranges=ranges):
                out = bytearray(sum(n for _, n in ranges))
                getattr(p.copc, STRATEGY_FN[mode])(src, list(ranges), out, workers)
                return bytes(out)
            outs.append(p.observed(one))
        return outs
    return controlled_call(mode, world, fn, schedule, policy, seek_yields=(mode == "exec"), session=True)


# ------------------------------------------------------------------------------------------------ schedules without the model
LABELS = ["test", "take", "fetch", "put", "done", "join", "drain", "seek", "collect", "shutdown", "joined", "rget", "qput", "start"]


def make_policy(prio, tid_pref, eps, rng):
    """choose the enabled thread whose pending operation comes first in `prio`; ties by lowest / highest thread id;
    with probability eps a uniformly random enabled thread instead"""
    rank = {l: i for i, l in enumerate(prio)}

    def policy(ctl, enabled):
        if eps and rng.random() < eps:
            return rng.choice(enabled)
        best = min(rank.get(i.label, 99) for i in enabled)
        cands = [i for i in enabled if rank.get(i.label, 99) == best]
        return cands[0] if tid_pref == "low" else cands[-1]
    return policy


def last_item_race(ctl, enabled):
    """two workers both past the emptiness test with one item left: while one range is queued let every worker reach its next
    queue operation and serve the tests before any take; otherwise the lowest worker runs alone"""
    q = ctl.query_queue
    workers = [i for i in enabled if i.tid > 0]
    if q is not None and len(q.items) == 1 and workers:
        tests = [i for i in workers if i.label == "test"]
        if tests:
            return tests[0]
        others = [i for i in workers if i.label not in ("take", "test")]
        if others:
            return others[-1]
        return workers[0]
    if workers:
        return workers[0]
    return enabled[0]


ADVERSARIAL = {
    # name: (label priority, thread preference)
    "main-first (a worker preempted between task_done and put)": (["qput", "start", "join", "drain", "rget", "collect", "shutdown", "joined", "take", "test", "fetch", "seek", "done", "put"], "low"),
    "main preempted between its puts / thread starts until no worker can move": (["take", "test", "fetch", "seek", "put", "done", "collect", "join", "drain", "start", "qput"], "low"),
    "main starts every worker it can before putting the next range": (["start", "take", "test", "fetch", "seek", "put", "done", "qput", "join", "drain", "collect"], "high"),
    "highest worker first (a lower offset answered after a higher one)": (["take", "test", "seek", "fetch", "put", "done", "join", "drain", "collect"], "high"),
    "all seeks before any read (jobs interleaving on a stream)": (["seek", "take", "test", "fetch", "put", "done", "join", "drain", "collect"], "low"),
    "all takes first, requests completed last-in first-out": (["take", "test", "seek", "done", "put", "fetch", "join", "drain", "collect"], "high"),
    "lowest worker runs alone": (["done", "put", "fetch", "seek", "take", "test", "join", "drain", "collect"], "low"),
}


def make_fail_fast(faults, by_start=False):
    """a failed request is answered before every other request in flight: the main thread runs whenever it can (so it sees each
    result the moment it is published), every worker takes a range as soon as it can (the other requests are in flight), the
    request of a failing range completes first and its worker publishes the error before anybody else moves"""
    keys = set(faults)
    hot = set()

    def policy(ctl, enabled):
        for i in enabled:
            if i.tid == 0:
                return i
        for i in enabled:
            if i.label in ("take", "test", "seek"):
                return i
        for i in enabled:
            if i.label == "fetch" and i.extra is not None and (i.extra[0] if by_start else tuple(i.extra)) in keys:
                hot.add(i.tid)
                return i
        for i in enabled:
            if i.tid in hot and i.label in ("put", "begin"):
                return i
        return enabled[0]
    return policy


FAIL_FAST = "failed request answered first, main runs whenever it can"


def free_schedules(rng, k_random, faults=None):
    """[(name, policy)]: the adversarial policies, the last-item race, the fail-fast window, and k random priority policies"""
    out = [(name, make_policy(prio, pref, 0.0, rng)) for name, (prio, pref) in ADVERSARIAL.items()]
    out.append(("two workers past the emptiness test with one item left", last_item_race))
    if faults:
        out.append((FAIL_FAST, make_fail_fast(faults)))
    for k in range(k_random):
        prio = LABELS[:]
        rng.shuffle(prio)
        out.append((f"random priorities #{k}", make_policy(prio, rng.choice(["low", "high"]), rng.choice([0.0, 0.2, 0.5, 1.0]), rng)))
    return out


# ------------------------------------------------------------------------------------------------ inputs
def make_file(rng, size):
    return bytes(rng.randrange(1, 256) for _ in range(size))


def make_ranges(rng, n, size, sorted_=True, empties="none"):
    """n disjoint ranges inside [0, size) with strictly increasing offsets (or shuffled); empties: 'none' | 'first' (the
    range (0, 0) CopcReader builds for nodes without points comes first) | 'some' (any range may be empty) | 'all'"""
    cuts = sorted(rng.sample(range(0, size), 2 * n)) if n else []
    rs = []
    for k in range(n):
        a, b = cuts[2 * k], cuts[2 * k + 1]
        rs.append((a, max(1, min(b - a, 6))))
    if empties == "first" and rs:
        rs[0] = (0, 0)
    elif empties == "some":
        rs = [(o, 0) if rng.random() < 0.4 else (o, m) for o, m in rs]
    elif empties == "all":
        rs = [(o, 0) for o, m in rs]
    if not sorted_:
        rng.shuffle(rs)
    return rs


def pick_empties(rng):
    return rng.choice(["none", "none", "first", "first", "some", "all"])


def fail_sets(rng, ranges, all_subsets):
    n = len(ranges)
    if all_subsets:
        return [tuple(r for k, r in enumerate(ranges) if m >> k & 1) for m in range(1 << n)]
    out = [(), (ranges[0],)]
    if n > 1:
        out += [(ranges[-1],), tuple(ranges)]
        out.append(tuple(r for r in ranges if rng.random() < 0.5) or (ranges[n // 2],))
    return list(dict.fromkeys(out))


def rtok(rs):
    return "|".join(f"{o}:{n}" for o, n in rs) if rs else "-"


def local_read(file, ranges):
    """what CopcReader._fetch_all_chunks yields for a local source: seek + read per range, in order"""
    f = io.BytesIO(file)
    out = bytearray()
    for o, n in ranges:
        f.seek(o)
        out += f.read(n)
    return bytes(out)


# ------------------------------------------------------------------------------------------------ the oracle (implementation only)
def late_work(res):
    """the call has returned / raised and a thread it started still works for it: holds a range, makes a request, publishes a
    result.  None, or (kind suffix, observed).  (A worker of the queue strategy that has marked its last range done may still be
    on its way out when join() lets main go - one non-blocking take that finds the queue empty, then it closes its stream:
    that is leaving, not work; the threads are not joined by the queue strategy, and no theorem says they are)"""
    for k, c in enumerate(res.get("calls", [])):
        if c["late"] or c["late_requests"]:
            how = "raised" if c["how"] != "returned" else "returned"
            nth = f"call #{k + 1} " if len(res["calls"]) > 1 else "the call "
            what = "range request issued" if c["late_requests"] else "worker thread still at work"
            return (f"{what} after the call {how}",
                    f"{nth}{how} while the threads it started were (thread, state, next operation) {c['alive_at_return']}; afterwards they "
                    f"still did {c['late'][:12]} and issued the range requests {c['late_requests'][:8]}")
    return None


def thread_problems(kind0, res):
    """deadlock / hang / leaked or unfinished thread / work after the call: (kind, observed) or None"""
    if res["problem"] is not None:
        what, who = res["problem"]
        labels = sorted({str(b[-1]) for b in who})
        if what == "deadlock":
            return (kind0 + "deadlock, blocked for ever at " + "/".join(labels),
                    f"no thread can move; blocked (thread, operation): {who}; outcome so far {short(res['outcome'])}")
        return kind0 + "hang outside the controlled operations", f"{who}"
    if res["leaked"]:
        return kind0 + "thread still alive after the call", f"{res['leaked']}"
    if not all(res["exited"]):
        return kind0 + "worker thread not finished", f"exited={res['exited']}"
    late = late_work(res)
    if late is not None:
        return kind0 + late[0], late[1]
    return None


def oracle(mode, file, ranges, failing, res):
    """None when the property holds on this run, else (kind, observed)"""
    kind0 = f"{mode}-strategy: "
    bad = thread_problems(kind0, res)
    if bad is not None:
        return bad
    out = res["outcome"]
    fails_here = [r for r in ranges if r in set(failing) and r[1] > 0]      # an empty range makes no request: it cannot fail
    if not fails_here:
        want = local_read(file, ranges)
        if out[0] != "returned":
            return kind0 + "exception although no request failed", short(out)
        if out[1] != want:
            return kind0 + "bytes differ from the local read", f"got {out[1].hex()} want {want.hex()}"
    else:
        if out[0] == "returned":
            return kind0 + "failed request swallowed, data returned", f"failing {fails_here} returned {out[1].hex()}"
        if out[0] != "raised" or out[1] not in fails_here:
            return kind0 + "failed request surfaced as something else", short(out)
    return None


def short(out):
    if out[0] == "returned":
        return ("returned", out[1].hex())
    if out[0] == "session":
        return ("session", [short(o) for o in out[1]])
    return out


def session_oracle(mode, file, calls, faults, res, once=False):
    """several calls on one source: EACH call returns what the local read of ITS ranges yields, or raises the error of a request
    that failed during it; the thread conditions of `oracle` hold for each call"""
    kind0 = f"{mode}-strategy, successive calls on one source: "
    bad = thread_problems(kind0, res)
    if bad is not None:
        return bad
    if res["outcome"][0] != "session" or len(res["outcome"][1]) != len(calls) or len(res["calls"]) != len(calls):
        return kind0 + "the session did not run to its end", str(short(res["outcome"]))
    for k, (ranges, out, c) in enumerate(zip(calls, res["outcome"][1], res["calls"])):
        failed = [tuple(r) for r in c["failed"]]
        nth = f"call #{k + 1} of {len(calls)} with ranges {[list(r) for r in ranges]} (earlier calls: {[[list(r) for r in rs] for rs in calls[:k]]})"
        if not once:
            # persistent faults: every non-empty failing range of this call is requested and fails
            must = [r for r in ranges if tuple(r) in faults and r[1] > 0]
            if must and out[0] == "returned":
                return kind0 + "failed request swallowed, data returned", f"{nth}: failing {must} returned {out[1].hex()}"
        if not failed:
            want = local_read(file, ranges)
            if out[0] != "returned":
                return kind0 + "exception although no request failed", f"{nth}: {short(out)}"
            if out[1] != want:
                return kind0 + "bytes differ from the local read", f"{nth}: got {out[1].hex()} want {want.hex()}"
        else:
            if out[0] == "returned":
                return kind0 + "failed request swallowed, data returned", f"{nth}: failed {failed} returned {out[1].hex()}"
            if out[0] != "raised" or tuple(out[1]) not in failed:
                return kind0 + "failed request surfaced as something else", f"{nth}: {short(out)}"
    return None


# ------------------------------------------------------------------------------------------------ model side
def ftok(faults):
    """failing ranges with the status the server answers them with"""
    return "|".join(f"{o}:{n}:{st}" for (o, n), (st, _) in faults.items()) if faults else "-"


def model_line(mode, shape, file, ranges, workers, faults, events):
    ev = ",".join(events) if events else "-"
    if mode == "queue":
        return f"qtrace gen {common.hexb(file)} {rtok(ranges)} {workers} {ftok(faults)} {ev}"
    return f"xtrace {shape['per_job']} {shape['collect']} {common.hexb(file)} {rtok(ranges)} {workers} {ftok(faults)} {ev}"


def parse_kv(line):
    parts = line.split()
    return parts[0], dict(p.split("=", 1) for p in parts[1:] if "=" in p)


def canon_impl(mode, res):
    out = res["outcome"]
    if out[0] == "returned":
        o = "returned:" + out[1].hex()
    elif out[0] == "raised":
        o = f"raised:{out[1][0]}:{out[1][1]}"
    else:
        o = out[0]
    dead = res["problem"] is not None
    base = (o, "".join("1" if e else "0" for e in res["exited"]) or "-", "blocked" if dead else "finished")
    if mode == "queue":
        # was nothing left to do for the call at the moment it returned / raised (model: C16_queue_steps_quiet_when_done)
        calls = res.get("calls") or []
        quiet = "-" if not calls else ("F" if (calls[0]["late"] or calls[0]["late_requests"]) else "T")
        return base + ("quiet=" + quiet,)
    return base


def canon_impl_call(mode, out, call):
    """one call of a session, seen like a run of its own"""
    return canon_impl(mode, {"outcome": out, "exited": call["exited"], "problem": None, "calls": [call]})


def pad(hexs, total):
    """out_compressed_bytes is a zero-filled bytearray of the summed sizes: bytes the strategies do not write stay zero"""
    return hexs + "00" * max(0, total - len(hexs) // 2)


def canon_model(mode, line, total=0):
    head, kv = parse_kv(line)
    if head != "ok":
        return ("rejected: " + line,)
    if mode == "queue":
        st = kv["status"]
        if st == "returned":
            o = "returned:" + pad(kv["buf"][1:], total)
        elif st == "running":
            o = "none"
        else:
            o = st
        done = st != "running"
    else:
        o = kv["outcome"]
        if o.startswith("returned:"):
            o = "returned:" + pad(o[len("returned:") + 1:], total)
        done = kv["main"] == "done"
        if not done:
            o = "none"
    ex = kv["exited"]
    allx = ex == "-" or set(ex) == {"1"}
    fin = "finished" if (done and allx and kv["stuck"] == "T") else ("blocked" if kv["stuck"] == "T" else "unfinished")
    if mode == "queue":
        return (o, ex, fin, "quiet=" + kv.get("quiet", "?"))
    return (o, ex, fin)


# ------------------------------------------------------------------------------------------------ cases
RUNNERS = {"queue": run_queue, "exec": run_exec}
_RESULTS = []        # (case dict, impl result) of every run made by correspond(), re-judged by search()


def explore_cmd(mode, shape, file, ranges, workers, faults, limit):
    if mode == "queue":
        return f"qexplore gen {common.hexb(file)} {rtok(ranges)} {workers} {ftok(faults)} {limit}"
    return f"xexplore {shape['per_job']} {shape['collect']} {common.hexb(file)} {rtok(ranges)} {workers} {ftok(faults)} {limit}"


CYCLE = FaultCycle()


def get_shape():
    head, kv = parse_kv(common.run_model(["shape"], name="c16")[0])
    return kv


def small_configs(ctx):
    """(file, ranges, workers, failing sets, sample size or None) for the schedule enumeration"""
    rng = ctx.rng
    file = make_file(rng, 24)
    out = []
    for n, w, allf, sample, emp in [(1, 1, True, None, "none"), (1, 2, True, None, "first"), (2, 1, True, None, "first"),
                                    (2, 2, True, None, "none"), (2, 3, False, None, "some"), (3, 1, False, None, "none"),
                                    (3, 2, False, ctx.n(260, None), "first"), (3, 3, False, ctx.n(400, None), "none")]:
        ranges = make_ranges(rng, n, len(file), True, emp)
        fs = fail_sets(rng, ranges, allf)
        if not allf and not ctx.thorough():
            fs = fs[:2] if n < 3 else [fs[0], (ranges[1],)]
        out.append((file, ranges, w, fs, sample))
    return out


def enumerated_cases(ctx, shape):
    """schedules from the model: every transition of the reachable state graph of the small configurations lies on one"""
    cases = []
    cmds, meta = [], []
    for file, ranges, w, fs, sample in small_configs(ctx):
        for failing in fs:
            faults = CYCLE.assign(failing)
            for mode in ("queue", "exec"):
                cmds.append(explore_cmd(mode, shape, file, ranges, w, faults, 400000))
                meta.append((mode, file, ranges, w, failing, faults, sample))
    outs = common.run_model(cmds, name="c16")
    stats = {}
    for (mode, file, ranges, w, failing, faults, sample), line in zip(meta, outs):
        head, kv = parse_kv(line)
        if head != "ok":
            raise RuntimeError("explore failed: " + line[:200])
        scheds = [[] if t == "-" else [int(x) for x in t.split(",")] for t in kv["scheds"].split(";")] if kv.get("scheds") else [[]]
        total = len(scheds)
        if sample is not None and len(scheds) > sample:
            scheds = ctx.rng.sample(scheds, sample)
        key = f"{mode} {len(ranges)}x{w}"
        st = stats.setdefault(key, {"states": 0, "transitions": 0, "schedules": 0, "replayed": 0})
        st["states"] += int(kv["states"]); st["transitions"] += int(kv["edges"]); st["schedules"] += total; st["replayed"] += len(scheds)
        for sc in scheds:
            cases.append({"mode": mode, "file": file, "ranges": ranges, "workers": w, "failing": failing, "faults": faults,
                          "schedule": sc, "policy": None, "origin": "model graph", "oracle": True})
    ctx.extra["schedule_enumeration"] = stats
    return cases


def policy_cases(ctx, k_cfg, k_random, with_unsorted=True):
    rng = ctx.rng
    cases = []
    cfgs = []
    for n, w, emp in [(1, 1, "none"), (1, 4, "first"), (2, 1, "none"), (2, 2, "first"), (3, 2, "none"), (3, 1, "some"), (4, 2, "first"),
                      (5, 3, "none"), (6, 4, "some"), (2, 5, "all"), (4, 4, "none"), (6, 2, "none"), (5, 1, "first"), (3, 4, "none")]:
        cfgs.append((n, w, True, emp))
    for _ in range(k_cfg):
        cfgs.append((rng.randrange(1, 7), rng.randrange(1, 6), rng.random() < 0.8 or not with_unsorted, pick_empties(rng)))
    for n, w, sorted_, emp in cfgs:
        file = make_file(rng, 40)
        ranges = make_ranges(rng, n, len(file), sorted_, emp)
        for failing in fail_sets(rng, ranges, False)[: (5 if ctx.thorough() else 3)]:
            faults = CYCLE.assign(failing)
            for mode in ("queue", "exec"):
                for name, pol in free_schedules(rng, k_random, faults):
                    cases.append({"mode": mode, "file": file, "ranges": ranges, "workers": w, "failing": failing, "faults": faults,
                                  "schedule": None, "policy": pol, "origin": name.split(" #")[0], "oracle": sorted_})
    return cases


def run_case(c, schedule=None):
    return RUNNERS[c["mode"]](c["file"], c["ranges"], c["workers"], c["faults"],
                              schedule=schedule if schedule is not None else c["schedule"], policy=c["policy"])


# ---- successive calls on one source
def vary_ranges(rng, base, size):
    """another call's ranges, related to `base`: (a) the same starts with other lengths, (b) neighbours merged into one range
    (same start, longer), (c) a subset, (d) the same ranges again, (e) unrelated ranges; always strictly increasing offsets,
    disjoint"""
    kind = rng.choice(["other lengths", "other lengths", "merged", "merged", "subset", "same", "unrelated"])
    if kind == "unrelated" or not base:
        return kind, make_ranges(rng, rng.randrange(1, 5), size, True, "none")
    if kind == "same":
        return kind, list(base)
    if kind == "subset":
        keep = [r for r in base if rng.random() < 0.6] or [rng.choice(base)]
        return kind, keep
    if kind == "merged" and len(base) >= 2:
        out, k = [], 0
        while k < len(base):
            if k + 1 < len(base) and rng.random() < 0.6:
                out.append((base[k][0], base[k + 1][0] + base[k + 1][1] - base[k][0]))
                k += 2
            else:
                out.append(base[k])
                k += 1
        return kind, out
    out = []
    for k, (o, n) in enumerate(base):
        room = (base[k + 1][0] if k + 1 < len(base) else size) - o
        if room <= 0:
            out.append((o, n))
            continue
        choices = [m for m in range(1, room + 1) if m != n] or [n]
        out.append((o, rng.choice(choices) if rng.random() < 0.8 else n))
    return "other lengths", out


def shares_start(calls):
    """two calls of the session have a range with the same start and different lengths"""
    seen = {}
    for k, rs in enumerate(calls):
        for o, n in rs:
            for (k2, n2) in seen.get(o, []):
                if k2 != k and n2 != n:
                    return True
            seen.setdefault(o, []).append((k, n))
    return False


def session_cases(ctx, k_sessions):
    rng = ctx.rng
    cases = []
    for si in range(k_sessions):
        file = make_file(rng, 56)
        base = make_ranges(rng, rng.randrange(1, 5), len(file), True, rng.choice(["none", "none", "first"]))
        calls, kinds = [base], ["base"]
        for _ in range(rng.randrange(1, 4)):
            kd, rs = vary_ranges(rng, [r for r in base if r[1] > 0] or base, len(file))
            calls.append(rs)
            kinds.append(kd)
        order = list(range(len(calls)))
        rng.shuffle(order)
        calls, kinds = [calls[i] for i in order], [kinds[i] for i in order]
        workers = rng.randrange(1, 5)
        fmode = si % 3                                   # 0: no fault, 1: persistent, 2: transient (first matching request only)
        faults = {}
        if fmode:
            cands = [r for rs in calls for r in rs if r[1] > 0]
            if cands:
                faults = CYCLE.assign([rng.choice(cands)])
        for mode in ("queue", "exec"):
            pols = [("main-first (a worker preempted between task_done and put)", None), ("random priorities", None),
                    ("highest worker first (a lower offset answered after a higher one)", None)]
            if faults:
                pols[2] = (FAIL_FAST, make_fail_fast(faults))
            for name, pol in pols:
                if pol is None and name in ADVERSARIAL:
                    pol = make_policy(ADVERSARIAL[name][0], ADVERSARIAL[name][1], 0.0, rng)
                elif pol is None:
                    prio = LABELS[:]
                    rng.shuffle(prio)
                    pol = make_policy(prio, rng.choice(["low", "high"]), rng.choice([0.0, 0.3, 1.0]), rng)
                cases.append({"mode": mode, "file": file, "calls": calls, "kinds": kinds, "workers": workers, "faults": dict(faults),
                              "once": fmode == 2, "policy": pol, "schedule": None, "origin": name})
    return cases


def run_session_case(c):
    return run_session(c["mode"], c["file"], c["calls"], c["workers"], dict(c["faults"]), schedule=c["schedule"],
                       policy=c["policy"], once=c["once"])


def session_input(c, res):
    return {"strategy": c["mode"], "session": True, "file_hex": c["file"].hex(), "calls": [[list(r) for r in rs] for rs in c["calls"]],
            "workers": c["workers"], "failing": [list(r) + list(f) for r, f in c["faults"].items()],
            "failing_legend": "[offset, size, status the server answers with (-1: no answer), error body kind]; transient: only the "
                              "first request of that range fails", "transient": c["once"],
            "schedule": res["decisions"], "origin": c["origin"]}


def session_expected(c):
    return ("each call returns the local read of its own ranges " + str([local_read(c["file"], rs).hex() for rs in c["calls"]]) +
            " or raises the error of a request that failed during it; when a call has returned / raised, the threads it started "
            "do nothing more for it")


def shrink_session(c, res, kind):
    """fewer calls while the same class of failure shows under the same kind of schedule"""
    n = len(c["calls"])
    subs = [[i] for i in range(n)] + [[i, j] for i in range(n) for j in range(i + 1, n)]
    for sub in subs:
        if len(sub) >= n or c["policy"] is None:
            continue
        c2 = dict(c, calls=[c["calls"][i] for i in sub], kinds=[c["kinds"][i] for i in sub])
        r2 = run_session_case(c2)
        b2 = session_oracle(c2["mode"], c2["file"], c2["calls"], c2["faults"], r2, c2["once"])
        if b2 is not None and b2[0] == kind:
            return c2, r2
    return c, res


def sessions(ctx):
    """failing inputs among successive calls of a strategy on one source"""
    found = []
    done = list(_SESSIONS)
    if not done:
        for c in session_cases(ctx, ctx.n(14, 80)):
            res = run_session_case(c)
            register_session(ctx, c, res)
            done.append((c, res))
    for c, res in done:
        bad = session_oracle(c["mode"], c["file"], c["calls"], c["faults"], res, c["once"])
        if bad is not None and not any(f["kind"] == bad[0] for f in found):
            c2, r2 = shrink_session(c, res, bad[0])
            b2 = session_oracle(c2["mode"], c2["file"], c2["calls"], c2["faults"], r2, c2["once"]) or bad
            found.append({"kind": bad[0], "input": session_input(c2, r2), "observed": b2[1], "trace": r2["events"][-120:],
                          "expected": session_expected(c2)})
            if len(found) >= 3:
                break
    return found


def count_calls(ctx, res):
    """what the threads of a call were doing when it returned / raised"""
    for c in res.get("calls", []):
        if c["late"] or c["late_requests"]:
            ctx.count("at return: a thread still at work")
        elif c["winding_down"]:
            ctx.count("at return: worker(s) on their way out (last empty take), no work left")
        else:
            ctx.count("at return: every thread finished")


def case_input(c, res):
    return {"strategy": c["mode"], "file_hex": c["file"].hex(), "ranges": [list(r) for r in c["ranges"]], "workers": c["workers"],
            "failing": [list(r) + list(c["faults"][tuple(r)]) for r in c["failing"]],
            "failing_legend": "[offset, size, status the server answers with (-1: no answer, the session raises), error body kind]",
            "schedule": res["decisions"], "origin": c["origin"]}


RULE = ("inputs: a fake file of random non-zero bytes, 1..6 disjoint byte ranges with strictly increasing offsets, some of them EMPTY "
        "(size 0: first / some / all - the byte query of COPC nodes without points; a fifth of the random configurations shuffled: "
        "compared with the model only), 1..5 workers, failing-request sets {none, first, last, all, random} (all subsets for <= 2 "
        "ranges); a failing request is answered with a status cycling through 416, 500, 404, 403, 503, 400, 429, 502, 401, 504, 408, "
        "410, 599 and an error body that is empty / shorter than / as long as / longer than the range, or not answered at all (the "
        "session raises); both strategies. schedules: the controlled points include the MAIN thread's query_queue.put calls and "
        "thread starts; (a) from the model: for the configurations up to 3 ranges x 3 workers the reachable state graph of the "
        "step-by-step system is enumerated at the granularity of the observable operations and a set of schedules covering EVERY "
        "transition of it is replayed on the real threads (quick tier: a random sample for 3x2 and 3x3); (b) model-independent: the "
        "adversarial policies (main first = worker preempted between task_done and put; main preempted between its puts / starts "
        "until no worker can move; main starts every worker before the next put; highest worker first = lower offset answered last; "
        "all seeks before any read; LIFO completions; one worker alone; two workers past the emptiness test with one item left) and "
        "random operation-priority policies; with a failing request also the fail-fast window (the failed request answered before every "
        "other request in flight, main running whenever it can). AFTER THE CALL: at the moment a call returns / raises the "
        "controller notes what the threads it started are doing and keeps driving them: any request / seek / published result / "
        "task_done / job begun after that moment is a failing input (a worker on its way out - one last non-blocking take that finds "
        "the queue empty - is not). SESSIONS: 2..4 successive calls of a strategy on one source whose ranges share starts with other "
        "lengths / are merged neighbours / subsets / repeats / unrelated, no fault, a persistent one or a transient one (first "
        "request only): each call is replayed in the model as a run of its own and must equal the local read of ITS ranges. end to end: CopcReader.query over the fake http source vs the local bytes on generated "
        "COPC files (chunks laid out deepest level first / in level order / randomly, with gaps; nodes without points: none / root / "
        "inner / some / all), queries: whole file, levels, boxes, and for empty nodes the query selecting exactly that node; workers "
        "1, 2, 3, 8; both strategies; one failing data request of each kind; deadlock / hang detection by the controller; sessions of 2..4 queries on ONE reader (levels growing / shrinking, deepest level "
        "first then more levels, boxes growing / shrinking, the same query twice, unrelated queries; persistent / transient fault on a "
        "data request), every query compared with a fresh local reader, and - model reader_session gen_fetch_site - the compressed "
        "bytes every query hands to the LAZ backend compared with the local read of that query's byte ranges. non-trivial "
        "= at least two threads besides main took steps, or a request failed; distinct by (strategy, ranges, workers, failing set, "
        "executed schedule)")


def register(ctx, c, res):
    tids = set(res["decisions"])
    nontrivial = len(tids - {0}) >= 2 or bool(c["failing"])
    canon = (c["mode"], tuple(c["ranges"]), c["workers"], tuple(c["failing"]), tuple(res["decisions"]))
    ctx.case(canon, nontrivial=nontrivial,
             sample={"strategy": c["mode"], "ranges": c["ranges"], "workers": c["workers"], "failing": list(c["failing"]),
                     "trace": res["events"], "outcome": short(res["outcome"])})
    ctx.count("strategy:" + c["mode"])
    ctx.count(f"ranges:{len(c['ranges'])}")
    ctx.count(f"workers:{c['workers']}")
    ctx.count("failing:" + ("none" if not c["failing"] else ("all" if len(c["failing"]) == len(c["ranges"]) else "some")))
    for st, body in c["faults"].values():
        ctx.count(f"fault:{st if st >= 0 else 'no answer'}")
        ctx.count("error body:" + body)
    ctx.count(f"empty ranges:{sum(1 for r in c['ranges'] if r[1] == 0)}")
    ctx.count("schedule:" + c["origin"])
    ctx.count("outcome:" + res["outcome"][0] + ("" if res["problem"] is None else "+" + res["problem"][0]))
    count_calls(ctx, res)


_SESSIONS = []       # (case, impl result) of every session run by correspond(), re-judged by search()


def session_correspondence(ctx, shape):
    """successive calls on one source: the operations of each call (main's between the previous return and this one, those of the
    threads it started wherever they fall) are replayed in the model as a run of their own - nothing of an earlier call shows"""
    del _SESSIONS[:]
    dis, lines, meta = [], [], []
    for c in session_cases(ctx, ctx.n(14, 80)):
        res = run_session_case(c)
        _SESSIONS.append((c, res))
        register_session(ctx, c, res)
        if res["problem"] is not None or res["outcome"][0] != "session" or len(res["calls"]) != len(c["calls"]):
            continue                                        # judged by the oracle
        for k, (ranges, out, call) in enumerate(zip(c["calls"], res["outcome"][1], res["calls"])):
            if c["once"]:
                faults = {tuple(r): c["faults"][tuple(r)] for r in call["failed"] if tuple(r) in c["faults"]}
            else:
                faults = c["faults"]
            lines.append(model_line(c["mode"], shape, c["file"], ranges, c["workers"], faults, call["events"]))
            meta.append((c, res, k, out, call))
    outs = common.run_model(lines, name="c16")
    for (c, res, k, out, call), line in zip(meta, outs):
        ctx.traces += 1
        m = canon_model(c["mode"], line, sum(n for _, n in c["calls"][k]))
        i = canon_impl_call(c["mode"], out, call)
        if m != i and len(dis) < 5:
            dis.append({"kind": f"{c['mode']}-strategy, successive calls on one source: " +
                                ("trace of a call not accepted by the model" if m[0].startswith("rejected") else "outcome of a call differs from the model"),
                        "input": dict(session_input(c, res), call=k + 1), "model": m, "impl": i, "trace": call["events"]})
    return dis


def register_session(ctx, c, res):
    canon = ("session", c["mode"], tuple(tuple(rs) for rs in c["calls"]), c["workers"], tuple(c["faults"]), c["once"],
             tuple(res["decisions"]))
    ctx.case(canon, nontrivial=len(c["calls"]) >= 2)
    ctx.count("session:" + c["mode"])
    ctx.count(f"session:calls:{len(c['calls'])}")
    ctx.count("session:faults:" + ("none" if not c["faults"] else ("transient" if c["once"] else "persistent")))
    ctx.count("session:schedule:" + c["origin"])
    for kd in c["kinds"]:
        ctx.count("session:call ranges:" + kd)
    if shares_start(c["calls"]):
        ctx.count("session:two calls share a range start with different lengths")
    count_calls(ctx, res)


def correspond(ctx):
    ctx.extra["rule"] = RULE
    del _RESULTS[:]
    shape = get_shape()
    ctx.extra["source_shape"] = shape
    cases = enumerated_cases(ctx, shape) + policy_cases(ctx, ctx.n(6, 40), ctx.n(3, 12))
    dis = []
    lines = []
    for c in cases:
        res = run_case(c)
        _RESULTS.append((c, res))
        register(ctx, c, res)
        lines.append(model_line(c["mode"], shape, c["file"], c["ranges"], c["workers"], c["faults"], res["events"]))
    dis += session_correspondence(ctx, shape)
    dis += reader_correspondence(ctx)
    outs = common.run_model(lines, name="c16")
    seen = set()
    for (c, res), line in zip(_RESULTS, outs):
        ctx.traces += 1
        m = canon_model(c["mode"], line, sum(n for _, n in c["ranges"]))
        i = canon_impl(c["mode"], res)
        if m != i:
            kind = f"{c['mode']}-strategy: " + ("trace not accepted by the model" if m[0].startswith("rejected") else "outcome differs from the model")
            if kind in seen and len(dis) >= 20:
                continue
            seen.add(kind)
            dis.append({"kind": kind, "input": case_input(c, res), "model": m, "impl": i, "trace": res["events"]})
    return dis


def search(ctx, seeds):
    ctx.extra.setdefault("rule", RULE)
    failing = []
    seen = set()
    results = list(_RESULTS)
    if not results:
        # the correspondence did not run (no model): model-independent schedules only
        for c in policy_cases(ctx, ctx.n(10, 40), ctx.n(6, 12), with_unsorted=False):
            res = run_case(c)
            register(ctx, c, res)
            results.append((c, res))
    for c, res in results:
        if not c["oracle"]:
            continue
        bad = oracle(c["mode"], c["file"], c["ranges"], c["failing"], res)
        if bad is None:
            continue
        kind, observed = bad
        if kind in seen:
            continue
        seen.add(kind)
        c2, res2 = shrink(c, res, kind)
        failing.append({"kind": kind, "input": case_input(c2, res2), "observed": oracle(c2["mode"], c2["file"], c2["ranges"], c2["failing"], res2)[1],
                        "trace": res2["events"], "expected": expected_text(c2)})
        if len(failing) >= 5:
            break
    if len(failing) < 5:
        failing += sessions(ctx)
    if not failing:
        failing += e2e(ctx)
    if not failing:
        failing += e2e_sessions(ctx)
    if not failing:
        probe_short_success_body(ctx)
    return failing


def probe_short_success_body(ctx):
    """NOT part of the oracle (assumption 2 puts it outside the fault model): what the strategies do with a 206 answer whose body
    is shorter than the range; recorded in the evidence only"""
    file = bytes(range(1, 41))
    ranges = [(2, 3), (10, 4), (20, 2)]
    seen = {}
    for mode, run in RUNNERS.items():
        try:
            res = run(file, ranges, 2, {(10, 4): (206, "short")}, policy=make_policy(LABELS, "low", 0.0, ctx.rng))
            out = res["outcome"]
            seen[mode] = ("raises " + str(out[1]) if out[0] != "returned" else
                          ("returns the local read" if out[1] == local_read(file, ranges) else
                           f"returns {out[1].hex()} instead of {local_read(file, ranges).hex()}: the short block is copied as is and "
                           "the following blocks are shifted, no exception"))
        except Exception as ex:  # noqa
            seen[mode] = "probe failed: " + repr(ex)[:80]
    ctx.extra["outside_the_fault_model:206_answer_with_a_short_body"] = seen


def expected_text(c):
    fails_here = [r for r in c["ranges"] if r in set(c["failing"]) and r[1] > 0]
    if fails_here:
        return f"the call raises the error of one of the failed requests {fails_here}; every thread it started has finished"
    return f"the call returns {local_read(c['file'], c['ranges']).hex()} (the local read); every thread it started has finished"


def shrink(c, res, kind):
    """fewer ranges / workers while the same class of failure shows under the same kind of schedule"""
    best = (c, res)
    for n in range(1, len(c["ranges"])):
        for w in range(1, c["workers"] + 1):
            rs = c["ranges"][:n]
            fl = tuple(r for r in c["failing"] if r in rs)
            if c["failing"] and not fl:
                fl = (rs[0],)
            c2 = dict(c, ranges=rs, workers=w, failing=fl,
                      faults={r: c["faults"].get(r, next(iter(c["faults"].values()), (500, "empty"))) for r in fl})
            if c["policy"] is None:
                continue
            r2 = run_case(c2)
            b2 = oracle(c2["mode"], c2["file"], c2["ranges"], c2["failing"], r2)
            if b2 is not None and b2[0] == kind:
                return c2, r2
    return best


def replay(ctx, data):
    inp = data.get("failing_input", {}).get("input")
    if not inp:
        print("nothing to replay")
        return 0
    if inp.get("strategy") == "e2e":
        return e2e_replay(inp)
    if inp.get("session"):
        c = {"mode": inp["strategy"], "file": bytes.fromhex(inp["file_hex"]), "calls": [[tuple(r) for r in rs] for rs in inp["calls"]],
             "workers": inp["workers"], "faults": {tuple(r[:2]): (r[2], r[3]) for r in inp["failing"]}, "once": bool(inp.get("transient")),
             "schedule": list(inp["schedule"]), "policy": None}
        res = run_session_case(c)
        bad = session_oracle(c["mode"], c["file"], c["calls"], c["faults"], res, c["once"])
        print("trace:", " ".join(res["events"]))
        if bad is None:
            print("not reproduced: outcome", short(res["outcome"]))
            return 0
        print("REPRODUCED:", bad[0], "--", bad[1])
        return 1
    c = {"mode": inp["strategy"], "file": bytes.fromhex(inp["file_hex"]), "ranges": [tuple(r) for r in inp["ranges"]],
         "workers": inp["workers"], "failing": tuple(tuple(r[:2]) for r in inp["failing"]),
         "faults": {tuple(r[:2]): ((r[2], r[3]) if len(r) >= 4 else (500, "empty")) for r in inp["failing"]},
         "schedule": list(inp["schedule"]), "policy": None}
    res = run_case(c)
    bad = oracle(c["mode"], c["file"], c["ranges"], c["failing"], res)
    print("trace:", " ".join(res["events"]))
    if bad is None:
        print("not reproduced: outcome", short(res["outcome"]))
        return 0
    print("REPRODUCED:", bad[0], "--", bad[1])
    return 1


# ------------------------------------------------------------------------------------------------ end to end (fake LAZ backend)
class DropEmptyEntries:
    """LAZ backend proxy: a chunk-table entry (0 points, 0 bytes) - an empty COPC node - decodes to nothing"""

    LOG = None          # a list: the compressed bytes every query hands to the backend (= what _fetch_all_chunks returned)

    def __init__(self, real):
        self._real = real

    def __getattr__(self, name):
        return getattr(self._real, name)

    def decompress_points_with_chunk_table(self, compressed, record_data, out, chunk_table, selection=None):
        if DropEmptyEntries.LOG is not None:
            DropEmptyEntries.LOG.append(bytes(compressed))
        kept = [(int(p), int(b)) for p, b in chunk_table if not (int(p) == 0 and int(b) == 0)]
        return self._real.decompress_points_with_chunk_table(compressed, record_data, out, kept, selection)


def e2e_backend():
    from harness import fake_lazrs
    fake_lazrs.install()
    import laspy.copc as copc
    if not isinstance(copc.lazrs, DropEmptyEntries):
        copc.lazrs = DropEmptyEntries(copc.lazrs)
    return copc


LAYOUTS = ["deepest level first", "level order", "random", "deepest level first, gaps", "random"]
EMPTIES = ["none", "root", "some", "inner", "all", "some"]


def build_copc(rng, layout="random", empties="none"):
    """a small COPC file: root + 8 children + grandchildren below two of them, one hierarchy page (EVLR).  layout: the order
    the chunks are laid out in the file (any order is legal); empties: which nodes have no points (hierarchy entry with
    point_count 0, offset 0, byte_size 0)"""
    from harness import fake_lazrs
    fake_lazrs.install()
    import laspy
    import numpy as np
    h = laspy.LasHeader(version="1.4", point_format=6)
    h.scales = np.array([0.01, 0.01, 0.01])
    h.offsets = np.array([0.0, 0.0, 0.0])
    isz = h.point_format.size
    keys = [(0, 0, 0, 0)] + [(1, d & 1, (d >> 1) & 1, (d >> 2) & 1) for d in range(8)]
    for d in rng.sample(range(8), 3):
        keys.append((2, d & 1, (d >> 1) & 1, (d >> 2) & 1))         # inside child (1,0,0,0)
    for d in rng.sample(range(8), 2):
        keys.append((2, 2 + (d & 1), 2 + ((d >> 1) & 1), 2 + ((d >> 2) & 1)))   # inside child (1,1,1,1)
    if empties == "none":
        empty = set()
    elif empties == "root":
        empty = {keys[0]}
    elif empties == "inner":
        empty = {(1, 0, 0, 0), (1, 1, 1, 1)}
    elif empties == "all":
        empty = set(keys)
    else:
        empty = {k for k in keys if rng.random() < (0.5 if k[0] == 0 else 0.35)}
        if not empty:
            empty = {rng.choice(keys)}
        if len(empty) == len(keys):
            empty.discard(rng.choice(keys[1:]))
    nodes = []
    for idx, (lv, x, y, z) in enumerate(keys):
        side = 10000 >> lv                                           # in integer coordinates (root cube = [0, 10000)^3)
        n = 0 if (lv, x, y, z) in empty else rng.randrange(1, 6)
        rec = laspy.ScaleAwarePointRecord.zeros(n, header=h)
        rec["X"] = [x * side + rng.randrange(side) for _ in range(n)]
        rec["Y"] = [y * side + rng.randrange(side) for _ in range(n)]
        rec["Z"] = [z * side + rng.randrange(side) for _ in range(n)]
        rec["intensity"] = [idx * 100 + j for j in range(n)]
        nodes.append({"key": (lv, x, y, z), "n": n, "offset": 0,
                      "chunk": fake_lazrs.encode_chunk(bytes(rec.memoryview()), isz) if n else b""})
    lazvlr = fake_lazrs.LazVlr.new_for_compression(6, 0, use_variable_size_chunks=True)
    h.vlrs.append(laspy.VLR("copc", 1, "COPC info", b"\0" * 160))
    h.vlrs.append(laspy.VLR("laszip encoded", 22204, "fake laszip", bytes(lazvlr.record_data())))
    h.are_points_compressed = True
    tmp = io.BytesIO()
    h.write_to(tmp)
    pos = h.offset_to_point_data
    body = bytearray(struct.pack("<q", -1))
    pos += 8
    order = [k for k in range(len(nodes)) if nodes[k]["n"]]
    rng.shuffle(order)
    if layout.startswith("deepest"):
        order.sort(key=lambda k: -nodes[k]["key"][0])
    elif layout.startswith("level"):
        order.sort(key=lambda k: nodes[k]["key"][0])
    gap_p = 0.3 if (layout == "random" or "gaps" in layout) else 0.0
    for k in order:
        if rng.random() < gap_p:                                     # unused bytes between chunks
            gap = rng.randrange(1, 9)
            body += bytes(rng.randrange(256) for _ in range(gap))
            pos += gap
        nodes[k]["offset"] = pos
        body += nodes[k]["chunk"]
        pos += len(nodes[k]["chunk"])
    page = b"".join(struct.pack("<iiiiQii", *nd["key"], nd["offset"], len(nd["chunk"]), nd["n"]) for nd in nodes)
    evlr_start = pos
    evlr = b"\0\0" + b"copc".ljust(16, b"\0") + struct.pack("<HQ", 1000, len(page)) + b"hierarchy".ljust(32, b"\0") + page
    info = struct.pack("<dddddQQdd", 50.0, 50.0, 50.0, 50.0, 1.0, evlr_start + 60, len(page), 0.0, 0.0) + b"\0" * 88
    h.vlrs[0].record_data = info
    h.start_of_first_evlr = evlr_start
    h.number_of_evlrs = 1
    h.point_count = sum(nd["n"] for nd in nodes)
    h.mins = np.array([0.0, 0.0, 0.0])
    h.maxs = np.array([100.0, 100.0, 100.0])
    out = io.BytesIO()
    h.write_to(out)
    assert len(out.getvalue()) == h.offset_to_point_data
    return out.getvalue() + bytes(body) + evlr, nodes


def e2e_queries(rng, nodes):
    """the whole file, level selections, boxes; and for (up to 3 of) the empty nodes the query that selects exactly that node"""
    qs = [{"level": None, "bounds": None}, {"level": 1, "bounds": None}, {"level": [1, 3], "bounds": None}, {"level": 0, "bounds": None}]
    for _ in range(2):
        lo = [rng.choice([0.0, 50.0]) for _ in range(3)]
        qs.append({"level": rng.choice([None, [0, 2], 2]), "bounds": [lo, [lo[0] + 50.0, lo[1] + 50.0, rng.choice([lo[2] + 50.0, 100.0])]]})
    empty = [nd for nd in nodes if nd["n"] == 0]
    rng.shuffle(empty)
    for nd in empty[:3]:
        lv, x, y, z = nd["key"]
        side = 100.0 / (1 << lv)
        lo = [x * side + side / 4, y * side + side / 4, z * side + side / 4]
        qs.append({"level": lv, "bounds": [lo, [v + side / 2 for v in lo]], "selects": "only the empty node %d-%d-%d-%d" % nd["key"]})
    return qs


def e2e_query(copc, reader, q):
    import numpy as np
    lv = q["level"]
    if isinstance(lv, list):
        lv = range(lv[0], lv[1])
    b = None
    if q["bounds"] is not None:
        b = copc.Bounds(mins=np.array(q["bounds"][0]), maxs=np.array(q["bounds"][1]))
    return reader.query(bounds=b, level=lv).array.tobytes()


def e2e_local(raw, q):
    copc = e2e_backend()
    try:
        return ("returned", e2e_query(copc, copc.CopcReader(io.BytesIO(raw)), q))
    except Exception as ex:  # noqa
        return ("error", common.exc_kind(ex))


def e2e_run(raw, q, strategy, workers, faults, schedule=None, policy=None):
    """faults: {start offset of a request: (status, body kind)}"""
    e2e_backend()
    local = e2e_local(raw, q)
    world = World(raw, {int(k): tuple(v) for k, v in dict(faults).items()}, by_start=True)

    def fn(p):
        src = p.stream_cls("http://fake/e2e.copc.laz")
        rd = p.copc.CopcReader(src, http_num_threads=workers, _http_strategy=strategy)
        return e2e_query(p.copc, rd, q)
    mode = "queue" if strategy == "queue" else "exec"
    res = controlled_call(mode, world, fn, schedule, policy, seek_yields=(mode == "exec"))
    return local, res, res["failed"]


def e2e_oracle(local, res, failed):
    if res["problem"] is not None:
        return "e2e: query over http blocks (" + res["problem"][0] + ")", str(res["problem"][1]) + f"; the local query: {short(local)[0]}"
    if res["leaked"] or not all(res["exited"]):
        return "e2e: thread still alive after the query", f"{res['leaked']} exited={res['exited']}"
    late = late_work(res)
    if late is not None:
        return "e2e: " + late[0].replace("the call", "the query"), late[1]
    out = res["outcome"]
    if not failed:
        if local[0] == "error":
            if out[0] != "error" or not out[1].startswith(local[1]):
                return "e2e: query over http differs from the local query (which raises)", f"{short(out)} vs local {local}"
            return None
        if out[0] != "returned":
            return "e2e: query over http raises although no request failed", str(short(out)) + f"; the local query returns {len(local[1])} bytes of records"
        if out[1] != local[1]:
            a, b = out[1], local[1]
            return "e2e: query over http returns other points than the local file", f"{len(a)} bytes vs {len(b)} bytes, first difference at {next((k for k in range(min(len(a), len(b))) if a[k] != b[k]), min(len(a), len(b)))}"
    else:
        if out[0] == "returned":
            return "e2e: failed request swallowed by the query", f"failed {failed}, returned {len(out[1])} bytes of records"
        if out[0] != "raised" or out[1] not in failed:
            return "e2e: failed request surfaced as something else", str(short(out))
    return None


E2E_POLICIES = ["main preempted between its puts / thread starts until no worker can move",
                "main-first (a worker preempted between task_done and put)", None, None, None]


def e2e(ctx):
    """CopcReader.query over the fake HTTP source vs the same query on the local bytes (fake_lazrs as the LAZ backend):
    chunk layouts (deepest level first / level order / random), nodes without points (also queries selecting only those),
    worker counts 1.., both strategies, a failing data request of every kind"""
    try:
        from harness import fake_lazrs  # noqa
    except Exception:
        ctx.notes.append("end-to-end query comparison skipped: harness/fake_lazrs is not available")
        return []
    rng = ctx.rng
    found = []
    runs = 0
    t0 = time.time()
    nfiles = ctx.n(15, 60)
    for fi in range(nfiles):
        layout, empties = LAYOUTS[fi % len(LAYOUTS)], EMPTIES[fi % len(EMPTIES)]
        raw, nodes = build_copc(rng, layout, empties)
        offs = {nd["offset"] for nd in nodes if nd["n"]}
        for qi, q in enumerate(e2e_queries(rng, nodes)):
            for si, strategy in enumerate(("queue", "executor")):
                starts = []
                for with_failure in (False, True):
                    if with_failure and (not starts or (qi + si + fi) % 2):
                        continue
                    faults = {rng.choice(starts): CYCLE.next()} if with_failure else {}
                    workers = rng.choice([1, 1, 2, 3, 8])
                    pname = E2E_POLICIES[(runs + fi) % len(E2E_POLICIES)]
                    if pname is None:
                        prio = LABELS[:]
                        rng.shuffle(prio)
                        pol = make_policy(prio, rng.choice(["low", "high"]), rng.choice([0.0, 0.5, 1.0]), rng)
                    else:
                        pol = make_policy(ADVERSARIAL[pname][0], ADVERSARIAL[pname][1], 0.0, rng)
                    if with_failure and runs % 2:
                        pol = make_fail_fast(faults, by_start=True)
                    local, res, failed = e2e_run(raw, q, strategy, workers, faults, policy=pol)
                    starts = sorted({r[0] for r in res["requests"] if r[0] in offs})
                    runs += 1
                    count_calls(ctx, res)
                    ctx.case(("e2e", hash(raw), str(q), strategy, workers, tuple(faults.items()), tuple(res["decisions"])),
                             nontrivial=len(set(res["decisions"])) >= 3)
                    ctx.count("e2e:" + strategy + (":failing" if failed else ""))
                    ctx.count(f"e2e:ranges:{len(starts)}")
                    ctx.count("e2e:layout:" + layout)
                    ctx.count("e2e:empty nodes:" + empties)
                    if "selects" in q:
                        ctx.count("e2e:query selecting only an empty node")
                    bad = e2e_oracle(local, res, failed)
                    if bad is not None and not any(f["kind"] == bad[0] for f in found):
                        found.append({"kind": bad[0], "observed": bad[1],
                                      "input": {"strategy": "e2e", "http_strategy": strategy, "file_hex": raw.hex(), "query": q,
                                                "layout": layout, "empty_nodes": empties, "workers": workers,
                                                "faults": {str(k): list(v) for k, v in faults.items()},
                                                "faults_legend": "{start offset of the request: [status (-1: no answer), error body kind]}",
                                                "schedule": res["decisions"]},
                                      "trace": res["events"][-80:],
                                      "expected": ("the same point records as CopcReader.query on the local bytes" if not failed
                                                   else f"the error of a failed request {failed}")})
    ctx.extra["end_to_end_queries"] = runs
    ctx.extra["end_to_end_seconds"] = round(time.time() - t0, 1)
    return found


# ---- successive queries on ONE reader
_LOCAL = {}


def e2e_local_cached(raw, q):
    key = (hash(raw), len(raw), str(q))
    if key not in _LOCAL:
        if len(_LOCAL) > 400:
            _LOCAL.clear()
        _LOCAL[key] = e2e_local(raw, q)
    return _LOCAL[key]


def e2e_session_run(raw, queries, strategy, workers, faults, once=False, schedule=None, policy=None):
    """one CopcReader over the fake http source answers the queries one after the other; the reference for each query is a
    FRESH reader on the local bytes.  faults: {start offset of a request: (status, body kind)}; once: only the first such
    request fails"""
    e2e_backend()
    locals_ = [e2e_local_cached(raw, q) for q in queries]
    world = World(raw, {int(k): tuple(v) for k, v in dict(faults).items()}, by_start=True, once=once)

    def fn(p):
        src = p.stream_cls("http://fake/e2e.copc.laz")
        rd = p.copc.CopcReader(src, http_num_threads=workers, _http_strategy=strategy)
        outs = []
        for q in queries:
            if DropEmptyEntries.LOG is not None:
                DropEmptyEntries.LOG.append(None)          # a new query begins
            outs.append(p.observed(lambda q=q: e2e_query(p.copc, rd, q)))
        return outs
    mode = "queue" if strategy == "queue" else "exec"
    res = controlled_call(mode, world, fn, schedule, policy, seek_yields=(mode == "exec"), session=True)
    return locals_, res


class LogBytesIO(io.BytesIO):
    """a local source that notes the byte ranges _fetch_all_chunks reads (seek ; readinto)"""

    def __init__(self, raw):
        super().__init__(raw)
        self.log = []

    def readinto(self, b):
        self.log.append((self.tell(), len(b)))
        return super().readinto(b)


def reader_correspondence(ctx):
    """the reader-level model (reader_session gen_fetch_site: what the reader keeps between queries) against CopcReader: for
    sessions of queries on one reader over the fake http source, the compressed bytes each query hands to the LAZ backend must be
    what the model yields for the byte ranges of that query (taken from a fresh local reader), i.e. the local read of those ranges"""
    try:
        from harness import fake_lazrs  # noqa
    except Exception:
        return []
    copc = e2e_backend()
    rng = ctx.rng
    dis, lines, meta = [], [], []
    for fi in range(ctx.n(5, 24)):
        layout = LAYOUTS_S[fi % len(LAYOUTS_S)]
        raw, nodes = build_copc(rng, layout, EMPTIES_S[fi % len(EMPTIES_S)])
        copc = e2e_backend()                       # (build_copc re-installs the bare stand-in)
        for si, (name, queries) in enumerate(e2e_session_queries(rng, nodes)):
            ranges, local_bytes = [], []
            try:
                for q in queries:
                    src = LogBytesIO(raw)
                    rd = copc.CopcReader(src)
                    del src.log[:]
                    DropEmptyEntries.LOG = got = []
                    e2e_query(copc, rd, q)
                    ranges.append(list(src.log))
                    local_bytes.append(got[-1] if got else b"")
            except Exception:  # noqa   (a query the local file cannot answer: judged by the oracle, nothing to compare here)
                continue
            finally:
                DropEmptyEntries.LOG = None
            strategy = ("queue", "executor")[(fi + si) % 2]
            prio = LABELS[:]
            rng.shuffle(prio)
            DropEmptyEntries.LOG = got = []
            try:
                _l, res = e2e_session_run(raw, queries, strategy, rng.choice([1, 2, 3]), {},
                                          policy=make_policy(prio, rng.choice(["low", "high"]), rng.choice([0.0, 0.5]), rng))
            finally:
                DropEmptyEntries.LOG = None
            impl, cur = [], None
            for x in got:
                if x is None:
                    cur = []
                    impl.append(cur)
                elif cur is not None:
                    cur.append(x)
            impl = [(c[-1] if c else b"") for c in impl]
            lines.append("session gen " + common.hexb(raw) + " " + ";".join(rtok(rs) for rs in ranges))
            meta.append((raw, queries, name, layout, strategy, ranges, local_bytes, impl, res))
            ctx.count("reader session vs model:" + strategy)
    outs = common.run_model(lines, name="c16") if lines else []
    for (raw, queries, name, layout, strategy, ranges, local_bytes, impl, res), line in zip(meta, outs):
        ctx.traces += 1
        head, kv = parse_kv(line)
        model = kv.get("outs", "").split(";") if head == "ok" else ["rejected: " + line[:100]]
        got = ["returned:x" + b.hex() for b in impl]
        want_local = ["returned:x" + b.hex() for b in local_bytes]
        if (model != got or model != want_local) and len(dis) < 3:
            k = next((i for i in range(min(len(model), len(got))) if model[i] != got[i]), min(len(model), len(got)))
            dis.append({"kind": "successive queries on one reader: compressed bytes of a query differ from the reader model",
                        "input": {"strategy": "e2e", "http_strategy": strategy, "file_hex": raw.hex(), "queries": queries, "session": name,
                                  "layout": layout, "byte_ranges_per_query": [[list(r) for r in rs] for rs in ranges],
                                  "workers": None, "faults": {}, "schedule": res["decisions"]},
                        "model": [m[:80] for m in model], "impl": [g[:80] for g in got], "first_differing_query": k + 1,
                        "local_equals_model": model == want_local, "local": [w[:80] + f"..({len(w)})" for w in want_local]})
    return dis


def e2e_session_oracle(queries, locals_, res):
    kind0 = "e2e, successive queries on one reader: "
    if res["problem"] is not None:
        return kind0 + "query over http blocks (" + res["problem"][0] + ")", str(res["problem"][1])
    if res["leaked"] or not all(res["exited"]):
        return kind0 + "thread still alive after the queries", f"{res['leaked']} exited={res['exited']}"
    late = late_work(res)
    if late is not None:
        return kind0 + late[0].replace("the call", "the query"), late[1]
    if res["outcome"][0] != "session" or len(res["outcome"][1]) != len(queries) or len(res["calls"]) != len(queries):
        return kind0 + "the session did not run to its end", str(short(res["outcome"]))[:300]
    for k, (q, local, out, c) in enumerate(zip(queries, locals_, res["outcome"][1], res["calls"])):
        failed = [tuple(r) for r in c["failed"]]
        nth = f"query #{k + 1} of {len(queries)} {q} (after {queries[:k]})"
        if not failed:
            if local[0] == "error":
                if out[0] != "error" or not out[1].startswith(local[1]):
                    return kind0 + "query over http differs from the local query (which raises)", f"{nth}: {short(out)} vs local {local}"
                continue
            if out[0] != "returned":
                return (kind0 + "query over http raises although no request failed",
                        f"{nth}: {short(out)}; the local query returns {len(local[1])} bytes of records")
            if out[1] != local[1]:
                a, b = out[1], local[1]
                return (kind0 + "query over http returns other points than the local file",
                        f"{nth}: {len(a)} bytes vs {len(b)} bytes, first difference at "
                        f"{next((i for i in range(min(len(a), len(b))) if a[i] != b[i]), min(len(a), len(b)))}; its range requests "
                        f"{c['requests']}")
        else:
            if out[0] == "returned":
                return kind0 + "failed request swallowed by the query", f"{nth}: failed {failed}, returned {len(out[1])} bytes of records"
            if out[0] != "raised" or tuple(out[1]) not in failed:
                return kind0 + "failed request surfaced as something else", f"{nth}: {short(out)}"
    return None


def e2e_session_queries(rng, nodes):
    """[(name, [queries])]: the selections grow / shrink from one query to the next (the byte ranges of contiguous chunks are
    merged per query, so the same chunk starts ranges of different lengths), repeat, or are unrelated"""
    def lv(level):
        return {"level": level, "bounds": None}
    whole = lv(None)
    lo = [rng.choice([0.0, 50.0]) for _ in range(3)]
    octant = [lo, [v + 50.0 for v in lo]]
    slab = [[lo[0], 0.0, 0.0], [lo[0] + 50.0, 100.0, 100.0]]
    cube = [[0.0, 0.0, 0.0], [100.0, 100.0, 100.0]]
    blevel = rng.choice([None, None, [0, 2], [1, 3]])

    def bx(b):
        return {"level": blevel, "bounds": b}
    pool = [whole, lv(0), lv(1), lv(2), lv([0, 2]), lv([1, 3]), bx(octant), bx(slab), bx(cube)]
    q = rng.choice(pool)
    out = [("levels growing", [lv(0), lv([0, 2]), whole]),
           ("levels shrinking", [whole, lv([0, 2]), lv(0)]),
           ("deepest level first, then more levels", [lv(2), lv([1, 3]), whole, lv(1)]),
           ("box growing", [bx(octant), bx(slab), bx(cube)]),
           ("box shrinking", [bx(cube), bx(slab), bx(octant)]),
           ("same query twice", [q, q]),
           ("unrelated", [rng.choice(pool) for _ in range(3)])]
    return out


def e2e_sessions(ctx):
    """sequences of queries on ONE CopcReader over the fake HTTP source: each must equal the same query on the local bytes"""
    try:
        from harness import fake_lazrs  # noqa
    except Exception:
        return []
    rng = ctx.rng
    found = []
    runs = 0
    t0 = time.time()
    for fi in range(ctx.n(14, 50)):
        layout, empties = LAYOUTS_S[fi % len(LAYOUTS_S)], EMPTIES_S[fi % len(EMPTIES_S)]
        raw, nodes = build_copc(rng, layout, empties)
        offs = {nd["offset"] for nd in nodes if nd["n"]}
        for si, (name, queries) in enumerate(e2e_session_queries(rng, nodes)):
            for strategy in (("queue", "executor") if ctx.thorough() else (("queue", "executor")[(fi + si) % 2],)):
                starts = []
                for fmode in (0, 1 + (fi + si) % 2):
                    if fmode and (not starts or (si + fi) % 3 == 0):
                        continue
                    faults = {rng.choice(starts): CYCLE.next()} if fmode else {}
                    workers = rng.choice([1, 1, 2, 3, 8])
                    if fmode and runs % 2:
                        pol = make_fail_fast(faults, by_start=True)
                    else:
                        prio = LABELS[:]
                        rng.shuffle(prio)
                        pol = make_policy(prio, rng.choice(["low", "high"]), rng.choice([0.0, 0.5, 1.0]), rng)
                    locals_, res = e2e_session_run(raw, queries, strategy, workers, faults, once=(fmode == 2), policy=pol)
                    per_call = [[tuple(r) for r in c["requests"] if r[0] in offs] for c in res["calls"]]
                    starts = sorted({r[0] for rs in per_call for r in rs})
                    runs += 1
                    ctx.case(("e2e-session", hash(raw), str(queries), strategy, workers, tuple(faults.items()), fmode,
                              tuple(res["decisions"])), nontrivial=len(queries) >= 2)
                    ctx.count("e2e session:" + strategy + ("" if not fmode else (":persistent fault" if fmode == 1 else ":transient fault")))
                    ctx.count("e2e session:" + name)
                    ctx.count("e2e session:layout:" + layout)
                    if shares_start(per_call):
                        ctx.count("e2e session:two queries share a range start with different lengths")
                    count_calls(ctx, res)
                    bad = e2e_session_oracle(queries, locals_, res)
                    if bad is not None and not any(f["kind"] == bad[0] for f in found):
                        found.append({"kind": bad[0], "observed": bad[1],
                                      "input": {"strategy": "e2e", "http_strategy": strategy, "file_hex": raw.hex(), "queries": queries,
                                                "session": name, "layout": layout, "empty_nodes": empties, "workers": workers,
                                                "faults": {str(k): list(v) for k, v in faults.items()}, "transient": fmode == 2,
                                                "faults_legend": "{start offset of the request: [status (-1: no answer), error body kind]}; "
                                                                 "transient: only the first such request fails",
                                                "schedule": res["decisions"]},
                                      "trace": res["events"][-80:],
                                      "expected": "each query returns the same point records as the same query on a fresh reader of the "
                                                  "local bytes, or raises the error of a request that failed during it; after a query has "
                                                  "returned / raised the threads it started do nothing more for it"})
    ctx.extra["end_to_end_sessions"] = runs
    ctx.extra["end_to_end_sessions_seconds"] = round(time.time() - t0, 1)
    return found


LAYOUTS_S = ["level order", "deepest level first", "random", "level order", "deepest level first, gaps"]
EMPTIES_S = ["none", "none", "some", "inner", "none", "root"]


def e2e_replay(inp):
    if "queries" in inp:
        raw = bytes.fromhex(inp["file_hex"])
        locals_, res = e2e_session_run(raw, inp["queries"], inp["http_strategy"], inp["workers"], inp.get("faults") or {},
                                       once=bool(inp.get("transient")), schedule=list(inp["schedule"]))
        bad = e2e_session_oracle(inp["queries"], locals_, res)
        print("trace:", " ".join(res["events"][-60:]))
        if bad is None:
            print("not reproduced")
            return 0
        print("REPRODUCED:", bad[0], "--", bad[1])
        return 1
    raw = bytes.fromhex(inp["file_hex"])
    faults = inp.get("faults")
    if faults is None:
        faults = {s: (500, "empty") for s in inp.get("fail_starts", [])}
    local, res, failed = e2e_run(raw, inp["query"], inp["http_strategy"], inp["workers"], faults, schedule=list(inp["schedule"]))
    bad = e2e_oracle(local, res, failed)
    print("trace:", " ".join(res["events"][-60:]))
    if bad is None:
        print("not reproduced")
        return 0
    print("REPRODUCED:", bad[0], "--", bad[1])
    return 1
