"""C16 — COPC HTTP fetching is schedule-independent and always terminates.

Model: coq/Model/Fetch.v — transition systems whose worker loop / main function / HttpRangeStream.read are the instruction
lists that tools/py2v_c16.py extracts from laspy/copc.py (Gen/GenFetch.v); the queue strategy is replayed in the step-by-step
system (pstate: one step per put / thread start of main), which Proofs/FetchPrologueProofs.v shows to refine the system with an
atomic prologue the safety / progress / termination theorems are proved on.  Whether a request fails is computed by the model
from the status the fake server answers with (stream_fails gen_stream_read).

Tie (schedule replay): the REAL HttpFetcherThread / http_queue_strategy / http_thread_executor_strategy / HttpRangeStream run in
this process against instrumented doubles patched into the `laspy.copc` namespace only: queue.Queue / SimpleQueue doubles, a
ThreadPoolExecutor subclass, HttpRangeStream subclassed to make `seek` observable.  The HTTP double sits UNDER laspy's own
transport code: requests_retry_session, requests.Session, the adapter it mounts and urllib3's pool / Retry run as they are; the
CONNECTION the pool hands out is replaced (NetConnection: one request()/getresponse() = one attempt, answered by the World of the
run: a status + body, connection refused, dropped, body cut), HTTPConnectionPool.urlopen is wrapped to see where a request begins
and how it ends below the adapter, Retry.sleep does not sleep.  (Four in five of the schedules enumerated from the model graph
run on a double of the session instead - those runs are about the interleaving; every other run is on the real stack.)
The attempts of every request and how it ended are compared with the model of the session's retry policy (send_cfg gen_retry).
Every queue operation (INCLUDING the main thread's query_queue.put calls), every thread start of the queue strategy, request
completion, seek (executor), future.result() and the pool shutdown hands control to a controller that lets exactly one thread
move at a time, following a schedule (list of thread ids).  A failing request is an answer of the fake server with any 4xx / 5xx
status (incl. 416) and an error body of any length (empty, shorter, as long as, longer than the range), or no answer at all
(session.get raises); empty ranges (the byte query of nodes without points) are part of the inputs. The executed trace is replayed in the
extracted model, which must accept it (same operations in the same order per thread) and end in the same outcome: bytes /
exception, which workers have exited, nobody blocked.

Search: the property stated on the implementation alone: same bytes as the local read, a failure surfaces as the exception of a
failed request, every thread started has finished (threading.enumerate()), no deadlock — over model-independent schedules
(random priority policies and the adversarial ones).

Free runs (round 7): the same oracle on runs where NOTHING of the standard library is replaced (whatever queue class, lock or pool
the fetching code uses runs as it is, OS threads, a fresh interpreter): a fault on request k of n with w workers, the fake server
holding answers back so that the error arrives when the fetched blocks are already queued / before any of them / as they come;
the call runs under a time limit: 'did not terminate' is an observation.  A queue class the source imports that has no double
(PriorityQueue ...) also runs as it is in the controlled runs (its operations are not control points).

After the call: the controller notes the moment every observed call (a strategy call, a CopcReader.query) returns or raises -
which of the threads it started are not finished and what each is about to do, how many requests the server has seen - and keeps
driving those threads: any operation for a range (request, seek, result published, task_done, job begun) or any range request after
that moment is a failing input ("worker thread still at work / range request issued after the call returned|raised"); model:
C16_queue_steps_only_exits_after_done, C16_exec_nothing_after_done, compared per trace (quiet=).  A fail-fast schedule (a failed
request answered before every other request in flight, main running whenever it can) is among the adversarial ones.

Histories (what SURVIVES a query): long sequences of calls in ONE fresh interpreter each - both strategies, direct reads, CopcReader
queries, one source kept or a new one per call - most of whose range requests fail below the session (refused / dropped / retries
exhausted on 500, 502, 504 / cut bodies / error statuses; > 32 failures by an exception of the adapter's send in every quick
history, > 256 in one, > 4096 thorough), each call judged, followed by calls on a healthy server that must return the local read and
leave no thread behind; also: many failing one-range calls, many healthy calls, requests without a Range header failing.  Model:
gen_transport_kept = TkNothing (C16_history_transport_keeps_nothing; the leaky slot pool is C16_history_leaked_slots_refuted), each
call replayed in the model as a run of its own.  An input found in the long-lived check process is re-run alone in a fresh
interpreter; when it does not show there it is reported as depending on the runs before it.

Sizes (round 5): the end-to-end queries and reader sessions also run on BIG generated files (BIG_PROFILES: the chunks a query selects
form ONE byte range of more than 1 / 2 / 4 / 8 MiB with an awkward remainder, or of exactly 2^k bytes): whatever the fetching code
does with a range above a size limit (splitting it over workers, block-wise reads) must still assemble the local read.

Sessions: successive calls of a strategy on one source, and successive queries on ONE CopcReader over the fake http source
(levels / boxes growing and shrinking, so that byte ranges start at the same offset with different lengths; repeats; unrelated
ones), persistent and transient faults: each must equal the local answer for ITS ranges.  Model: reader_session gen_fetch_site
(what the reader keeps between queries - nothing), compared on the compressed bytes each query hands to the LAZ backend.
"""
import http.client
import io
import json
import os
import random
import struct
import subprocess
import sys
import threading
import time
from collections import deque
from queue import Empty

from harness import common

try:                                  # the HTTP stack laspy uses; the double sits UNDER it (at the connection)
    import requests as _requests
    from urllib3.connection import HTTPConnection as _HTTPConnection
    from urllib3.connectionpool import HTTPConnectionPool as _Pool
    from urllib3.exceptions import NewConnectionError as _NewConnectionError
    from urllib3.response import HTTPResponse as _HTTPResponse
    from urllib3.util.retry import Retry as _Retry
    HAVE_STACK = True
except Exception:  # noqa
    HAVE_STACK = False

DRIVER = "c16"
ASSUMPTIONS = [
    "stdlib semantics assumed, not verified: queue.Queue (FIFO, unfinished_tasks/join/task_done), queue.SimpleQueue, "
    "threading.Thread, concurrent.futures.ThreadPoolExecutor (FIFO work queue, Future.result(), shutdown(wait=True) on leaving "
    "the with block); they are replaced by instrumented doubles with exactly these semantics during replay",
    "the HTTP server answers an ATTEMPT of a range request with exactly the requested bytes (status 206), with a client/server error "
    "status 400..599 and any body, by refusing the connection, by dropping it before any response, or by breaking it while the body is "
    "read; requests / urllib3 are run, not verified: requests.Response.raise_for_status raises exactly for 400..599, "
    "urllib3.util.Retry(total, connect, read, status_forcelist) as modelled by send_retry (compared per request: attempts made, how it "
    "ended); no Retry-After header, no redirect; the back-off sleeps between attempts are skipped (Retry.sleep patched); sockets, TLS, "
    "time-outs (laspy sets none) and success answers with a complete body of the wrong length are outside the model; at least one worker "
    "(http_num_threads >= 1)",
    "what outlives a call is exercised by histories of up to a few hundred (quick) / a few thousand (thorough) calls in a fresh "
    "interpreter: state that needs a longer history, or another process-wide resource than threads / the objects reachable from "
    "laspy.copc, requests and urllib3, to show is covered by the translator's fail-closed reading of requests_retry_session / "
    "HttpRangeStream only (gen_transport_kept)",
    "byte ranges handed to the strategies have strictly increasing offsets (what CopcReader builds from distinct nodes); "
    "for unsorted ranges the queue strategy returns the blocks in offset order (proved and compared, not required by the oracle)",
    "the OS scheduler is abstracted to: any interleaving of the threads at queue operations (main's puts included), thread "
    "starts (queue strategy), request completions, seeks, future.result() and pool shutdown; code between two such points of "
    "one thread is treated as atomic",
    "http_queue_strategy does not join the threads it starts: a worker that has marked its last range done may still be on its way out "
    "(one non-blocking take that finds the queue empty, closing its stream) when the call returns; that is not counted as work "
    "(proved: it is the only step left, C16_queue_steps_only_exits_after_done), threading.enumerate() is checked once those steps ran",
    "end-to-end queries use harness/fake_lazrs as the LAZ backend; a chunk-table entry (0 points, 0 bytes) - an empty COPC "
    "node - is dropped before the stand-in sees it (it rejects a 0-byte chunk)",
]

WAIT = 8.0       # seconds the controller waits for the threads to reach their next control point before calling it a hang


class Abort(BaseException):
    """raised inside controlled threads to unwind them when a run is abandoned (passes `except Exception`)"""


class FakeHTTPError(Exception):
    """what requests raises: HTTPError from raise_for_status (status 4xx/5xx) or a ConnectionError (status -1)"""

    def __init__(self, start, n, status=500):
        super().__init__(f"{status} Error for range {start}+{n}" if status >= 0 else f"connection error for range {start}+{n}")
        self.range = (start, n)
        self.status = status


# what a failing request is answered with: (status, body kind) - EVERY attempt of the request - or (status, body kind, k) - its
# first k attempts only, then the server is healthy.  status < 0: no response: -1 = the connection is dropped before any response
# (a read error, retried by the adapter), -2 = it is refused (a connect error, retried), -4 = the response head arrives (206) and
# the connection breaks while the body is read (never retried).  Whether the REQUEST fails is up to laspy's session (its Retry
# configuration): 500 / 502 / 504 and -1 / -2 are retried, so a fault of k <= 3 attempts is masked
STATUSES = [416, 500, 404, 403, 503, 400, 429, 502, 401, 504, 408, 410, 599]
BODIES = ["empty", "short", "exact", "long"]
FAULTS = [(st, BODIES[(i + k) % 4]) for k in range(4) for i, st in enumerate(STATUSES)]
FAULTS.insert(5, (-1, "none"))
FAULTS.insert(11, (-2, "none"))
FAULTS.insert(17, (-4, "none"))
TRANSIENT = [(502, "empty", 2), (-1, "none", 3), (500, "short", 1), (-2, "none", 2), (504, "exact", 3), (404, "empty", 1),
             (-1, "none", 4), (502, "long", 5), (-4, "none", 1), (-2, "none", 1)]
if HAVE_STACK:
    for _k, _f in enumerate(TRANSIENT):
        FAULTS.insert(3 + 6 * _k, _f)
RAISING = [(-1, "none"), (-2, "none"), (502, "empty"), (500, "short"), (504, "exact")]     # the adapter's send raises
NONRANGE = (-1, 0)               # stands for a request without a Range header (none is made by the unchanged source)


def persistent(fault):
    return len(fault) < 3


class FaultCycle:
    """hands out the fault kinds in a fixed order, so that every run covers every status x body kind (both strategies get
    the same fault for the same failing set)"""

    def __init__(self):
        self.k = 0

    def next(self):
        f = FAULTS[self.k % len(FAULTS)]
        self.k += 1
        return f

    def assign(self, failing):
        return {tuple(r): self.next() for r in failing}


def error_body(kind, n):
    return {"empty": b"", "short": b"\xee" * max(0, n - 1), "exact": b"\xee" * n, "long": b"\xee" * (n + 7), "none": b""}[kind]


class TInfo:
    __slots__ = ("tid", "thread", "state", "label", "enabled", "granted", "extra", "gate")

    def __init__(self, tid, thread, state):
        self.tid, self.thread, self.state = tid, thread, state
        self.label = None
        self.enabled = None
        self.granted = False
        self.extra = None
        self.gate = threading.Lock()          # binary gate: held by the controller, released to grant
        self.gate.acquire()


class Controller:
    """cooperative scheduler: one controlled thread moves at a time"""

    def __init__(self, mode, schedule=None, policy=None, seek_yields=False):
        self.mode = mode                      # 'queue' | 'exec' | 'free'
        self.schedule = list(schedule or [])
        self.policy = policy
        self.seek_yields = seek_yields
        self.cv = threading.Lock()            # protects the bookkeeping below
        self.wake = threading.Lock()          # binary event: released whenever a thread changed state
        self.wake.acquire()
        self.infos = []                       # by tid
        self.by_ident = {}
        self.trace = []                       # (window, tid, label, extra)
        self.window = 0
        self.aborting = False
        self.submitted = 0
        self.begun = 0
        self.done_jobs = set()
        self.shutdown_flag = False
        self.executors = []
        self.query_queue = None
        self.thread_errors = []
        self.problem = None                   # ('deadlock', [...]) | ('hang', [...])
        self.decisions = []                   # what was granted: tids
        self.boundaries = []                  # one per observed call (strategy call / query): the moment it returned or raised

    # ---- called by controlled threads
    def ping(self):
        try:
            self.wake.release()
        except RuntimeError:
            pass

    def me(self):
        return self.by_ident.get(threading.get_ident())

    def register(self, thread):
        with self.cv:
            info = TInfo(len(self.infos), thread, "limbo" if (self.mode == "exec" and self.infos) else "running")
            self.infos.append(info)
        orig_run = thread.run

        def run():
            with self.cv:
                self.by_ident[threading.get_ident()] = info
            try:
                orig_run()
            except Abort:
                pass
            except BaseException as ex:  # noqa  (what threading.excepthook would report)
                self.thread_errors.append((info.tid, type(ex).__name__, str(ex)))
            finally:
                with self.cv:
                    info.state = "finished"
                self.ping()
        thread.run = run
        return info

    def point(self, label, enabled=None, extra=None):
        info = self.me()
        if info is None:
            return
        with self.cv:
            if self.aborting:
                raise Abort()
            info.state, info.label, info.enabled, info.extra = "parked", label, enabled, extra
        self.ping()
        while True:
            got = info.gate.acquire(timeout=0.5)
            with self.cv:
                if info.granted:
                    info.granted = False
                    return
                if self.aborting:
                    raise Abort()

    def log(self, label, extra=None):
        info = self.me()
        if info is None:
            return
        with self.cv:
            self.trace.append((self.window, info.tid, label, extra))

    def boundary(self, world, how):
        """called by the main controlled thread at the moment an observed call returns or raises: what has been traced and
        requested so far, which threads exist and what each unfinished one is about to do"""
        with self.cv:
            if self.aborting:
                return
            self.boundaries.append({"how": how, "trace": len(self.trace), "requests": len(world.requests),
                                    "failed": len(world.failed), "tids": len(self.infos), "jobs": self.submitted,
                                    "alive": [(i.tid, i.state, i.label) for i in self.infos[1:] if i.state != "finished"]})

    def job_begin(self, idx):
        info = self.me()
        with self.cv:
            self.begun += 1
            if info is not None:
                info.state = "running"
                self.trace.append((self.window, info.tid, "begin", idx))
        self.ping()

    def job_end(self, idx):
        info = self.me()
        with self.cv:
            self.done_jobs.add(idx)
            if info is not None and not self.aborting:
                info.state = "limbo"
        self.ping()

    # ---- the driving loop (harness thread)
    def quiescent(self):
        limbo = 0
        for i in self.infos:
            if i.state == "running":
                return False
            if i.state == "limbo":
                limbo += 1
        if limbo:
            unbegun = self.submitted - self.begun
            if self.shutdown_flag or unbegun > 0:
                return False
        return True

    def choose(self, enabled):
        ids = [i.tid for i in enabled]
        while self.schedule:
            t = self.schedule.pop(0)
            if t in ids:
                return enabled[ids.index(t)]
        if self.policy is not None:
            return self.policy(self, enabled)
        return enabled[0]

    def drive(self):
        deadline = time.time() + RUN_LIMIT
        while True:
            t_end = time.time() + WAIT
            while True:
                with self.cv:
                    if self.quiescent():
                        break
                left = t_end - time.time()
                if left <= 0:
                    with self.cv:
                        self.problem = ("hang", [(i.tid, i.state, i.label) for i in self.infos if i.state in ("running", "limbo")])
                    return
                self.wake.acquire(timeout=min(left, 0.2))
            with self.cv:
                parked = [i for i in self.infos if i.state == "parked"]
                if not parked:
                    return
                enabled = [i for i in parked if i.enabled is None or i.enabled()]
                if not enabled:
                    self.problem = ("deadlock", [(i.tid, i.label) for i in parked])
                    return
                if time.time() > deadline:
                    self.problem = ("hang", [(f"run exceeded {RUN_LIMIT:.0f} s", "", "")])
                    return
                info = self.choose(enabled)
                self.window += 1
                self.trace.append((self.window, info.tid, info.label, info.extra))
                self.decisions.append(info.tid)
                info.state = "running"
                info.granted = True
            info.gate.release()

    def abort(self):
        with self.cv:
            self.aborting = True
        for i in self.infos:
            try:
                i.gate.release()
            except RuntimeError:
                pass
        for ex in self.executors:
            try:
                ex._real_shutdown(wait=False)
            except Exception:
                pass

    def events(self):
        return render(self.trace)


def render(trace, tid0=0, job0=0):
    """trace in model order: `begin` events of one window sorted by job index (they are not ordered by any controlled op);
    tid0 / job0: worker ids and job indices are renumbered relative to these (one call of a session)"""
    out = []
    cur = []

    def tn(t):
        return t if t == 0 else t - tid0
    for w, tid, label, extra in trace:
        if label == "begin":
            cur.append((extra - job0, tn(tid)))
            continue
        if cur:
            out += [f"{t}.begin.{j}" for j, t in sorted(cur)]
            cur = []
        out.append(f"{tn(tid)}.{label}")
    if cur:
        out += [f"{t}.begin.{j}" for j, t in sorted(cur)]
    return out


CURRENT = None      # the controller of the run in progress
_ORIG_START = threading.Thread.start


def _patched_start(self):
    ctl = CURRENT
    if ctl is not None and ctl.me() is not None and not ctl.aborting:
        if ctl.mode == "queue":
            ctl.point("start")                 # ... and before each thread start
        ctl.register(self)
        try:
            self.daemon = True                 # a thread blocked for ever inside the code under test must not keep the check from exiting
        except RuntimeError:
            pass
    return _ORIG_START(self)


# ------------------------------------------------------------------------------------------------ doubles
class CtlQueue:
    """queue.Queue double (FIFO, unfinished_tasks, join, task_done)"""

    def __init__(self, maxsize=0):
        self.items = deque()
        self.unfinished = 0
        if CURRENT is not None:
            CURRENT.query_queue = self

    def put(self, x, block=True, timeout=None):
        CURRENT.point("qput")                  # the main thread can be preempted between two puts
        self.items.append(x)
        self.unfinished += 1

    put_nowait = put

    def get_nowait(self):
        CURRENT.point("take")
        if not self.items:
            raise Empty
        return self.items.popleft()

    def get(self, block=True, timeout=None):
        if not block:
            return self.get_nowait()
        if timeout is not None:
            CURRENT.point("take")
            if not self.items:
                raise Empty
            return self.items.popleft()
        CURRENT.point("take", enabled=lambda: len(self.items) > 0)
        return self.items.popleft()

    def empty(self):
        CURRENT.point("test")
        return not self.items

    def qsize(self):
        CURRENT.point("test")
        return len(self.items)

    def task_done(self):
        CURRENT.point("done")
        if self.unfinished <= 0:
            raise ValueError("task_done() called too many times")
        self.unfinished -= 1

    def join(self):
        CURRENT.point("join", enabled=lambda: self.unfinished == 0)


class CtlSimpleQueue:
    def __init__(self):
        self.items = deque()

    def put(self, x, block=True, timeout=None):
        CURRENT.point("put")
        self.items.append(x)

    put_nowait = put

    def empty(self):
        CURRENT.point("drain")
        return not self.items

    def qsize(self):
        CURRENT.point("drain")
        return len(self.items)

    def get(self, block=True, timeout=None):
        if not self.items:
            if not block:
                raise Empty
            CURRENT.point("rget", enabled=lambda: len(self.items) > 0)
        return self.items.popleft()

    def get_nowait(self):
        return self.get(False)


class FakeResponse:
    def __init__(self, status, content, rng):
        self.status_code = status
        self.content = content
        self.ok = status < 400
        self.reason = "fake"
        self.headers = {"Content-Length": str(len(content))}
        self.text = ""
        self._rng = rng

    def raise_for_status(self):
        if 400 <= self.status_code < 600:
            raise FakeHTTPError(self._rng[0], self._rng[1], self.status_code)


class FakeSession:
    """what HttpRangeStream needs from requests.Session; the request completes when the controller says so"""

    def __init__(self, world):
        self.world = world
        self.closed = False

    def mount(self, *a, **k):
        pass

    def get(self, url, headers=None, **k):
        rng = headers["Range"]
        assert rng.startswith("bytes=")
        a, b = rng[6:].split("-")
        start, end = int(a), int(b)
        n = end - start + 1
        ctl = CURRENT
        if ctl is not None and not ctl.seek_yields:
            ctl.point("fetch", extra=(start, n))       # queue strategy: the request completes when the controller says so
        w = self.world
        me = ctl.me() if ctl is not None else None
        w.requests.append((start, n))
        w.request_tids.append(None if me is None else me.tid)
        fault = w.fault_for(start, n)
        if fault is None and (start >= len(w.file) or n <= 0):
            fault = (416, "empty")                      # what a server answers for a range outside the resource
        if hasattr(w, "hold"):                          # a free run: the server orders its answers
            w.hold(fault)
            w.cv.acquire()
            w.cv.release()
        try:
            if fault is not None:
                w.failed.append((start, n))
                if fault[0] < 0:
                    raise FakeHTTPError(start, n, -1)
                return FakeResponse(fault[0], error_body(fault[1], n), (start, n))
            return FakeResponse(206, bytes(w.file[start:end + 1]), (start, n))
        finally:
            if hasattr(w, "answered"):
                w.answered(fault is not None)

    def close(self):
        self.closed = True


class World:
    """the server: the file, and what it answers the requests of the failing ranges with.  stack = 'real': laspy's own
    requests_retry_session / requests / urllib3 run, the double is the CONNECTION (NetConnection below) and a fault is decided per
    attempt; stack = 'double': requests_retry_session is replaced by FakeSession (no requests installed)"""

    def __init__(self, file, faults=None, by_start=False, once=False, stack=None, nonrange=None):
        self.file = bytes(file)
        self.faults = dict(faults or {})       # (start, n) -> (status, body kind[, attempts])   [by_start: start -> ...]
        self.by_start = by_start
        self.once = once                       # a fault hits the first attempt it applies to only (a transient error)
        self.nonrange = nonrange               # the fault for requests without a Range header (HEAD, plain GET), if any are made
        self.stack = stack or ("real" if HAVE_STACK else "double")
        self.lock = threading.Lock()
        self.requests = []
        self.request_tids = []                 # which controlled thread made the request (None: not a controlled thread)
        self.failed = []                       # the requests that ended in an error answer / an exception below laspy's session
        self.attempts = []                     # per request: [range, [answer of each attempt], how it ended]
        self.others = 0                        # requests without a Range header

    def fault_for(self, start, n, attempt=0):
        if start < 0:
            return self.nonrange
        key = start if self.by_start else (start, n)
        if self.once:
            return self.faults.pop(key, None)
        f = self.faults.get(key)
        if f is not None and len(f) >= 3 and attempt >= f[2]:
            return None
        return f

    # ---- called by the transport double (stack = 'real')
    def begin(self, method, rng):
        """a request enters the connection pool (below laspy's adapter)"""
        ctl = CURRENT
        if rng is None:
            rng = NONRANGE
        elif ctl is not None and not ctl.seek_yields:
            ctl.point("fetch", extra=rng)              # queue strategy: the request completes when the controller says so
        me = ctl.me() if ctl is not None else None
        with self.lock:
            rec = [rng, [], None]
            self.requests.append(rng)
            self.request_tids.append(None if me is None else me.tid)
            self.attempts.append(rec)
            if rng == NONRANGE:
                self.others += 1
        return rec

    def attempt(self, rec):
        rng = rec[0]
        with self.lock:
            fault = self.fault_for(rng[0], rng[1], len(rec[1]))
            if fault is None and rng != NONRANGE and (rng[0] >= len(self.file) or rng[1] <= 0):
                fault = (416, "empty")                  # what a server answers for a range outside the resource
            rec[1].append(206 if fault is None else fault[0])
        return fault

    def end(self, rec, how):
        """how: the status of the response handed to laspy's session, or 'raised' (the adapter's send raises), or 'cut'"""
        with self.lock:
            if how == "cut":
                rec[2] = "cut"
                self.failed.append(rec[0])
            elif rec[2] is None:
                rec[2] = how
                if how == "raised" or (isinstance(how, int) and 400 <= how < 600):
                    self.failed.append(rec[0])


# ------------------------------------------------------------------------------------------------ the transport double
# laspy's requests_retry_session, requests.Session, its adapter(s) and urllib3's connection pool / Retry run as they are; what is
# replaced is the CONNECTION the pool hands out (HTTPConnectionPool.ConnectionCls): it asks the World of the run what the server
# does with THIS attempt.  HTTPConnectionPool.urlopen is wrapped (not replaced) to see where a request begins and how it ends
# below the adapter, and Retry.sleep does not sleep (the back-off between attempts is not waited for).
_TL = threading.local()


def _range_of_headers(headers):
    try:
        v = headers.get("Range") if headers is not None else None
    except Exception:  # noqa
        v = None
    if not v or not str(v).startswith("bytes="):
        return None
    a, _, b = str(v)[6:].partition("-")
    try:
        return (int(a), int(b) - int(a) + 1)
    except ValueError:
        return None


class _BrokenBody(io.RawIOBase):
    """a response body that breaks after its first bytes"""

    def __init__(self, data, rng):
        self.data, self.rng, self.sent = data, rng, False

    def readable(self):
        return True

    def readinto(self, b):
        if not self.sent and self.data:
            self.sent = True
            n = min(len(b), len(self.data))
            b[:n] = self.data[:n]
            return n
        ex = ConnectionResetError(104, "Connection reset by peer")
        ex.c16_range = self.rng
        raise ex


if HAVE_STACK:
    class _NetSock:
        def close(self):
            pass

        def settimeout(self, t):
            pass

    class NetConnection(_HTTPConnection):
        """the connection the pool hands out: no socket; request() + getresponse() = one ATTEMPT answered by the World"""

        def connect(self):
            self.sock = _NetSock()

        @property
        def is_closed(self):
            return self.sock is None

        @property
        def is_connected(self):
            return self.sock is not None

        def close(self):
            self.sock = None

        def request(self, method, url, body=None, headers=None, **kw):
            world = getattr(_TL, "world", None) or NET
            rec = getattr(_TL, "rec", None)
            self._c16 = None
            if world is None:
                raise _NewConnectionError(self, "c16 harness: no server outside a controlled run")
            own = rec is None
            if own:                                # a request that did not come through HTTPConnectionPool.urlopen
                rec = world.begin(method, _range_of_headers(headers))
            fault = world.attempt(rec)
            self._c16 = (world, rec, fault, method, url, own)
            if fault is not None and fault[0] == -2:
                self.sock = None
                if own:
                    world.end(rec, "raised")
                ex = _NewConnectionError(self, "Failed to establish a new connection: [Errno 111] Connection refused")
                ex.c16_range = rec[0]
                raise ex
            if self.sock is None:
                self.connect()

        def getresponse(self):
            world, rec, fault, method, url, own = self._c16
            rng = rec[0]
            if fault is not None and fault[0] == -1:
                self.close()
                if own:
                    world.end(rec, "raised")
                ex = http.client.RemoteDisconnected("Remote end closed connection without response")
                ex.c16_range = rng
                raise ex
            if fault is None or fault[0] == -4:
                data = world.file if rng == NONRANGE else bytes(world.file[rng[0]:rng[0] + rng[1]])
                status = 200 if rng == NONRANGE else 206
            else:
                data, status = error_body(fault[1], max(rng[1], 0)), fault[0]
            hdrs = {"Content-Length": str(len(data)), "Accept-Ranges": "bytes"}
            if method == "HEAD":
                fp = io.BytesIO(b"")
            elif fault is not None and fault[0] == -4:
                hdrs["Content-Length"] = str(len(data) + 1)
                fp = io.BufferedReader(_BrokenBody(data[:len(data) // 2], rng))
                world.end(rec, "cut")
            else:
                fp = io.BytesIO(data)
            if own:
                world.end(rec, status)
            return _HTTPResponse(body=fp, headers=hdrs, status=status, version=11, version_string="HTTP/1.1", reason="c16",
                                 preload_content=False, decode_content=False, request_method=method, request_url=url,
                                 enforce_content_length=True)

    _REAL_URLOPEN = _Pool.urlopen
    _REAL_SLEEP = _Retry.sleep
    _REAL_CONN = _Pool.ConnectionCls

    def _net_urlopen(pool, method, url, *a, **kw):
        world = NET
        if world is None or getattr(_TL, "rec", None) is not None:
            return _REAL_URLOPEN(pool, method, url, *a, **kw)          # an attempt after the first (urlopen calls itself)
        headers = kw.get("headers", a[1] if len(a) > 1 else None)
        rec = world.begin(method, _range_of_headers(headers))
        _TL.rec, _TL.world = rec, world
        try:
            resp = _REAL_URLOPEN(pool, method, url, *a, **kw)
        except Abort:
            raise
        except BaseException:
            world.end(rec, "raised")
            raise
        finally:
            _TL.rec = _TL.world = None
        world.end(rec, int(resp.status))
        return resp

    def _no_sleep(self, response=None):
        return None


NET = None           # the World of the run in progress when the real stack is used
if HAVE_STACK:
    import requests.utils as _rutils
    _REAL_GETPROXIES, _REAL_BYPASS = _rutils.getproxies, _rutils.proxy_bypass
    _NO_PROXY_ENV = not any(k.lower().endswith("_proxy") for k in os.environ)


def install_net(world):
    global NET
    if not HAVE_STACK or world.stack != "real":
        NET = None
        return False
    NET = world
    _Pool.ConnectionCls = NetConnection
    _Pool.urlopen = _net_urlopen
    _Retry.sleep = _no_sleep
    if _NO_PROXY_ENV:
        # no proxy is configured in the environment: requests' two scans of os.environ per request are answered at once
        _rutils.getproxies = dict
        _rutils.proxy_bypass = lambda host: False
    return True


def uninstall_net():
    global NET
    NET = None
    if HAVE_STACK:
        _Pool.ConnectionCls = _REAL_CONN
        _Pool.urlopen = _REAL_URLOPEN
        _Retry.sleep = _REAL_SLEEP
        _rutils.getproxies, _rutils.proxy_bypass = _REAL_GETPROXIES, _REAL_BYPASS


def range_of_exc(ex):
    """the range request an exception raised by the code under test stands for: FakeHTTPError (the session double), a requests
    exception (its .request / .response.request carries the Range header) or anything chained to one; NONRANGE for a request
    without a Range header; None: not the error of a request"""
    seen, todo = set(), [ex]
    while todo and len(seen) < 40:
        e = todo.pop(0)
        if id(e) in seen:
            continue
        seen.add(id(e))
        if isinstance(e, FakeHTTPError):
            return tuple(e.range)
        req = getattr(e, "request", None)
        if req is None:
            req = getattr(getattr(e, "response", None), "request", None)
        if req is not None and hasattr(req, "headers"):
            return _range_of_headers(req.headers) or NONRANGE
        r = getattr(e, "c16_range", None)
        if r is not None:
            return tuple(r)
        for x in (getattr(e, "__cause__", None), getattr(e, "__context__", None), getattr(e, "reason", None)) + tuple(getattr(e, "args", ()) or ()):
            if isinstance(x, BaseException):
                todo.append(x)
    return None


_PATCH_LOCK = threading.Lock()
_ABSENT = object()


class Patched:
    """patches laspy.copc (this process only) for the duration of one run"""

    def __init__(self, ctl, world):
        self.ctl, self.world = ctl, world

    def __enter__(self):
        global CURRENT
        import laspy.copc as copc
        _PATCH_LOCK.acquire()
        self.copc = copc
        # a name the module does not (or no longer) import is put there for the run and removed afterwards; a queue class it
        # imports that has no double (PriorityQueue, LifoQueue ...) runs as it is: its operations are not control points
        self.saved = {k: getattr(copc, k, _ABSENT) for k in ("Queue", "SimpleQueue", "HttpRangeStream", "ThreadPoolExecutor",
                                                             "requests_retry_session", "requests")}
        if self.saved["HttpRangeStream"] is _ABSENT or self.saved["ThreadPoolExecutor"] is _ABSENT:
            _PATCH_LOCK.release()
            raise RuntimeError("laspy.copc has no HttpRangeStream / ThreadPoolExecutor")
        real_stream = copc.HttpRangeStream
        real_tpe = copc.ThreadPoolExecutor
        ctl, world = self.ctl, self.world

        class InstrStream(real_stream):
            def seek(self, pos, whence=io.SEEK_SET):
                if ctl.seek_yields:
                    ctl.point("seek")
                return real_stream.seek(self, pos, whence)

            def read(self, n):
                # executor strategy: seek and read are separate observable operations of a job (a stream shared between
                # jobs could be moved in between); the whole read = range computation + response + position update is one step
                # (an empty range makes no request: the read itself is the step)
                if ctl.seek_yields or n == 0:
                    ctl.point("fetch", extra=(self.range_start, n))
                return real_stream.read(self, n)

        class FutProxy:
            def __init__(self, fut, idx):
                self._f, self._idx = fut, idx

            def result(self, timeout=None):
                ctl.point("collect", enabled=lambda: self._idx in ctl.done_jobs)
                return self._f.result(timeout)

            def __getattr__(self, name):
                return getattr(self._f, name)

        class CtlExecutor(real_tpe):
            def __init__(self, *a, **k):
                super().__init__(*a, **k)
                ctl.executors.append(self)
                with ctl.cv:
                    ctl.shutdown_flag = False          # a new pool (a later call of a session): nobody has shut it down yet

            def _real_shutdown(self, wait=True):
                real_tpe.shutdown(self, wait=wait)

            def submit(self, fn, *a, **k):
                with ctl.cv:
                    idx = ctl.submitted
                    ctl.submitted += 1

                def wrapped(*a2, **k2):
                    ctl.job_begin(idx)
                    try:
                        return fn(*a2, **k2)
                    finally:
                        ctl.job_end(idx)
                return FutProxy(real_tpe.submit(self, wrapped, *a, **k), idx)

            def shutdown(self, wait=True, **k):
                ctl.point("shutdown")
                real_tpe.shutdown(self, wait=False, **k)
                with ctl.cv:
                    ctl.shutdown_flag = True
                ctl.ping()
                if wait:
                    mine = [i for i in ctl.infos if i.thread in self._threads]
                    ctl.point("joined", enabled=lambda: all(i.state == "finished" for i in mine))
                    real_tpe.shutdown(self, wait=True)

            def __exit__(self, *exc):
                self.shutdown(wait=True)
                return False

        copc.Queue = CtlQueue
        copc.SimpleQueue = CtlSimpleQueue
        copc.HttpRangeStream = InstrStream
        copc.ThreadPoolExecutor = CtlExecutor
        if getattr(copc, "requests", None) is None or not install_net(world):
            # no requests package (or the session double asked for): the double is the session
            world.stack = "double"
            copc.requests_retry_session = lambda *a, **k: FakeSession(world)
            if getattr(copc, "requests", None) is None:
                copc.requests = object()
        self.stream_cls = InstrStream
        threading.Thread.start = _patched_start
        self.hook = threading.excepthook
        threading.excepthook = lambda args: ctl.thread_errors.append((-1, args.exc_type.__name__, str(args.exc_value)))
        CURRENT = ctl
        return self

    def observed(self, f):
        """runs one call of the code under test in the main controlled thread and notes the moment it returns or raises"""
        try:
            out = ("returned", f())
        except Abort:
            raise
        except Exception as ex:  # noqa
            rng = range_of_exc(ex)
            if rng is not None:
                out = ("raised", rng)
            else:
                out = ("error", common.exc_kind(ex) + ": " + str(ex)[:80])
        self.ctl.boundary(self.world, out[0])
        return out

    def __exit__(self, *exc):
        global CURRENT
        CURRENT = None
        uninstall_net()
        threading.Thread.start = _ORIG_START
        threading.excepthook = self.hook
        for k, v in self.saved.items():
            if v is _ABSENT:
                if hasattr(self.copc, k):
                    delattr(self.copc, k)
            else:
                setattr(self.copc, k, v)
        _PATCH_LOCK.release()
        return False


# ------------------------------------------------------------------------------------------------ one controlled run
WORK = ("fetch", "put", "done", "seek", "begin")     # what a thread does for a range it holds (everything but its exit path)


def calls_of(ctl, world):
    """per observed call: how it ended, the requests made / failed during it, and what the threads IT started still did for a
    range after it had returned or raised (`late`); a thread that only leaves (a last non-blocking take that finds the queue
    empty, closing its stream) is `winding_down`"""
    bs = ctl.boundaries
    call_of_tid = {}
    prev_t = 1
    for k, b in enumerate(bs):
        for t in range(prev_t, b["tids"]):
            call_of_tid[t] = k
        prev_t = b["tids"]
    own = [[] for _ in bs]
    late = [[] for _ in bs]
    k0 = 0                                                   # the call main is in at trace position k
    for k, e in enumerate(ctl.trace):
        while k0 < len(bs) and k >= bs[k0]["trace"]:
            k0 += 1
        tid = e[1]
        if tid == 0:
            if k0 < len(bs):
                own[k0].append(e)
            continue
        c = call_of_tid.get(tid)
        if c is None:
            continue
        own[c].append(e)
        if k >= bs[c]["trace"] and e[2] in WORK:
            late[c].append(f"{tid}.{e[2]}")
    late_req = [[] for _ in bs]
    for idx, (r, t) in enumerate(zip(world.requests, world.request_tids)):
        c = call_of_tid.get(t)
        if c is not None and idx >= bs[c]["requests"]:
            late_req[c].append(list(r))
    out = []
    prev = {"trace": 0, "requests": 0, "failed": 0, "tids": 1, "jobs": 0}
    for k, b in enumerate(bs):
        mine = range(prev["tids"], b["tids"])
        alive = [a for a in b["alive"] if a[0] in mine]
        out.append({"how": b["how"], "threads": len(mine), "requests": list(world.requests[prev["requests"]:b["requests"]]),
                    "failed": list(world.failed[prev["failed"]:b["failed"]]),
                    "alive_at_return": [[t, st, lb] for t, st, lb in alive], "late": late[k], "late_requests": late_req[k],
                    "events": render(own[k], prev["tids"] - 1, prev["jobs"]),
                    "exited": [i.state == "finished" for i in ctl.infos[prev["tids"]:b["tids"]]],
                    "winding_down": len(alive) if not late[k] and not late_req[k] else 0})
        prev = b
    return out


class TooManyHangs(Exception):
    """threads of earlier runs are blocked inside the code under test, outside every controlled operation: no further run is made
    in this process (each would wait WAIT seconds for nothing)"""


RUNS = 0             # controlled runs made in this process
HANGS = 0            # runs of this process that ended with a thread blocked outside the controlled operations
HANG_LIMIT = 2
RUN_LIMIT = 60.0     # seconds one controlled run may take
JOIN_LIMIT = 3.0     # seconds the threads of a run are given to finish once it is over / abandoned


def controlled_call(mode, world, fn, schedule=None, policy=None, seek_yields=False, session=False):
    """runs fn(patched) in a controlled thread; returns dict(outcome, events, exited, problem, leaked, errors, decisions, calls).
    session: fn makes several observed calls itself (p.observed) and returns the list of their outcomes"""
    global HANGS, RUNS
    if HANGS >= HANG_LIMIT:
        raise TooManyHangs()
    RUNS += 1
    before = set(threading.enumerate())
    ctl = Controller(mode, schedule, policy, seek_yields)
    res = {}
    with Patched(ctl, world) as p:
        def target():
            if session:
                try:
                    res["outcome"] = ("session", fn(p))
                except Abort:
                    raise
                except Exception as ex:  # noqa   (outside the observed calls: building the reader ...)
                    res["outcome"] = ("error", common.exc_kind(ex) + ": " + str(ex)[:80])
            else:
                res["outcome"] = p.observed(lambda: fn(p))
        t0 = threading.Thread(target=target, name="c16-main", daemon=True)
        info0 = ctl.register(t0)
        info0.state = "running"
        _ORIG_START(t0)
        ctl.drive()
        blocked = []
        if ctl.problem is not None:
            blocked = list(ctl.problem[1])
            ctl.abort()
        t_end = time.time() + JOIN_LIMIT
        for i in ctl.infos:
            i.thread.join(max(0.0, t_end - time.time()))
        started = [i.thread for i in ctl.infos]
    leaked = [t.name for t in threading.enumerate() if t not in before and t.is_alive()]
    leaked_ctl = [i.tid for i in ctl.infos if i.thread.is_alive()]
    if leaked_ctl:
        # blocked for good (not at a controlled operation, so it cannot be unwound): make sure the interpreter can still exit
        try:
            import concurrent.futures.thread as _cft
            for i in ctl.infos:
                if i.thread.is_alive():
                    _cft._threads_queues.pop(i.thread, None)
        except Exception:  # noqa
            pass
    if ctl.problem is not None and ctl.problem[0] == "hang":
        HANGS += 1
    return {
        "outcome": res.get("outcome", ("none", None)),
        "events": ctl.events(),
        "exited": [i.state == "finished" and not (ctl.problem and any(b[0] == i.tid for b in blocked)) for i in ctl.infos[1:]],
        "problem": ctl.problem,
        "leaked": leaked + [f"tid{t}" for t in leaked_ctl],
        "errors": list(ctl.thread_errors),
        "decisions": list(ctl.decisions),
        "requests": list(world.requests),
        "failed": list(world.failed),
        "attempts": [list(a) for a in world.attempts],
        "stack": world.stack,
        "other_requests": world.others,
        "threads": len(started) - 1,
        "calls": calls_of(ctl, world),
    }


def run_queue(file, ranges, workers, faults, schedule=None, policy=None, stack=None):
    world = World(file, faults, stack=stack)

    def fn(p):
        src = p.stream_cls("http://fake/file.copc.laz")
        out = bytearray(sum(n for _, n in ranges))
        p.copc.http_queue_strategy(src, list(ranges), out, workers)
        return bytes(out)
    return dict(controlled_call("queue", world, fn, schedule, policy, seek_yields=False), faults=dict(faults or {}))


def run_exec(file, ranges, workers, faults, schedule=None, policy=None, stack=None):
    world = World(file, faults, stack=stack)

    def fn(p):
        src = p.stream_cls("http://fake/file.copc.laz")
        out = bytearray(sum(n for _, n in ranges))
        p.copc.http_thread_executor_strategy(src, list(ranges), out, workers)
        return bytes(out)
    return dict(controlled_call("exec", world, fn, schedule, policy, seek_yields=True), faults=dict(faults or {}))


STRATEGY_FN = {"queue": "http_queue_strategy", "exec": "http_thread_executor_strategy"}


def run_session(mode, file, calls, workers, faults, schedule=None, policy=None, once=False):
    """several calls of one strategy, one after the other, on the same source object (what successive queries of one reader
    are to the strategies); calls: list of range lists.  outcome = ('session', [outcome of each call])"""
    world = World(file, faults, once=once)

    def fn(p):
        src = p.stream_cls("http://fake/file.copc.laz")
        outs = []
        for ranges in calls:
            def one(ranges=ranges):
                out = bytearray(sum(n for _, n in ranges))
                getattr(p.copc, STRATEGY_FN[mode])(src, list(ranges), out, workers)
                return bytes(out)
            outs.append(p.observed(one))
        return outs
    return controlled_call(mode, world, fn, schedule, policy, seek_yields=(mode == "exec"), session=True)


# ------------------------------------------------------------------------------------------------ schedules without the model
LABELS = ["test", "take", "fetch", "put", "done", "join", "drain", "seek", "collect", "shutdown", "joined", "rget", "qput", "start"]


def make_policy(prio, tid_pref, eps, rng):
    """choose the enabled thread whose pending operation comes first in `prio`; ties by lowest / highest thread id;
    with probability eps a uniformly random enabled thread instead"""
    rank = {l: i for i, l in enumerate(prio)}

    def policy(ctl, enabled):
        if eps and rng.random() < eps:
            return rng.choice(enabled)
        best = min(rank.get(i.label, 99) for i in enabled)
        cands = [i for i in enabled if rank.get(i.label, 99) == best]
        return cands[0] if tid_pref == "low" else cands[-1]
    return policy


def last_item_race(ctl, enabled):
    """two workers both past the emptiness test with one item left: while one range is queued let every worker reach its next
    queue operation and serve the tests before any take; otherwise the lowest worker runs alone"""
    q = ctl.query_queue
    workers = [i for i in enabled if i.tid > 0]
    if q is not None and len(q.items) == 1 and workers:
        tests = [i for i in workers if i.label == "test"]
        if tests:
            return tests[0]
        others = [i for i in workers if i.label not in ("take", "test")]
        if others:
            return others[-1]
        return workers[0]
    if workers:
        return workers[0]
    return enabled[0]


ADVERSARIAL = {
    # name: (label priority, thread preference)
    "main-first (a worker preempted between task_done and put)": (["qput", "start", "join", "drain", "rget", "collect", "shutdown", "joined", "take", "test", "fetch", "seek", "done", "put"], "low"),
    "main preempted between its puts / thread starts until no worker can move": (["take", "test", "fetch", "seek", "put", "done", "collect", "join", "drain", "start", "qput"], "low"),
    "main starts every worker it can before putting the next range": (["start", "take", "test", "fetch", "seek", "put", "done", "qput", "join", "drain", "collect"], "high"),
    "highest worker first (a lower offset answered after a higher one)": (["take", "test", "seek", "fetch", "put", "done", "join", "drain", "collect"], "high"),
    "all seeks before any read (jobs interleaving on a stream)": (["seek", "take", "test", "fetch", "put", "done", "join", "drain", "collect"], "low"),
    "all takes first, requests completed last-in first-out": (["take", "test", "seek", "done", "put", "fetch", "join", "drain", "collect"], "high"),
    "lowest worker runs alone": (["done", "put", "fetch", "seek", "take", "test", "join", "drain", "collect"], "low"),
}


def make_fail_fast(faults, by_start=False):
    """a failed request is answered before every other request in flight: the main thread runs whenever it can (so it sees each
    result the moment it is published), every worker takes a range as soon as it can (the other requests are in flight), the
    request of a failing range completes first and its worker publishes the error before anybody else moves"""
    keys = set(faults)
    hot = set()

    def policy(ctl, enabled):
        for i in enabled:
            if i.tid == 0:
                return i
        for i in enabled:
            if i.label in ("take", "test", "seek"):
                return i
        for i in enabled:
            if i.label == "fetch" and i.extra is not None and (i.extra[0] if by_start else tuple(i.extra)) in keys:
                hot.add(i.tid)
                return i
        for i in enabled:
            if i.tid in hot and i.label in ("put", "begin"):
                return i
        return enabled[0]
    return policy


FAIL_FAST = "failed request answered first, main runs whenever it can"


def free_schedules(rng, k_random, faults=None):
    """[(name, policy)]: the adversarial policies, the last-item race, the fail-fast window, and k random priority policies"""
    out = [(name, make_policy(prio, pref, 0.0, rng)) for name, (prio, pref) in ADVERSARIAL.items()]
    out.append(("two workers past the emptiness test with one item left", last_item_race))
    if faults:
        out.append((FAIL_FAST, make_fail_fast(faults)))
    for k in range(k_random):
        prio = LABELS[:]
        rng.shuffle(prio)
        out.append((f"random priorities #{k}", make_policy(prio, rng.choice(["low", "high"]), rng.choice([0.0, 0.2, 0.5, 1.0]), rng)))
    return out


# ------------------------------------------------------------------------------------------------ inputs
def make_file(rng, size):
    return bytes(rng.randrange(1, 256) for _ in range(size))


def make_ranges(rng, n, size, sorted_=True, empties="none"):
    """n disjoint ranges inside [0, size) with strictly increasing offsets (or shuffled); empties: 'none' | 'first' (the
    range (0, 0) CopcReader builds for nodes without points comes first) | 'some' (any range may be empty) | 'all'"""
    cuts = sorted(rng.sample(range(0, size), 2 * n)) if n else []
    rs = []
    for k in range(n):
        a, b = cuts[2 * k], cuts[2 * k + 1]
        rs.append((a, max(1, min(b - a, 6))))
    if empties == "first" and rs:
        rs[0] = (0, 0)
    elif empties == "some":
        rs = [(o, 0) if rng.random() < 0.4 else (o, m) for o, m in rs]
    elif empties == "all":
        rs = [(o, 0) for o, m in rs]
    if not sorted_:
        rng.shuffle(rs)
    return rs


def pick_empties(rng):
    return rng.choice(["none", "none", "first", "first", "some", "all"])


def fail_sets(rng, ranges, all_subsets):
    n = len(ranges)
    if all_subsets:
        return [tuple(r for k, r in enumerate(ranges) if m >> k & 1) for m in range(1 << n)]
    out = [(), (ranges[0],)]
    if n > 1:
        out += [(ranges[-1],), tuple(ranges)]
        out.append(tuple(r for r in ranges if rng.random() < 0.5) or (ranges[n // 2],))
    return list(dict.fromkeys(out))


def rtok(rs):
    return "|".join(f"{o}:{n}" for o, n in rs) if rs else "-"


def local_read(file, ranges):
    """what CopcReader._fetch_all_chunks yields for a local source: seek + read per range, in order"""
    f = io.BytesIO(file)
    out = bytearray()
    for o, n in ranges:
        f.seek(o)
        out += f.read(n)
    return bytes(out)


# ------------------------------------------------------------------------------------------------ the oracle (implementation only)
def late_work(res):
    """the call has returned / raised and a thread it started still works for it: holds a range, makes a request, publishes a
    result.  None, or (kind suffix, observed).  (A worker of the queue strategy that has marked its last range done may still be
    on its way out when join() lets main go - one non-blocking take that finds the queue empty, then it closes its stream:
    that is leaving, not work; the threads are not joined by the queue strategy, and no theorem says they are)"""
    for k, c in enumerate(res.get("calls", [])):
        if c["late"] or c["late_requests"]:
            how = "raised" if c["how"] != "returned" else "returned"
            nth = f"call #{k + 1} " if len(res["calls"]) > 1 else "the call "
            what = "range request issued" if c["late_requests"] else "worker thread still at work"
            return (f"{what} after the call {how}",
                    f"{nth}{how} while the threads it started were (thread, state, next operation) {c['alive_at_return']}; afterwards they "
                    f"still did {c['late'][:12]} and issued the range requests {c['late_requests'][:8]}")
    return None


def thread_problems(kind0, res):
    """deadlock / hang / leaked or unfinished thread / work after the call: (kind, observed) or None"""
    if res["problem"] is not None:
        what, who = res["problem"]
        labels = sorted({str(b[-1]) for b in who})
        if what == "deadlock":
            return (kind0 + "deadlock, blocked for ever at " + "/".join(labels),
                    f"no thread can move; blocked (thread, operation): {who}; outcome so far {short(res['outcome'])}")
        return kind0 + "hang outside the controlled operations", f"{who}"
    if res["leaked"]:
        return kind0 + "thread still alive after the call", f"{res['leaked']}"
    if not all(res["exited"]):
        return kind0 + "worker thread not finished", f"exited={res['exited']}"
    late = late_work(res)
    if late is not None:
        return kind0 + late[0], late[1]
    return None


def must_fail(ranges, failing, res):
    """the ranges of the call whose request fails: a faulty range that is requested (an empty range makes no request: it cannot
    fail) - when the fault hits every attempt; when it hits the first attempts only, whether the REQUEST fails is up to the retry
    policy of laspy's session: the server's own record (how the request ended below the session) decides"""
    faults = res.get("faults") or {}
    ended_badly = {tuple(r) for r in res.get("failed", [])}
    out = []
    for r in ranges:
        if r in set(failing) and r[1] > 0:
            f = faults.get(tuple(r))
            if f is None or persistent(f) or tuple(r) in ended_badly:
                out.append(r)
    return out


def oracle(mode, file, ranges, failing, res):
    """None when the property holds on this run, else (kind, observed)"""
    kind0 = f"{mode}-strategy: "
    bad = thread_problems(kind0, res)
    if bad is not None:
        return bad
    out = res["outcome"]
    fails_here = must_fail(ranges, failing, res)
    if not fails_here:
        want = local_read(file, ranges)
        if out[0] != "returned":
            return kind0 + "exception although no request failed", short(out)
        if out[1] != want:
            return kind0 + "bytes differ from the local read", f"got {out[1].hex()} want {want.hex()}"
    else:
        if out[0] == "returned":
            return kind0 + "failed request swallowed, data returned", f"failing {fails_here} returned {out[1].hex()}"
        if out[0] != "raised" or out[1] not in fails_here:
            return kind0 + "failed request surfaced as something else", short(out)
    return None


def short(out):
    if out[0] == "returned":
        return ("returned", out[1].hex())
    if out[0] == "session":
        return ("session", [short(o) for o in out[1]])
    return out


def session_oracle(mode, file, calls, faults, res, once=False):
    """several calls on one source: EACH call returns what the local read of ITS ranges yields, or raises the error of a request
    that failed during it; the thread conditions of `oracle` hold for each call"""
    kind0 = f"{mode}-strategy, successive calls on one source: "
    bad = thread_problems(kind0, res)
    if bad is not None:
        return bad
    if res["outcome"][0] != "session" or len(res["outcome"][1]) != len(calls) or len(res["calls"]) != len(calls):
        return kind0 + "the session did not run to its end", str(short(res["outcome"]))
    for k, (ranges, out, c) in enumerate(zip(calls, res["outcome"][1], res["calls"])):
        failed = [tuple(r) for r in c["failed"]]
        nth = f"call #{k + 1} of {len(calls)} with ranges {[list(r) for r in ranges]} (earlier calls: {[[list(r) for r in rs] for rs in calls[:k]]})"
        if not once:
            # persistent faults: every non-empty failing range of this call is requested and fails
            must = [r for r in ranges if tuple(r) in faults and r[1] > 0 and persistent(faults[tuple(r)])]
            if must and out[0] == "returned":
                return kind0 + "failed request swallowed, data returned", f"{nth}: failing {must} returned {out[1].hex()}"
        if not failed:
            want = local_read(file, ranges)
            if out[0] != "returned":
                return kind0 + "exception although no request failed", f"{nth}: {short(out)}"
            if out[1] != want:
                return kind0 + "bytes differ from the local read", f"{nth}: got {out[1].hex()} want {want.hex()}"
        else:
            if out[0] == "returned":
                return kind0 + "failed request swallowed, data returned", f"{nth}: failed {failed} returned {out[1].hex()}"
            if out[0] != "raised" or tuple(out[1]) not in failed:
                return kind0 + "failed request surfaced as something else", f"{nth}: {short(out)}"
    return None


# ------------------------------------------------------------------------------------------------ model side
def ftok(faults):
    """failing ranges with the status the server answers them with"""
    return "|".join(f"{o}:{n}:{atok(f)}" for (o, n), f in faults.items()) if faults else "-"


def atok(fault):
    """the answers of the successive attempts of a request under this fault (the last one is repeated for ever)"""
    if persistent(fault):
        return str(fault[0])
    return "/".join([str(fault[0])] * fault[2] + ["206"])


def model_line(mode, shape, file, ranges, workers, faults, events):
    ev = ",".join(events) if events else "-"
    if mode == "queue":
        return f"qtrace gen {common.hexb(file)} {rtok(ranges)} {workers} {ftok(faults)} {ev}"
    return f"xtrace {shape['per_job']} {shape['collect']} {common.hexb(file)} {rtok(ranges)} {workers} {ftok(faults)} {ev}"


def parse_kv(line):
    parts = line.split()
    return parts[0], dict(p.split("=", 1) for p in parts[1:] if "=" in p)


def canon_impl(mode, res):
    out = res["outcome"]
    if out[0] == "returned":
        o = "returned:" + out[1].hex()
    elif out[0] == "raised":
        o = f"raised:{out[1][0]}:{out[1][1]}"
    else:
        o = out[0]
    dead = res["problem"] is not None
    base = (o, "".join("1" if e else "0" for e in res["exited"]) or "-", "blocked" if dead else "finished")
    if mode == "queue":
        # was nothing left to do for the call at the moment it returned / raised (model: C16_queue_steps_quiet_when_done)
        calls = res.get("calls") or []
        quiet = "-" if not calls else ("F" if (calls[0]["late"] or calls[0]["late_requests"]) else "T")
        return base + ("quiet=" + quiet,)
    return base


def canon_impl_call(mode, out, call):
    """one call of a session, seen like a run of its own"""
    return canon_impl(mode, {"outcome": out, "exited": call["exited"], "problem": None, "calls": [call]})


def pad(hexs, total):
    """out_compressed_bytes is a zero-filled bytearray of the summed sizes: bytes the strategies do not write stay zero"""
    return hexs + "00" * max(0, total - len(hexs) // 2)


def canon_model(mode, line, total=0):
    head, kv = parse_kv(line)
    if head != "ok":
        return ("rejected: " + line,)
    if mode == "queue":
        st = kv["status"]
        if st == "returned":
            o = "returned:" + pad(kv["buf"][1:], total)
        elif st == "running":
            o = "none"
        else:
            o = st
        done = st != "running"
    else:
        o = kv["outcome"]
        if o.startswith("returned:"):
            o = "returned:" + pad(o[len("returned:") + 1:], total)
        done = kv["main"] == "done"
        if not done:
            o = "none"
    ex = kv["exited"]
    allx = ex == "-" or set(ex) == {"1"}
    fin = "finished" if (done and allx and kv["stuck"] == "T") else ("blocked" if kv["stuck"] == "T" else "unfinished")
    if mode == "queue":
        return (o, ex, fin, "quiet=" + kv.get("quiet", "?"))
    return (o, ex, fin)


# ------------------------------------------------------------------------------------------------ cases
RUNNERS = {"queue": run_queue, "exec": run_exec}
_RESULTS = []        # (case dict, impl result) of every run made by correspond(), re-judged by search()


def explore_cmd(mode, shape, file, ranges, workers, faults, limit):
    if mode == "queue":
        return f"qexplore gen {common.hexb(file)} {rtok(ranges)} {workers} {ftok(faults)} {limit}"
    return f"xexplore {shape['per_job']} {shape['collect']} {common.hexb(file)} {rtok(ranges)} {workers} {ftok(faults)} {limit}"


CYCLE = FaultCycle()


def get_shape():
    head, kv = parse_kv(common.run_model(["shape"], name="c16")[0])
    return kv


def small_configs(ctx):
    """(file, ranges, workers, failing sets, sample size or None) for the schedule enumeration"""
    rng = ctx.rng
    file = make_file(rng, 24)
    out = []
    for n, w, allf, sample, emp in [(1, 1, True, None, "none"), (1, 2, True, None, "first"), (2, 1, True, None, "first"),
                                    (2, 2, True, None, "none"), (2, 3, False, None, "some"), (3, 1, False, None, "none"),
                                    (3, 2, False, ctx.n(260, None), "first"), (3, 3, False, ctx.n(400, None), "none")]:
        ranges = make_ranges(rng, n, len(file), True, emp)
        fs = fail_sets(rng, ranges, allf)
        if not allf and not ctx.thorough():
            fs = fs[:2] if n < 3 else [fs[0], (ranges[1],)]
        out.append((file, ranges, w, fs, sample))
    return out


def enumerated_cases(ctx, shape):
    """schedules from the model: every transition of the reachable state graph of the small configurations lies on one"""
    cases = []
    cmds, meta = [], []
    for file, ranges, w, fs, sample in small_configs(ctx):
        for failing in fs:
            faults = CYCLE.assign(failing)
            for mode in ("queue", "exec"):
                cmds.append(explore_cmd(mode, shape, file, ranges, w, faults, 400000))
                meta.append((mode, file, ranges, w, failing, faults, sample))
    outs = common.run_model(cmds, name="c16")
    stats = {}
    for (mode, file, ranges, w, failing, faults, sample), line in zip(meta, outs):
        head, kv = parse_kv(line)
        if head != "ok":
            raise RuntimeError("explore failed: " + line[:200])
        scheds = [[] if t == "-" else [int(x) for x in t.split(",")] for t in kv["scheds"].split(";")] if kv.get("scheds") else [[]]
        total = len(scheds)
        if sample is not None and len(scheds) > sample:
            scheds = ctx.rng.sample(scheds, sample)
        key = f"{mode} {len(ranges)}x{w}"
        st = stats.setdefault(key, {"states": 0, "transitions": 0, "schedules": 0, "replayed": 0})
        st["states"] += int(kv["states"]); st["transitions"] += int(kv["edges"]); st["schedules"] += total; st["replayed"] += len(scheds)
        needs_real = any(not persistent(f) for f in faults.values())
        for k, sc in enumerate(scheds):
            # the schedules of the model graph are about the interleaving of the threads: one in five runs on the real HTTP stack
            # (all of them when the fault is one the session's retry policy decides about), the others on the session double
            cases.append({"mode": mode, "file": file, "ranges": ranges, "workers": w, "failing": failing, "faults": faults,
                          "schedule": sc, "policy": None, "origin": "model graph", "oracle": True,
                          "stack": "real" if (needs_real or k % 5 == 0) else "double"})
    ctx.extra["schedule_enumeration"] = stats
    return cases


def policy_cases(ctx, k_cfg, k_random, with_unsorted=True):
    rng = ctx.rng
    cases = []
    cfgs = []
    for n, w, emp in [(1, 1, "none"), (1, 4, "first"), (2, 1, "none"), (2, 2, "first"), (3, 2, "none"), (3, 1, "some"), (4, 2, "first"),
                      (5, 3, "none"), (6, 4, "some"), (2, 5, "all"), (4, 4, "none"), (6, 2, "none"), (5, 1, "first"), (3, 4, "none")]:
        cfgs.append((n, w, True, emp))
    for _ in range(k_cfg):
        cfgs.append((rng.randrange(1, 7), rng.randrange(1, 6), rng.random() < 0.8 or not with_unsorted, pick_empties(rng)))
    for n, w, sorted_, emp in cfgs:
        file = make_file(rng, 40)
        ranges = make_ranges(rng, n, len(file), sorted_, emp)
        for failing in fail_sets(rng, ranges, False)[: (5 if ctx.thorough() else 3)]:
            faults = CYCLE.assign(failing)
            for mode in ("queue", "exec"):
                for name, pol in free_schedules(rng, k_random, faults):
                    cases.append({"mode": mode, "file": file, "ranges": ranges, "workers": w, "failing": failing, "faults": faults,
                                  "schedule": None, "policy": pol, "origin": name.split(" #")[0], "oracle": sorted_})
    return cases


def run_case(c, schedule=None):
    return RUNNERS[c["mode"]](c["file"], c["ranges"], c["workers"], c["faults"],
                              schedule=schedule if schedule is not None else c["schedule"], policy=c["policy"], stack=c.get("stack"))


# ---- successive calls on one source
def vary_ranges(rng, base, size):
    """another call's ranges, related to `base`: (a) the same starts with other lengths, (b) neighbours merged into one range
    (same start, longer), (c) a subset, (d) the same ranges again, (e) unrelated ranges; always strictly increasing offsets,
    disjoint"""
    kind = rng.choice(["other lengths", "other lengths", "merged", "merged", "subset", "same", "unrelated"])
    if kind == "unrelated" or not base:
        return kind, make_ranges(rng, rng.randrange(1, 5), size, True, "none")
    if kind == "same":
        return kind, list(base)
    if kind == "subset":
        keep = [r for r in base if rng.random() < 0.6] or [rng.choice(base)]
        return kind, keep
    if kind == "merged" and len(base) >= 2:
        out, k = [], 0
        while k < len(base):
            if k + 1 < len(base) and rng.random() < 0.6:
                out.append((base[k][0], base[k + 1][0] + base[k + 1][1] - base[k][0]))
                k += 2
            else:
                out.append(base[k])
                k += 1
        return kind, out
    out = []
    for k, (o, n) in enumerate(base):
        room = (base[k + 1][0] if k + 1 < len(base) else size) - o
        if room <= 0:
            out.append((o, n))
            continue
        choices = [m for m in range(1, room + 1) if m != n] or [n]
        out.append((o, rng.choice(choices) if rng.random() < 0.8 else n))
    return "other lengths", out


def shares_start(calls):
    """two calls of the session have a range with the same start and different lengths"""
    seen = {}
    for k, rs in enumerate(calls):
        for o, n in rs:
            for (k2, n2) in seen.get(o, []):
                if k2 != k and n2 != n:
                    return True
            seen.setdefault(o, []).append((k, n))
    return False


def session_cases(ctx, k_sessions):
    rng = ctx.rng
    cases = []
    for si in range(k_sessions):
        file = make_file(rng, 56)
        base = make_ranges(rng, rng.randrange(1, 5), len(file), True, rng.choice(["none", "none", "first"]))
        calls, kinds = [base], ["base"]
        for _ in range(rng.randrange(1, 4)):
            kd, rs = vary_ranges(rng, [r for r in base if r[1] > 0] or base, len(file))
            calls.append(rs)
            kinds.append(kd)
        order = list(range(len(calls)))
        rng.shuffle(order)
        calls, kinds = [calls[i] for i in order], [kinds[i] for i in order]
        workers = rng.randrange(1, 5)
        fmode = si % 3                                   # 0: no fault, 1: persistent, 2: transient (first matching request only)
        faults = {}
        if fmode:
            cands = [r for rs in calls for r in rs if r[1] > 0]
            if cands:
                faults = CYCLE.assign([rng.choice(cands)])
        for mode in ("queue", "exec"):
            pols = [("main-first (a worker preempted between task_done and put)", None), ("random priorities", None),
                    ("highest worker first (a lower offset answered after a higher one)", None)]
            if faults:
                pols[2] = (FAIL_FAST, make_fail_fast(faults))
            for name, pol in pols:
                if pol is None and name in ADVERSARIAL:
                    pol = make_policy(ADVERSARIAL[name][0], ADVERSARIAL[name][1], 0.0, rng)
                elif pol is None:
                    prio = LABELS[:]
                    rng.shuffle(prio)
                    pol = make_policy(prio, rng.choice(["low", "high"]), rng.choice([0.0, 0.3, 1.0]), rng)
                cases.append({"mode": mode, "file": file, "calls": calls, "kinds": kinds, "workers": workers, "faults": dict(faults),
                              "once": fmode == 2, "policy": pol, "schedule": None, "origin": name})
    return cases


def run_session_case(c):
    return run_session(c["mode"], c["file"], c["calls"], c["workers"], dict(c["faults"]), schedule=c["schedule"],
                       policy=c["policy"], once=c["once"])


def session_input(c, res):
    return {"strategy": c["mode"], "session": True, "file_hex": c["file"].hex(), "calls": [[list(r) for r in rs] for rs in c["calls"]],
            "workers": c["workers"], "failing": [list(r) + list(f) for r, f in c["faults"].items()],
            "failing_legend": "[offset, size, status the server answers with (-1: no answer), error body kind]; transient: only the "
                              "first request of that range fails", "transient": c["once"],
            "schedule": res["decisions"], "origin": c["origin"]}


def session_expected(c):
    return ("each call returns the local read of its own ranges " + str([local_read(c["file"], rs).hex() for rs in c["calls"]]) +
            " or raises the error of a request that failed during it; when a call has returned / raised, the threads it started "
            "do nothing more for it")


def shrink_session(c, res, kind):
    """fewer calls while the same class of failure shows under the same kind of schedule"""
    n = len(c["calls"])
    subs = [[i] for i in range(n)] + [[i, j] for i in range(n) for j in range(i + 1, n)]
    for sub in subs:
        if len(sub) >= n or c["policy"] is None:
            continue
        c2 = dict(c, calls=[c["calls"][i] for i in sub], kinds=[c["kinds"][i] for i in sub])
        r2 = run_session_case(c2)
        b2 = session_oracle(c2["mode"], c2["file"], c2["calls"], c2["faults"], r2, c2["once"])
        if b2 is not None and b2[0] == kind:
            return c2, r2
    return c, res


def sessions(ctx):
    """failing inputs among successive calls of a strategy on one source"""
    found = []
    done = list(_SESSIONS)
    if not done:
        for c in session_cases(ctx, ctx.n(14, 80)):
            res = run_session_case(c)
            register_session(ctx, c, res)
            done.append((c, res))
    for c, res in done:
        bad = session_oracle(c["mode"], c["file"], c["calls"], c["faults"], res, c["once"])
        if bad is not None and not any(f["kind"] == bad[0] for f in found):
            c2, r2 = shrink_session(c, res, bad[0])
            b2 = session_oracle(c2["mode"], c2["file"], c2["calls"], c2["faults"], r2, c2["once"]) or bad
            found.append({"kind": bad[0], "input": session_input(c2, r2), "observed": b2[1], "trace": r2["events"][-120:],
                          "expected": session_expected(c2)})
            if len(found) >= 3:
                break
    return found


def count_calls(ctx, res):
    """what the threads of a call were doing when it returned / raised"""
    for c in res.get("calls", []):
        if c["late"] or c["late_requests"]:
            ctx.count("at return: a thread still at work")
        elif c["winding_down"]:
            ctx.count("at return: worker(s) on their way out (last empty take), no work left")
        else:
            ctx.count("at return: every thread finished")


def case_input(c, res):
    return {"strategy": c["mode"], "file_hex": c["file"].hex(), "ranges": [list(r) for r in c["ranges"]], "workers": c["workers"],
            "failing": [list(r) + list(c["faults"][tuple(r)]) for r in c["failing"]],
            "failing_legend": FAULT_LEGEND,
            "schedule": res["decisions"], "origin": c["origin"], "http_stack": res.get("stack")}


FAULT_LEGEND = ("[offset, size, what the server does with the attempts of the request for that range: a status, or -1 = the connection is "
                "dropped before any response, -2 = it is refused, -4 = the body breaks off; error body kind; optionally k: only the first "
                "k attempts of a request are answered that way, then the server is healthy]")


RULE = ("inputs: a fake file of random non-zero bytes, 1..6 disjoint byte ranges with strictly increasing offsets, some of them EMPTY "
        "(size 0: first / some / all - the byte query of COPC nodes without points; a fifth of the random configurations shuffled: "
        "compared with the model only), 1..5 workers, failing-request sets {none, first, last, all, random} (all subsets for <= 2 "
        "ranges); a failing request is answered with a status cycling through 416, 500, 404, 403, 503, 400, 429, 502, 401, 504, 408, "
        "410, 599 and an error body that is empty / shorter than / as long as / longer than the range, or not answered at all (the "
        "session raises); both strategies. schedules: the controlled points include the MAIN thread's query_queue.put calls and "
        "thread starts; (a) from the model: for the configurations up to 3 ranges x 3 workers the reachable state graph of the "
        "step-by-step system is enumerated at the granularity of the observable operations and a set of schedules covering EVERY "
        "transition of it is replayed on the real threads (quick tier: a random sample for 3x2 and 3x3); (b) model-independent: the "
        "adversarial policies (main first = worker preempted between task_done and put; main preempted between its puts / starts "
        "until no worker can move; main starts every worker before the next put; highest worker first = lower offset answered last; "
        "all seeks before any read; LIFO completions; one worker alone; two workers past the emptiness test with one item left) and "
        "random operation-priority policies; with a failing request also the fail-fast window (the failed request answered before every "
        "other request in flight, main running whenever it can). AFTER THE CALL: at the moment a call returns / raises the "
        "controller notes what the threads it started are doing and keeps driving them: any request / seek / published result / "
        "task_done / job begun after that moment is a failing input (a worker on its way out - one last non-blocking take that finds "
        "the queue empty - is not). SESSIONS: 2..4 successive calls of a strategy on one source whose ranges share starts with other "
        "lengths / are merged neighbours / subsets / repeats / unrelated, no fault, a persistent one or a transient one (first "
        "request only): each call is replayed in the model as a run of its own and must equal the local read of ITS ranges. "
        "TRANSPORT: the double is the connection under laspy's requests_retry_session / requests / urllib3 (all of which run): per attempt "
        "a status + body, connection refused (-2), dropped (-1), body cut (-4); faults on every attempt of a request or on its first k only "
        "(k = 1..5: masked by the session's retries or not); the attempts of every request and its end are compared with the model of the retry "
        "policy extracted from requests_retry_session. HISTORIES (what survives a query - module / class / session level state): each in a fresh "
        "interpreter, 9..90 calls (thorough: up to several hundred) mixing both strategies, direct stream reads, shared / own source, worker "
        "counts 1..6: (a) every range request of the calls fails by refused / dropped connections / retries exhausted on 502 until > 32 (one "
        "history > 256; thorough > 4096) sends of the adapter have raised, (b) mixed failures of every kind incl. plain error statuses, cut "
        "bodies and masked transient ones with healthy calls in between, (c) 40 failing calls of one range each then 40 healthy calls, (d) "
        "requests without a Range header (none is made by the unchanged source) fail while range requests are served, (e) end to end: "
        "CopcReader queries whose data requests all fail, a reader whose header cannot be read, then queries on the old and on new readers; "
        "after the failures: healthy calls (1 and many workers, both strategies, a direct read) - every call must return the local read of ITS "
        "ranges or raise the error of one of ITS failed requests, no call may block, no thread may be left; each call is also replayed in the "
        "model as a run of its own. FREE RUNS (nothing of the standard library replaced: the queue / pool / thread classes the source uses "
        "run as they are, OS threads, one fresh interpreter): a fault (error status with any body, dropped / refused connection) on request "
        "k of n = 1..6 (first / inner / last; two faults; none) with w workers (1, fewer than n, n, 8), both strategies, the fake server holding "
        "answers back so that the error arrives when every fetched block is already queued / before any block / as they come; each call "
        "under a time limit (not returning or raising within it = 'did not terminate'), judged by the oracle alone (the error of a failed "
        "request or the local read; no thread left, none died of an exception). end to end: CopcReader.query over the fake http source vs the local bytes on generated "
        "COPC files (chunks laid out deepest level first / in level order / randomly, with gaps; nodes without points: none / root / "
        "inner / some / all; BIG files first: chunks of 10^4 .. 10^5 records of 31 bytes, so that the chunks a level / the whole file "
        "selects are ONE byte range over 1 MiB, over 2 MiB, over 4 MiB (thorough: over 8 MiB) whose size S leaves a remainder when "
        "divided by ceil(S / 2 MiB) (and mostly by ceil(S / 1 MiB), ceil(S / 4 MiB)), or chunks of exactly 512 KiB - ranges of exactly "
        "2 MiB / 4 MiB -, or one chunk over 2 MiB, or level 1 being one range of EXACTLY 2^k - 1, 2^k, 2^k + 1, 2^k + 2 bytes for 1, 2, "
        "4 MiB (2 MiB + 1 in every run); box queries on them make one big and several smaller ranges; built again from "
        "their parameters at replay (file_gen)), queries: whole file, levels, boxes, and for empty nodes the query selecting exactly that node; workers "
        "1, 2, 3, 8; both strategies; one failing data request of each kind; deadlock / hang detection by the controller; sessions of 2..4 queries on ONE reader (levels growing / shrinking, deepest level "
        "first then more levels, boxes growing / shrinking, the same query twice, unrelated queries; persistent / transient fault on a "
        "data request), every query compared with a fresh local reader, and - model reader_session gen_fetch_site - the compressed "
        "bytes every query hands to the LAZ backend compared with the local read of that query's byte ranges. non-trivial "
        "= at least two threads besides main took steps, or a request failed; distinct by (strategy, ranges, workers, failing set, "
        "executed schedule)")


def register(ctx, c, res):
    tids = set(res["decisions"])
    nontrivial = len(tids - {0}) >= 2 or bool(c["failing"])
    canon = (c["mode"], tuple(c["ranges"]), c["workers"], tuple(c["failing"]), tuple(res["decisions"]))
    ctx.case(canon, nontrivial=nontrivial,
             sample={"strategy": c["mode"], "ranges": c["ranges"], "workers": c["workers"], "failing": list(c["failing"]),
                     "trace": res["events"], "outcome": short(res["outcome"])})
    ctx.count("strategy:" + c["mode"])
    ctx.count(f"ranges:{len(c['ranges'])}")
    ctx.count(f"workers:{c['workers']}")
    ctx.count("failing:" + ("none" if not c["failing"] else ("all" if len(c["failing"]) == len(c["ranges"]) else "some")))
    for f in c["faults"].values():
        st, body = f[0], f[1]
        ctx.count("fault:" + ({-1: "no answer (dropped)", -2: "no answer (refused)", -4: "body cut"}.get(st, str(st))) +
                  ("" if persistent(f) else f", first {f[2]} attempt(s) only"))
        ctx.count("error body:" + body)
    ctx.count("http stack:" + res.get("stack", "?"))
    ctx.count(f"empty ranges:{sum(1 for r in c['ranges'] if r[1] == 0)}")
    ctx.count("schedule:" + c["origin"])
    ctx.count("outcome:" + res["outcome"][0] + ("" if res["problem"] is None else "+" + res["problem"][0]))
    count_calls(ctx, res)


_SESSIONS = []       # (case, impl result) of every session run by correspond(), re-judged by search()


def session_correspondence(ctx, shape):
    """successive calls on one source: the operations of each call (main's between the previous return and this one, those of the
    threads it started wherever they fall) are replayed in the model as a run of their own - nothing of an earlier call shows"""
    del _SESSIONS[:]
    dis, lines, meta = [], [], []
    for c in session_cases(ctx, ctx.n(14, 80)):
        res = run_session_case(c)
        _SESSIONS.append((c, res))
        register_session(ctx, c, res)
        if res["problem"] is not None or res["outcome"][0] != "session" or len(res["calls"]) != len(c["calls"]):
            continue                                        # judged by the oracle
        for k, (ranges, out, call) in enumerate(zip(c["calls"], res["outcome"][1], res["calls"])):
            if c["once"]:
                faults = {tuple(r): c["faults"][tuple(r)] for r in call["failed"] if tuple(r) in c["faults"]}
            else:
                faults = c["faults"]
            lines.append(model_line(c["mode"], shape, c["file"], ranges, c["workers"], faults, call["events"]))
            meta.append((c, res, k, out, call))
    outs = common.run_model(lines, name="c16")
    for (c, res, k, out, call), line in zip(meta, outs):
        ctx.traces += 1
        m = canon_model(c["mode"], line, sum(n for _, n in c["calls"][k]))
        i = canon_impl_call(c["mode"], out, call)
        if m != i and len(dis) < 5:
            dis.append({"kind": f"{c['mode']}-strategy, successive calls on one source: " +
                                ("trace of a call not accepted by the model" if m[0].startswith("rejected") else "outcome of a call differs from the model"),
                        "input": dict(session_input(c, res), call=k + 1), "model": m, "impl": i, "trace": call["events"]})
    return dis


def register_session(ctx, c, res):
    canon = ("session", c["mode"], tuple(tuple(rs) for rs in c["calls"]), c["workers"], tuple(c["faults"]), c["once"],
             tuple(res["decisions"]))
    ctx.case(canon, nontrivial=len(c["calls"]) >= 2)
    ctx.count("session:" + c["mode"])
    ctx.count(f"session:calls:{len(c['calls'])}")
    ctx.count("session:faults:" + ("none" if not c["faults"] else ("transient" if c["once"] else "persistent")))
    ctx.count("session:schedule:" + c["origin"])
    for kd in c["kinds"]:
        ctx.count("session:call ranges:" + kd)
    if shares_start(c["calls"]):
        ctx.count("session:two calls share a range start with different lengths")
    count_calls(ctx, res)


def retry_correspondence(ctx, results, shape):
    """every request made on the real HTTP stack, seen below laspy's session: the answers its attempts got and how it ended, against
    the model of the session's retry policy (send_cfg gen_retry): same number of attempts, same end"""
    pats = {}
    for inp, res in results:
        for a in res.get("attempts") or []:
            pats.setdefault((tuple(a[1]), str(a[2])), (a[0], inp))
        for a in res.get("attempt_patterns") or []:
            pats.setdefault((tuple(a[0]), str(a[1])), (a[2], inp))
    keys = [k for k in pats if k[0]]
    outs = common.run_model(["retry " + "/".join(str(x) for x in k[0]) for k in keys], name="c16") if keys else []
    dis = []
    for k, line in zip(keys, outs):
        ctx.traces += 1
        head, kv = parse_kv(line)
        answers, how = k
        ctx.count(f"transport: request of {len(answers)} attempt(s) ending in " + ("an exception of the adapter" if how == "raised" else
                                                                                  ("a broken body" if how == "cut" else "a response")))
        want = {"exhausted": "raised", "cut": "cut"}.get(kv.get("result"), kv.get("result"))
        if head != "ok" or int(kv["attempts"]) != len(answers) or want != how:
            rng, inp = pats[k]
            if len(dis) < 3:
                dis.append({"kind": "transport: the attempts of a range request differ from the model of requests_retry_session",
                            "input": dict(inp() if callable(inp) else inp, request=list(rng), answers_of_the_attempts=list(answers)),
                            "model": line, "impl": f"attempts={len(answers)} end={how}",
                            "note": f"model retry policy: total={shape.get('retry_total')} connect={shape.get('retry_connect')} "
                                    f"read={shape.get('retry_read')} statuses={shape.get('retry_statuses')}"})
    return dis


def history_correspondence(ctx, shape):
    """the calls of the histories, each replayed in the model as a run of its own (nothing of the calls before it shows)"""
    del _HISTORIES[:]
    _HISTORIES.extend(run_histories(ctx))
    dis, lines, meta = [], [], []
    for name, h, r, e2e in _HISTORIES:
        res = r.get("res")
        if e2e or not res or r.get("bad") or res.get("problem") or not res.get("outcome") or res["outcome"][0] != "session":
            continue                                        # judged by the oracle
        for k, (st, out, call) in enumerate(zip(h["steps"], res["outcome"][1], res["calls"])):
            if st["api"] == "read" or st.get("nonrange"):
                continue
            mode = st["api"]
            faults = {tuple(f[:2]): tuple(f[2:]) for f in st.get("faults") or []}
            out = tuple(out) if out[0] != "raised" else ("raised", tuple(out[1]))
            lines.append(model_line(mode, shape, h["file"], [tuple(x) for x in st["ranges"]], st["workers"], faults, call["events"]))
            meta.append((name, h, res, k, mode, out, call))
    # what the transport keeps between sends: the model of the source (gen_transport_kept) against the history as it ran - no send
    # blocked; and, for the record, where the same sends would have blocked a pool of N slots that leaks one per raising send
    hl, hm = [], []
    for name, h, r, e2e in _HISTORIES:
        sends = (r.get("res") or {}).get("sends")
        if sends:
            hl += [f"history gen {sends}", f"history slots:32:F {sends}", f"history slots:256:F {sends}"]
            hm.append((name, h, r, e2e))
    houts = common.run_model(hl, name="c16") if hl else []
    for k, (name, h, r, e2e) in enumerate(hm):
        ctx.traces += 1
        kv = [parse_kv(x)[1] for x in houts[3 * k: 3 * k + 3]]
        blocked = bool(r.get("bad")) and "blocks for ever" in r["bad"][0]
        for e in ctx.extra.get("histories", []):
            if e["name"] == name:
                e["a_pool_of_32_slots_leaking_on_raise_would_block_at_send"] = kv[1].get("blocks")
                e["a_pool_of_256_slots_leaking_on_raise_would_block_at_send"] = kv[2].get("blocks")
        if (kv[0].get("blocks") != "never") != blocked and len(dis) < 3:
            dis.append({"kind": "history of calls in one process: a send blocks although the transport keeps nothing between sends (model)",
                        "input": history_input(name, h, r.get("res"), e2e), "model": houts[3 * k], "impl": str(r.get("bad"))[:300]})
    outs = common.run_model(lines, name="c16") if lines else []
    for (name, h, res, k, mode, out, call), line in zip(meta, outs):
        ctx.traces += 1
        m = canon_model(mode, line, sum(n for _, n in h["steps"][k]["ranges"]))
        i = canon_impl_call(mode, out, call)
        if m != i and len(dis) < 3:
            dis.append({"kind": "history of calls in one process: " + ("trace of a call not accepted by the model" if m[0].startswith("rejected")
                                                                      else "outcome of a call differs from the model"),
                        "input": dict(history_input(name, {"file": h["file"], "steps": h["steps"][:k + 1]}, res), call=k + 1),
                        "model": m, "impl": i, "trace": call["events"]})
    return dis


def correspond(ctx):
    ctx.extra["rule"] = RULE
    del _RESULTS[:]
    shape = get_shape()
    ctx.extra["source_shape"] = shape
    dis = history_correspondence(ctx, shape)
    cases = enumerated_cases(ctx, shape) + policy_cases(ctx, ctx.n(6, 40), ctx.n(3, 12))
    lines = []
    try:
        for c in cases:
            res = run_case(c)
            _RESULTS.append((c, res))
            register(ctx, c, res)
            lines.append(model_line(c["mode"], shape, c["file"], c["ranges"], c["workers"], c["faults"], res["events"]))
        dis += session_correspondence(ctx, shape)
        dis += reader_correspondence(ctx)
    except TooManyHangs:
        ctx.notes.append(f"correspondence cut short after {len(_RESULTS)} runs: threads of {HANGS} runs are blocked for ever outside the controlled operations")
    outs = common.run_model(lines, name="c16")
    seen = set()
    for (c, res), line in zip(_RESULTS, outs):
        ctx.traces += 1
        m = canon_model(c["mode"], line, sum(n for _, n in c["ranges"]))
        i = canon_impl(c["mode"], res)
        if m != i:
            kind = f"{c['mode']}-strategy: " + ("trace not accepted by the model" if m[0].startswith("rejected") else "outcome differs from the model")
            if kind in seen and len(dis) >= 20:
                continue
            seen.add(kind)
            dis.append({"kind": kind, "input": case_input(c, res), "model": m, "impl": i, "trace": res["events"]})
    everything = [((lambda c=c, res=res: case_input(c, res)), res) for c, res in _RESULTS]
    everything += [(session_input(c, res), res) for c, res in _SESSIONS]
    everything += [(history_input(n, h, r.get("res")), r.get("res") or {}) for n, h, r, e2e in _HISTORIES if not e2e]
    dis += retry_correspondence(ctx, everything, shape)
    return dis


def confirm_alone(ctx, failing):
    """an input found in this long-lived process is run again ALONE in a fresh interpreter; when it does not show there, what was
    seen depends on the runs made before it in this process (state the code under test keeps between calls) and is reported so"""
    out = []
    for f in failing:
        try:
            r = in_fresh_process({"kind": "replay", "input": f["input"], "wait": CHILD_WAIT}, timeout=90)
        except Exception as ex:  # noqa
            r = {"crash": repr(ex)}
        if r.get("crash") or (r.get("bad") and r["bad"][0] == f["kind"]):
            out.append(f)
        else:
            ctx.count("failing input not reproduced alone in a fresh process")
            out.append(dict(f, kind="only after the earlier runs of this process (state kept between calls): " + f["kind"],
                            observed=str(f["observed"]) + " [NOT reproduced when this input is run alone in a fresh interpreter: "
                                     f"{(r.get('bad') or ['the property holds there'])[0]}; {RUNS} runs had been made in the process that showed it]"))
    return sorted(out, key=lambda f: f["kind"].startswith("only after"))


def search(ctx, seeds):
    ctx.extra.setdefault("rule", RULE)
    # what survives a query: the histories (each in a fresh interpreter) come first - their inputs are self-contained
    if not _HISTORIES:
        _HISTORIES.extend(run_histories(ctx))
    first = history_failures(ctx, _HISTORIES)
    # the free runs (nothing of the standard library replaced) go on in an interpreter of their own meanwhile
    free_box = {}
    free_cs = free_cases(ctx)
    free_t = threading.Thread(target=lambda: free_box.update(found=free_runs(ctx, free_cs)), name="c16-free-runs", daemon=True)
    free_t.start()
    failing = []
    seen = set()
    try:
        results = list(_RESULTS)
        if not results and HANGS < HANG_LIMIT:
            # the correspondence did not run (no model): model-independent schedules only
            for c in policy_cases(ctx, ctx.n(10, 40), ctx.n(6, 12), with_unsorted=False):
                res = run_case(c)
                register(ctx, c, res)
                results.append((c, res))
        for c, res in results:
            if not c["oracle"]:
                continue
            bad = oracle(c["mode"], c["file"], c["ranges"], c["failing"], res)
            if bad is None:
                continue
            kind, observed = bad
            if kind in seen:
                continue
            seen.add(kind)
            try:
                c2, res2 = shrink(c, res, kind)
            except TooManyHangs:
                c2, res2 = c, res
            failing.append({"kind": kind, "input": case_input(c2, res2), "observed": oracle(c2["mode"], c2["file"], c2["ranges"], c2["failing"], res2)[1],
                            "trace": res2["events"], "expected": expected_text(c2)})
            if len(failing) >= 5:
                break
        if len(failing) < 5:
            failing += sessions(ctx)
        if not failing and not first:
            failing += e2e(ctx)
        if not failing and not first:
            failing += e2e_sessions(ctx)
        if not failing and not first:
            probe_short_success_body(ctx)
    except TooManyHangs:
        ctx.notes.append(f"search in this process cut short: threads of {HANGS} runs are blocked for ever outside the controlled operations")
    if failing:
        failing = confirm_alone(ctx, failing[:5])
    # the inputs of one call that show alone come first (they are the smallest), then the histories, then what only showed
    # after the earlier runs of this process
    alone = [f for f in failing if not f["kind"].startswith("only after")]
    free_t.join(ctx.n(120, 700))
    free = free_box.get("found")
    if free is None:
        ctx.notes.append("the free runs did not come back")
        free = []
    return alone[:3] + free + first + alone[3:] + [f for f in failing if f["kind"].startswith("only after")]


def probe_short_success_body(ctx):
    """NOT part of the oracle (assumption 2 puts it outside the fault model): what the strategies do with a 206 answer whose body
    is shorter than the range; recorded in the evidence only"""
    file = bytes(range(1, 41))
    ranges = [(2, 3), (10, 4), (20, 2)]
    seen = {}
    for mode, run in RUNNERS.items():
        try:
            res = run(file, ranges, 2, {(10, 4): (206, "short")}, policy=make_policy(LABELS, "low", 0.0, ctx.rng))
            out = res["outcome"]
            seen[mode] = ("raises " + str(out[1]) if out[0] != "returned" else
                          ("returns the local read" if out[1] == local_read(file, ranges) else
                           f"returns {out[1].hex()} instead of {local_read(file, ranges).hex()}: the short block is copied as is and "
                           "the following blocks are shifted, no exception"))
        except Exception as ex:  # noqa
            seen[mode] = "probe failed: " + repr(ex)[:80]
    ctx.extra["outside_the_fault_model:206_answer_with_a_short_body"] = seen


def expected_text(c):
    fails_here = [r for r in c["ranges"] if r in set(c["failing"]) and r[1] > 0 and persistent(c["faults"].get(tuple(r), (0, 0)))]
    if fails_here:
        return f"the call raises the error of one of the failed requests {fails_here}; every thread it started has finished"
    return f"the call returns {local_read(c['file'], c['ranges']).hex()} (the local read); every thread it started has finished"


def shrink(c, res, kind):
    """fewer ranges / workers while the same class of failure shows under the same kind of schedule"""
    best = (c, res)
    for n in range(1, len(c["ranges"])):
        for w in range(1, c["workers"] + 1):
            rs = c["ranges"][:n]
            fl = tuple(r for r in c["failing"] if r in rs)
            if c["failing"] and not fl:
                fl = (rs[0],)
            c2 = dict(c, ranges=rs, workers=w, failing=fl,
                      faults={r: c["faults"].get(r, next(iter(c["faults"].values()), (500, "empty"))) for r in fl})
            if c["policy"] is None:
                continue
            r2 = run_case(c2)
            b2 = oracle(c2["mode"], c2["file"], c2["ranges"], c2["failing"], r2)
            if b2 is not None and b2[0] == kind:
                return c2, r2
    return best


def replay_run(inp):
    """runs a failing input again (its recorded schedule): (bad or None, result)"""
    if inp.get("free"):
        return free_replay(inp)
    if inp.get("history") == "e2e":
        res = run_e2e_history(bytes.fromhex(inp["file_hex"]), inp["steps"], schedule=list(inp.get("schedule") or []))
        return e2e_history_oracle(inp["steps"], res), res
    if inp.get("history"):
        h = {"file": bytes.fromhex(inp["file_hex"]), "steps": inp["steps"]}
        res = run_history(h["file"], h["steps"], schedule=list(inp.get("schedule") or []))
        return history_oracle(h, res), res
    if inp.get("strategy") == "e2e":
        return e2e_replay_run(inp)
    if inp.get("session"):
        c = {"mode": inp["strategy"], "file": bytes.fromhex(inp["file_hex"]), "calls": [[tuple(r) for r in rs] for rs in inp["calls"]],
             "workers": inp["workers"], "faults": {tuple(r[:2]): tuple(r[2:]) for r in inp["failing"]}, "once": bool(inp.get("transient")),
             "schedule": list(inp["schedule"]), "policy": None}
        res = run_session_case(c)
        return session_oracle(c["mode"], c["file"], c["calls"], c["faults"], res, c["once"]), res
    c = {"mode": inp["strategy"], "file": bytes.fromhex(inp["file_hex"]), "ranges": [tuple(r) for r in inp["ranges"]],
         "workers": inp["workers"], "failing": tuple(tuple(r[:2]) for r in inp["failing"]),
         "faults": {tuple(r[:2]): (tuple(r[2:]) if len(r) >= 4 else (500, "empty")) for r in inp["failing"]},
         "schedule": list(inp["schedule"]), "policy": None, "stack": inp.get("http_stack")}
    res = run_case(c)
    return oracle(c["mode"], c["file"], c["ranges"], c["failing"], res), res


def replay(ctx, data):
    inp = data.get("failing_input", {}).get("input")
    if not inp:
        print("nothing to replay")
        return 0
    bad, res = replay_run(inp)
    print("trace:", " ".join(res["events"][-120:]))
    if bad is None:
        print("not reproduced: outcome", str(short(res["outcome"]))[:400])
        return 0
    print("REPRODUCED:", bad[0], "--", bad[1])
    sys.stdout.flush()
    if res.get("leaked"):
        os._exit(1)                       # threads blocked for ever inside the code under test
    return 1


# ------------------------------------------------------------------------------------------------ end to end (fake LAZ backend)
class DropEmptyEntries:
    """LAZ backend proxy: a chunk-table entry (0 points, 0 bytes) - an empty COPC node - decodes to nothing"""

    LOG = None          # a list: the compressed bytes every query hands to the backend (= what _fetch_all_chunks returned)

    def __init__(self, real):
        self._real = real

    def __getattr__(self, name):
        return getattr(self._real, name)

    def decompress_points_with_chunk_table(self, compressed, record_data, out, chunk_table, selection=None):
        if DropEmptyEntries.LOG is not None:
            DropEmptyEntries.LOG.append(bytes(compressed))
        kept = [(int(p), int(b)) for p, b in chunk_table if not (int(p) == 0 and int(b) == 0)]
        return self._real.decompress_points_with_chunk_table(compressed, record_data, out, kept, selection)


def e2e_backend():
    from harness import fake_lazrs
    fake_lazrs.install()
    import laspy.copc as copc
    if not isinstance(copc.lazrs, DropEmptyEntries):
        copc.lazrs = DropEmptyEntries(copc.lazrs)
    return copc


LAYOUTS = ["deepest level first", "level order", "random", "deepest level first, gaps", "random"]
EMPTIES = ["none", "root", "some", "inner", "all", "some"]


# BIG files: SIZE thresholds of the fetching code (a limit on the bytes of one range request, block-wise reads, a split of a
# big range over several workers ...) only show when a run of chunks that are contiguous in the file - ONE byte range of the
# query - is big.  Points per node of a level (lo, hi); `extra`: extra bytes per record (31-byte records: chunk and run sizes of
# both parities).  The counts are drawn until the byte size S of every run a level selection makes (a whole level, levels 1-2, the
# whole file) leaves a remainder when divided by ceil(S / T), first of all for T = 2 MiB, then for T = 1 and 4 MiB (an equal
# split of S into the fewest parts of at most T bytes is not exact); lo = hi: chunks of exactly that many points (16912 records
# of 31 bytes + 16 = 512 KiB: runs of exactly 2^k bytes, the limit itself)
MIB = 1 << 20
BIG_PROFILES = {
    "runs over 2 MiB and over 4 MiB": {"extra": 1, "counts": {0: (2200, 2600), 1: (9200, 10400), 2: (14500, 16000)}},
    "chunks of exactly 512 KiB (runs of exactly 2 MiB / 4 MiB)": {"extra": 1, "counts": {0: (1, 5), 1: (16912, 16912), 2: (700, 1500)}},
    "runs over 1 MiB and over 2 MiB": {"extra": 1, "counts": {0: (2120, 2400), 1: (4400, 5200), 2: (7000, 8000)}},
    "one chunk over 2 MiB": {"extra": 1, "counts": {0: (68000, 72000), 1: (20, 60), 2: (2, 9)}},
    "runs over 4 MiB and over 8 MiB": {"extra": 1, "counts": {0: (3000, 3400), 1: (17500, 19000), 2: (29000, 33000)}},
}
BIG_QUICK = ["runs over 2 MiB and over 4 MiB", "chunks of exactly 512 KiB (runs of exactly 2 MiB / 4 MiB)", "runs over 1 MiB and over 2 MiB"]


# ... and runs of EXACTLY a given number of bytes: the limits themselves and their neighbours (2^k - 1, 2^k, 2^k + 1, 2^k + 2 for
# 1, 2, 4 MiB): the chunks of level 1 (k of the 8 children hold points, the others are empty nodes) are one run of T bytes:
# 16 k + item size * (number of points) = T is solved for k in 1..8 and an item size of 30..38 bytes (0..8 extra bytes)
BIG_TARGET = "level 1 is one run of exactly %d bytes"
BIG_TARGETS = [L + d for L in (2 * MIB, MIB, 4 * MIB) for d in (1, -1, 0, 2)]


def big_profile(big):
    if big in BIG_PROFILES:
        return BIG_PROFILES[big]
    T = int(big.split("exactly ")[1].split(" ")[0])
    for isz in (31, 30, 32, 33, 34, 35, 36, 37, 38):
        for k in (8, 7, 6, 5, 4, 3, 2, 1):
            if (T - 16 * k) % isz == 0 and (T - 16 * k) // isz >= k:
                return {"extra": isz - 30, "counts": {0: (10, 60), 1: (0, 0), 2: (10, 60)}, "target": (T, k, (T - 16 * k) // isz)}
    raise ValueError(f"no layout of level 1 has exactly {T} bytes")


def big_counts(rng, keys, empty, prof, isz):
    """points per node for a BIG profile (see above)"""
    if "target" in prof:
        T, k, total = prof["target"]
        children = [i for i, key in enumerate(keys) if key[0] == 1]
        full = sorted(rng.sample(children, k))
        cuts = sorted(rng.sample(range(1, total), k - 1)) if k > 1 else []
        parts = [b - a for a, b in zip([0] + cuts, cuts + [total])]
        cs = [rng.randint(*prof["counts"][key[0]]) for key in keys]
        for i in children:
            cs[i] = parts[full.index(i)] if i in full else 0
        assert sum(16 + isz * cs[i] for i in full) == T
        return cs
    def sizes(cs):
        by = {}
        for k, c in zip(keys, cs):
            if c:
                by[k[0]] = by.get(k[0], 0) + 16 + isz * c       # a chunk of fake_lazrs: 16 bytes + the records
        lv = sorted(by)
        return [by[a] for a in lv] + [sum(by[a] for a in lv if a >= 1), sum(by.values())]

    def awkward(S, T):
        return S <= T or S % -(-S // T) != 0
    best = None
    for _ in range(1500):
        cs = [0 if k in empty else rng.randint(*prof["counts"][k[0]]) for k in keys]
        ss = sizes(cs)
        # (the runs cannot all be awkward for every T: the size of levels 1-2 is the sum of two of them; T = 2 MiB comes first)
        score = sum((10 if T == 2 * MIB else 1) for S in ss for T in (MIB, 2 * MIB, 4 * MIB) if S > T and awkward(S, T))
        if best is None or score > best[0]:
            best = (score, cs)
        if all(awkward(S, T) for S in ss for T in (MIB, 2 * MIB, 4 * MIB)):
            break
    return best[1]


def build_copc(rng, layout="random", empties="none", big=None):
    """a small COPC file: root + 8 children + grandchildren below two of them, one hierarchy page (EVLR).  layout: the order
    the chunks are laid out in the file (any order is legal); empties: which nodes have no points (hierarchy entry with
    point_count 0, offset 0, byte_size 0); big: the name of a BIG profile (chunks of 10^4 .. 10^5 points: runs of several MiB)"""
    from harness import fake_lazrs
    fake_lazrs.install()
    import laspy
    import numpy as np
    h = laspy.LasHeader(version="1.4", point_format=6)
    prof = big_profile(big) if big else None
    for j in range(prof["extra"] if prof else 0):
        h.add_extra_dim(laspy.ExtraBytesParams(f"e{j}", "uint8"))
    h.scales = np.array([0.01, 0.01, 0.01])
    h.offsets = np.array([0.0, 0.0, 0.0])
    isz = h.point_format.size
    keys = [(0, 0, 0, 0)] + [(1, d & 1, (d >> 1) & 1, (d >> 2) & 1) for d in range(8)]
    for d in rng.sample(range(8), 3):
        keys.append((2, d & 1, (d >> 1) & 1, (d >> 2) & 1))         # inside child (1,0,0,0)
    for d in rng.sample(range(8), 2):
        keys.append((2, 2 + (d & 1), 2 + ((d >> 1) & 1), 2 + ((d >> 2) & 1)))   # inside child (1,1,1,1)
    if empties == "none":
        empty = set()
    elif empties == "root":
        empty = {keys[0]}
    elif empties == "inner":
        empty = {(1, 0, 0, 0), (1, 1, 1, 1)}
    elif empties == "all":
        empty = set(keys)
    else:
        empty = {k for k in keys if rng.random() < (0.5 if k[0] == 0 else 0.35)}
        if not empty:
            empty = {rng.choice(keys)}
        if len(empty) == len(keys):
            empty.discard(rng.choice(keys[1:]))
    nodes = []
    counts = big_counts(rng, keys, empty, prof, isz) if prof else None
    for idx, (lv, x, y, z) in enumerate(keys):
        side = 10000 >> lv                                           # in integer coordinates (root cube = [0, 10000)^3)
        if prof:
            n = counts[idx]
            g = np.random.default_rng(rng.getrandbits(32))
            rec = laspy.ScaleAwarePointRecord.zeros(n, header=h)
            for dim, c in (("X", x), ("Y", y), ("Z", z)):
                rec[dim] = c * side + g.integers(0, side, n)
            rec["intensity"] = np.arange(n) % 65521
            rec["gps_time"] = idx * 1e6 + np.arange(n)              # every record of the file is different
            rec["user_data"] = g.integers(1, 256, n)
            for j in range(prof["extra"]):
                rec[f"e{j}"] = g.integers(1, 256, n)
        else:
            n = 0 if (lv, x, y, z) in empty else rng.randrange(1, 6)
            rec = laspy.ScaleAwarePointRecord.zeros(n, header=h)
            rec["X"] = [x * side + rng.randrange(side) for _ in range(n)]
            rec["Y"] = [y * side + rng.randrange(side) for _ in range(n)]
            rec["Z"] = [z * side + rng.randrange(side) for _ in range(n)]
            rec["intensity"] = [idx * 100 + j for j in range(n)]
        nodes.append({"key": (lv, x, y, z), "n": n, "offset": 0,
                      "chunk": fake_lazrs.encode_chunk(bytes(rec.memoryview()), isz) if n else b""})
    lazvlr = fake_lazrs.LazVlr.new_for_compression(6, isz - 30, use_variable_size_chunks=True)
    h.vlrs.append(laspy.VLR("copc", 1, "COPC info", b"\0" * 160))
    h.vlrs.append(laspy.VLR("laszip encoded", 22204, "fake laszip", bytes(lazvlr.record_data())))
    for v in [v for v in h.vlrs if type(v).__name__ == "ExtraBytesVlr"]:      # the COPC info record must stay the first one
        h.vlrs.remove(v)
        h.vlrs.append(v)
    h.are_points_compressed = True
    tmp = io.BytesIO()
    h.write_to(tmp)
    pos = h.offset_to_point_data
    body = bytearray(struct.pack("<q", -1))
    pos += 8
    order = [k for k in range(len(nodes)) if nodes[k]["n"]]
    rng.shuffle(order)
    if layout.startswith("deepest"):
        order.sort(key=lambda k: -nodes[k]["key"][0])
    elif layout.startswith("level"):
        order.sort(key=lambda k: nodes[k]["key"][0])
    gap_p = 0.3 if (layout == "random" or "gaps" in layout) else 0.0
    for k in order:
        if rng.random() < gap_p:                                     # unused bytes between chunks
            gap = rng.randrange(1, 9)
            body += bytes(rng.randrange(256) for _ in range(gap))
            pos += gap
        nodes[k]["offset"] = pos
        body += nodes[k]["chunk"]
        pos += len(nodes[k]["chunk"])
    page = b"".join(struct.pack("<iiiiQii", *nd["key"], nd["offset"], len(nd["chunk"]), nd["n"]) for nd in nodes)
    evlr_start = pos
    evlr = b"\0\0" + b"copc".ljust(16, b"\0") + struct.pack("<HQ", 1000, len(page)) + b"hierarchy".ljust(32, b"\0") + page
    info = struct.pack("<dddddQQdd", 50.0, 50.0, 50.0, 50.0, 1.0, evlr_start + 60, len(page), 0.0, 0.0) + b"\0" * 88
    h.vlrs[0].record_data = info
    h.start_of_first_evlr = evlr_start
    h.number_of_evlrs = 1
    h.point_count = sum(nd["n"] for nd in nodes)
    h.mins = np.array([0.0, 0.0, 0.0])
    h.maxs = np.array([100.0, 100.0, 100.0])
    out = io.BytesIO()
    h.write_to(out)
    assert len(out.getvalue()) == h.offset_to_point_data
    return out.getvalue() + bytes(body) + evlr, nodes


def e2e_queries(rng, nodes, big=False):
    """the whole file, level selections, boxes; and for (up to 3 of) the empty nodes the query that selects exactly that node"""
    qs = [{"level": None, "bounds": None}, {"level": 1, "bounds": None}, {"level": [1, 3], "bounds": None}, {"level": 0, "bounds": None}]
    if big:
        qs.append({"level": [0, 2], "bounds": None})
    for _ in range(2):
        lo = [rng.choice([0.0, 50.0]) for _ in range(3)]
        qs.append({"level": rng.choice([None, [0, 2], 2]), "bounds": [lo, [lo[0] + 50.0, lo[1] + 50.0, rng.choice([lo[2] + 50.0, 100.0])]]})
    empty = [nd for nd in nodes if nd["n"] == 0]
    rng.shuffle(empty)
    for nd in empty[:3]:
        lv, x, y, z = nd["key"]
        side = 100.0 / (1 << lv)
        lo = [x * side + side / 4, y * side + side / 4, z * side + side / 4]
        qs.append({"level": lv, "bounds": [lo, [v + side / 2 for v in lo]], "selects": "only the empty node %d-%d-%d-%d" % nd["key"]})
    return qs


def e2e_query(copc, reader, q):
    import numpy as np
    lv = q["level"]
    if isinstance(lv, list):
        lv = range(lv[0], lv[1])
    b = None
    if q["bounds"] is not None:
        b = copc.Bounds(mins=np.array(q["bounds"][0]), maxs=np.array(q["bounds"][1]))
    return reader.query(bounds=b, level=lv).array.tobytes()


def e2e_local(raw, q):
    copc = e2e_backend()
    try:
        return ("returned", e2e_query(copc, copc.CopcReader(io.BytesIO(raw)), q))
    except Exception as ex:  # noqa
        return ("error", common.exc_kind(ex))


def e2e_run(raw, q, strategy, workers, faults, schedule=None, policy=None):
    """faults: {start offset of a request: (status, body kind)}"""
    e2e_backend()
    keep = DropEmptyEntries.LOG
    try:
        DropEmptyEntries.LOG = got_local = []
        local = e2e_local(raw, q)
        world = World(raw, {int(k): tuple(v) for k, v in dict(faults).items()}, by_start=True)

        def fn(p):
            src = p.stream_cls("http://fake/e2e.copc.laz")
            rd = p.copc.CopcReader(src, http_num_threads=workers, _http_strategy=strategy)
            return e2e_query(p.copc, rd, q)
        mode = "queue" if strategy == "queue" else "exec"
        DropEmptyEntries.LOG = got_http = []
        res = controlled_call(mode, world, fn, schedule, policy, seek_yields=(mode == "exec"))
    finally:
        DropEmptyEntries.LOG = keep
    res["backend"] = (got_local[-1] if got_local else None, got_http[-1] if got_http else None)
    return local, res, res["failed"]


def backend_note(res):
    """how the compressed bytes the http query handed to the LAZ backend differ from those of the local query"""
    a, b = res.get("backend") or (None, None)
    if a is None or b is None or a == b:
        return ""
    k = next((i for i in range(min(len(a), len(b))) if a[i] != b[i]), min(len(a), len(b)))
    zeros = len(b) - len(b.rstrip(b"\0"))
    reqs = [list(r) for r in res.get("requests", []) if r[1] > 4096][:12]
    return (f"; the compressed bytes handed to the LAZ backend ({len(b)} bytes) differ from those of the local query ({len(a)} bytes) "
            f"from byte {k} on" + (f", the last {zeros} bytes are zero (never written)" if zeros else "")
            + f"; range requests over 4 KiB [start, bytes]: {reqs}, {sum(r[1] for r in reqs)} bytes in all")


def e2e_oracle(local, res, failed):
    if res["problem"] is not None:
        return "e2e: query over http blocks (" + res["problem"][0] + ")", str(res["problem"][1]) + f"; the local query: {short(local)[0]}"
    if res["leaked"] or not all(res["exited"]):
        return "e2e: thread still alive after the query", f"{res['leaked']} exited={res['exited']}"
    late = late_work(res)
    if late is not None:
        return "e2e: " + late[0].replace("the call", "the query"), late[1]
    out = res["outcome"]
    if not failed:
        if local[0] == "error":
            if out[0] != "error" or not out[1].startswith(local[1]):
                return "e2e: query over http differs from the local query (which raises)", f"{short(out)} vs local {local}"
            return None
        if out[0] != "returned":
            return ("e2e: query over http raises although no request failed",
                    str(short(out)) + f"; the local query returns {len(local[1])} bytes of records" + backend_note(res))
        if out[1] != local[1]:
            a, b = out[1], local[1]
            return ("e2e: query over http returns other points than the local file",
                    f"{len(a)} bytes vs {len(b)} bytes, first difference at {next((k for k in range(min(len(a), len(b))) if a[k] != b[k]), min(len(a), len(b)))}"
                    + backend_note(res))
    else:
        if out[0] == "returned":
            return "e2e: failed request swallowed by the query", f"failed {failed}, returned {len(out[1])} bytes of records"
        if out[0] != "raised" or out[1] not in failed:
            return "e2e: failed request surfaced as something else", str(short(out))
    return None


BIG_LAYOUTS = ["level order", "deepest level first", "level order", "random"]


def copc_from_gen(gen):
    """the file of a `file_gen` input: built again from its parameters (a BIG file is not written out in hex)"""
    return build_copc(random.Random(gen["seed"]), gen["layout"], gen["empties"], big=gen.get("big"))


def file_input(raw, gen=None):
    if gen is None:
        return {"file_hex": raw.hex()}
    import hashlib
    return {"file_gen": dict(gen, sha1=hashlib.sha1(raw).hexdigest(), bytes=len(raw)),
            "file_gen_legend": "harness.props.c16.copc_from_gen(file_gen) builds the file (harness/fake_lazrs as the LAZ codec): "
                               "root + 8 children + 5 grandchildren, chunks laid out as `layout`, points per node drawn from "
                               "BIG_PROFILES[big]"}


def file_of_input(inp):
    if "file_gen" in inp:
        import hashlib
        raw, _nodes = copc_from_gen(inp["file_gen"])
        if inp["file_gen"].get("sha1") not in (None, hashlib.sha1(raw).hexdigest()):
            raise RuntimeError("the file built from file_gen is not the one the input was found with (generator changed)")
        return raw
    return bytes.fromhex(inp["file_hex"])


E2E_POLICIES = ["main preempted between its puts / thread starts until no worker can move",
                "main-first (a worker preempted between task_done and put)", None, None, None]


def e2e(ctx):
    """CopcReader.query over the fake HTTP source vs the same query on the local bytes (fake_lazrs as the LAZ backend):
    chunk layouts (deepest level first / level order / random), nodes without points (also queries selecting only those),
    worker counts 1.., both strategies, a failing data request of every kind"""
    try:
        from harness import fake_lazrs  # noqa
    except Exception:
        ctx.notes.append("end-to-end query comparison skipped: harness/fake_lazrs is not available")
        return []
    rng = ctx.rng
    found = []
    runs = 0
    t0 = time.time()
    nfiles = ctx.n(15, 60)
    # BIG files (runs of contiguous chunks of several MiB: one byte range of the query over 1 / 2 / 4 MiB whose size is not a
    # multiple of the number of parts an equal split would cut it into, or exactly 2^k bytes) come first, then the small ones
    bigs = BIG_QUICK if not ctx.thorough() else list(BIG_PROFILES) * 2
    plan = [(BIG_LAYOUTS[k % len(BIG_LAYOUTS)], ("none", "some")[k % 5 == 3], name) for k, name in enumerate(bigs)]
    targets = [BIG_TARGETS[0]] + rng.sample(BIG_TARGETS[1:], 2) if not ctx.thorough() else BIG_TARGETS
    plan += [(("level order", "deepest level first")[k % 2], "none", BIG_TARGET % T) for k, T in enumerate(targets)]
    plan += [(LAYOUTS[fi % len(LAYOUTS)], EMPTIES[fi % len(EMPTIES)], None) for fi in range(nfiles)]
    for fi, (layout, empties, big) in enumerate(plan):
        gen = None
        if big:
            gen = {"seed": rng.getrandbits(32), "layout": layout, "empties": empties, "big": big}
            raw, nodes = copc_from_gen(gen)
        else:
            raw, nodes = build_copc(rng, layout, empties)
        offs = {nd["offset"] for nd in nodes if nd["n"]}
        for qi, q in enumerate(e2e_queries(rng, nodes, big=bool(big))):
            for si, strategy in enumerate(("queue", "executor")):
                starts = []
                for with_failure in (False, True):
                    if with_failure and (not starts or (qi + si + fi) % 2):
                        continue
                    faults = {rng.choice(starts): CYCLE.next()} if with_failure else {}
                    workers = rng.choice([1, 1, 2, 3, 8])
                    if big and not with_failure:
                        workers = (1, 3, 2, 8)[(qi + si) % 4]       # every worker count over the big files
                    pname = E2E_POLICIES[(runs + fi) % len(E2E_POLICIES)]
                    if pname is None:
                        prio = LABELS[:]
                        rng.shuffle(prio)
                        pol = make_policy(prio, rng.choice(["low", "high"]), rng.choice([0.0, 0.5, 1.0]), rng)
                    else:
                        pol = make_policy(ADVERSARIAL[pname][0], ADVERSARIAL[pname][1], 0.0, rng)
                    if with_failure and runs % 2:
                        pol = make_fail_fast(faults, by_start=True)
                    local, res, failed = e2e_run(raw, q, strategy, workers, faults, policy=pol)
                    starts = sorted({r[0] for r in res["requests"] if r[0] in offs})
                    runs += 1
                    count_calls(ctx, res)
                    ctx.case(("e2e", hash(raw), str(q), strategy, workers, tuple(faults.items()), tuple(res["decisions"])),
                             nontrivial=len(set(res["decisions"])) >= 3)
                    ctx.count("e2e:" + strategy + (":failing" if failed else ""))
                    ctx.count(f"e2e:ranges:{len(starts)}")
                    ctx.count("e2e:layout:" + layout)
                    ctx.count("e2e:empty nodes:" + empties)
                    if big:
                        ctx.count("e2e:big file:" + (big if big in BIG_PROFILES else "level 1 is one run of exactly 2^k - 1 .. 2^k + 2 bytes"))
                    top = max([r[1] for r in res["requests"] if r[0] in offs] or [0])
                    ctx.count("e2e:biggest range request of the query:" + ("<= 64 KiB" if top <= 65536 else "<= 1 MiB" if top <= MIB else
                                                                           "<= 2 MiB" if top <= 2 * MIB else "<= 4 MiB" if top <= 4 * MIB else "> 4 MiB"))
                    if "selects" in q:
                        ctx.count("e2e:query selecting only an empty node")
                    bad = e2e_oracle(local, res, failed)
                    if bad is not None and not any(f["kind"] == bad[0] for f in found):
                        found.append({"kind": bad[0], "observed": bad[1],
                                      "input": {"strategy": "e2e", "http_strategy": strategy, **file_input(raw, gen), "query": q,
                                                "layout": layout, "empty_nodes": empties, "workers": workers,
                                                "faults": {str(k): list(v) for k, v in faults.items()},
                                                "faults_legend": "{start offset of the request: [status (-1: no answer), error body kind]}",
                                                "schedule": res["decisions"]},
                                      "trace": res["events"][-80:],
                                      "expected": ("the same point records as CopcReader.query on the local bytes" if not failed
                                                   else f"the error of a failed request {failed}")})
    ctx.extra["end_to_end_queries"] = runs
    ctx.extra["end_to_end_seconds"] = round(time.time() - t0, 1)
    return found


# ---- successive queries on ONE reader
_LOCAL = {}


def e2e_local_cached(raw, q):
    key = (hash(raw), len(raw), str(q))
    if key not in _LOCAL:
        if len(_LOCAL) > 400:
            _LOCAL.clear()
        _LOCAL[key] = e2e_local(raw, q)
    return _LOCAL[key]


def e2e_session_run(raw, queries, strategy, workers, faults, once=False, schedule=None, policy=None):
    """one CopcReader over the fake http source answers the queries one after the other; the reference for each query is a
    FRESH reader on the local bytes.  faults: {start offset of a request: (status, body kind)}; once: only the first such
    request fails"""
    e2e_backend()
    locals_ = [e2e_local_cached(raw, q) for q in queries]
    world = World(raw, {int(k): tuple(v) for k, v in dict(faults).items()}, by_start=True, once=once)

    def fn(p):
        src = p.stream_cls("http://fake/e2e.copc.laz")
        rd = p.copc.CopcReader(src, http_num_threads=workers, _http_strategy=strategy)
        outs = []
        for q in queries:
            if DropEmptyEntries.LOG is not None:
                DropEmptyEntries.LOG.append(None)          # a new query begins
            outs.append(p.observed(lambda q=q: e2e_query(p.copc, rd, q)))
        return outs
    mode = "queue" if strategy == "queue" else "exec"
    res = controlled_call(mode, world, fn, schedule, policy, seek_yields=(mode == "exec"), session=True)
    return locals_, res


class LogBytesIO(io.BytesIO):
    """a local source that notes the byte ranges _fetch_all_chunks reads (seek ; readinto)"""

    def __init__(self, raw):
        super().__init__(raw)
        self.log = []

    def readinto(self, b):
        self.log.append((self.tell(), len(b)))
        return super().readinto(b)


def reader_correspondence(ctx):
    """the reader-level model (reader_session gen_fetch_site: what the reader keeps between queries) against CopcReader: for
    sessions of queries on one reader over the fake http source, the compressed bytes each query hands to the LAZ backend must be
    what the model yields for the byte ranges of that query (taken from a fresh local reader), i.e. the local read of those ranges"""
    try:
        from harness import fake_lazrs  # noqa
    except Exception:
        return []
    copc = e2e_backend()
    rng = ctx.rng
    dis, lines, meta = [], [], []
    for fi in range(ctx.n(5, 24)):
        layout = LAYOUTS_S[fi % len(LAYOUTS_S)]
        raw, nodes = build_copc(rng, layout, EMPTIES_S[fi % len(EMPTIES_S)])
        copc = e2e_backend()                       # (build_copc re-installs the bare stand-in)
        for si, (name, queries) in enumerate(e2e_session_queries(rng, nodes)):
            ranges, local_bytes = [], []
            try:
                for q in queries:
                    src = LogBytesIO(raw)
                    rd = copc.CopcReader(src)
                    del src.log[:]
                    DropEmptyEntries.LOG = got = []
                    e2e_query(copc, rd, q)
                    ranges.append(list(src.log))
                    local_bytes.append(got[-1] if got else b"")
            except Exception:  # noqa   (a query the local file cannot answer: judged by the oracle, nothing to compare here)
                continue
            finally:
                DropEmptyEntries.LOG = None
            strategy = ("queue", "executor")[(fi + si) % 2]
            prio = LABELS[:]
            rng.shuffle(prio)
            DropEmptyEntries.LOG = got = []
            try:
                _l, res = e2e_session_run(raw, queries, strategy, rng.choice([1, 2, 3]), {},
                                          policy=make_policy(prio, rng.choice(["low", "high"]), rng.choice([0.0, 0.5]), rng))
            finally:
                DropEmptyEntries.LOG = None
            impl, cur = [], None
            for x in got:
                if x is None:
                    cur = []
                    impl.append(cur)
                elif cur is not None:
                    cur.append(x)
            impl = [(c[-1] if c else b"") for c in impl]
            lines.append("session gen " + common.hexb(raw) + " " + ";".join(rtok(rs) for rs in ranges))
            meta.append((raw, queries, name, layout, strategy, ranges, local_bytes, impl, res))
            ctx.count("reader session vs model:" + strategy)
    outs = common.run_model(lines, name="c16") if lines else []
    for (raw, queries, name, layout, strategy, ranges, local_bytes, impl, res), line in zip(meta, outs):
        ctx.traces += 1
        head, kv = parse_kv(line)
        model = kv.get("outs", "").split(";") if head == "ok" else ["rejected: " + line[:100]]
        got = ["returned:x" + b.hex() for b in impl]
        want_local = ["returned:x" + b.hex() for b in local_bytes]
        if (model != got or model != want_local) and len(dis) < 3:
            k = next((i for i in range(min(len(model), len(got))) if model[i] != got[i]), min(len(model), len(got)))
            dis.append({"kind": "successive queries on one reader: compressed bytes of a query differ from the reader model",
                        "input": {"strategy": "e2e", "http_strategy": strategy, "file_hex": raw.hex(), "queries": queries, "session": name,
                                  "layout": layout, "byte_ranges_per_query": [[list(r) for r in rs] for rs in ranges],
                                  "workers": None, "faults": {}, "schedule": res["decisions"]},
                        "model": [m[:80] for m in model], "impl": [g[:80] for g in got], "first_differing_query": k + 1,
                        "local_equals_model": model == want_local, "local": [w[:80] + f"..({len(w)})" for w in want_local]})
    return dis


def e2e_session_oracle(queries, locals_, res):
    kind0 = "e2e, successive queries on one reader: "
    if res["problem"] is not None:
        return kind0 + "query over http blocks (" + res["problem"][0] + ")", str(res["problem"][1])
    if res["leaked"] or not all(res["exited"]):
        return kind0 + "thread still alive after the queries", f"{res['leaked']} exited={res['exited']}"
    late = late_work(res)
    if late is not None:
        return kind0 + late[0].replace("the call", "the query"), late[1]
    if res["outcome"][0] != "session" or len(res["outcome"][1]) != len(queries) or len(res["calls"]) != len(queries):
        return kind0 + "the session did not run to its end", str(short(res["outcome"]))[:300]
    for k, (q, local, out, c) in enumerate(zip(queries, locals_, res["outcome"][1], res["calls"])):
        failed = [tuple(r) for r in c["failed"]]
        nth = f"query #{k + 1} of {len(queries)} {q} (after {queries[:k]})"
        if not failed:
            if local[0] == "error":
                if out[0] != "error" or not out[1].startswith(local[1]):
                    return kind0 + "query over http differs from the local query (which raises)", f"{nth}: {short(out)} vs local {local}"
                continue
            if out[0] != "returned":
                return (kind0 + "query over http raises although no request failed",
                        f"{nth}: {short(out)}; the local query returns {len(local[1])} bytes of records")
            if out[1] != local[1]:
                a, b = out[1], local[1]
                return (kind0 + "query over http returns other points than the local file",
                        f"{nth}: {len(a)} bytes vs {len(b)} bytes, first difference at "
                        f"{next((i for i in range(min(len(a), len(b))) if a[i] != b[i]), min(len(a), len(b)))}; its range requests "
                        f"{c['requests']}")
        else:
            if out[0] == "returned":
                return kind0 + "failed request swallowed by the query", f"{nth}: failed {failed}, returned {len(out[1])} bytes of records"
            if out[0] != "raised" or tuple(out[1]) not in failed:
                return kind0 + "failed request surfaced as something else", f"{nth}: {short(out)}"
    return None


def e2e_session_queries(rng, nodes):
    """[(name, [queries])]: the selections grow / shrink from one query to the next (the byte ranges of contiguous chunks are
    merged per query, so the same chunk starts ranges of different lengths), repeat, or are unrelated"""
    def lv(level):
        return {"level": level, "bounds": None}
    whole = lv(None)
    lo = [rng.choice([0.0, 50.0]) for _ in range(3)]
    octant = [lo, [v + 50.0 for v in lo]]
    slab = [[lo[0], 0.0, 0.0], [lo[0] + 50.0, 100.0, 100.0]]
    cube = [[0.0, 0.0, 0.0], [100.0, 100.0, 100.0]]
    blevel = rng.choice([None, None, [0, 2], [1, 3]])

    def bx(b):
        return {"level": blevel, "bounds": b}
    pool = [whole, lv(0), lv(1), lv(2), lv([0, 2]), lv([1, 3]), bx(octant), bx(slab), bx(cube)]
    q = rng.choice(pool)
    out = [("levels growing", [lv(0), lv([0, 2]), whole]),
           ("levels shrinking", [whole, lv([0, 2]), lv(0)]),
           ("deepest level first, then more levels", [lv(2), lv([1, 3]), whole, lv(1)]),
           ("box growing", [bx(octant), bx(slab), bx(cube)]),
           ("box shrinking", [bx(cube), bx(slab), bx(octant)]),
           ("same query twice", [q, q]),
           ("unrelated", [rng.choice(pool) for _ in range(3)])]
    return out


def e2e_sessions(ctx):
    """sequences of queries on ONE CopcReader over the fake HTTP source: each must equal the same query on the local bytes"""
    try:
        from harness import fake_lazrs  # noqa
    except Exception:
        return []
    rng = ctx.rng
    found = []
    runs = 0
    t0 = time.time()
    bigs = BIG_QUICK[:1] if not ctx.thorough() else list(BIG_PROFILES)
    plan = [(BIG_LAYOUTS[k % len(BIG_LAYOUTS)], "none", name) for k, name in enumerate(bigs)]
    plan += [(LAYOUTS_S[fi % len(LAYOUTS_S)], EMPTIES_S[fi % len(EMPTIES_S)], None) for fi in range(ctx.n(14, 50))]
    for fi, (layout, empties, big) in enumerate(plan):
        gen = None
        if big:     # successive queries whose ONE big byte range starts at the same chunk with other lengths (over / under a limit)
            gen = {"seed": rng.getrandbits(32), "layout": layout, "empties": empties, "big": big}
            raw, nodes = copc_from_gen(gen)
            ctx.count("e2e session:big file:" + big)
        else:
            raw, nodes = build_copc(rng, layout, empties)
        offs = {nd["offset"] for nd in nodes if nd["n"]}
        for si, (name, queries) in enumerate(e2e_session_queries(rng, nodes)):
            for strategy in (("queue", "executor") if ctx.thorough() else (("queue", "executor")[(fi + si) % 2],)):
                starts = []
                for fmode in (0, 1 + (fi + si) % 2):
                    if fmode and (not starts or (si + fi) % 3 == 0):
                        continue
                    faults = {rng.choice(starts): CYCLE.next()} if fmode else {}
                    workers = rng.choice([1, 1, 2, 3, 8])
                    if fmode and runs % 2:
                        pol = make_fail_fast(faults, by_start=True)
                    else:
                        prio = LABELS[:]
                        rng.shuffle(prio)
                        pol = make_policy(prio, rng.choice(["low", "high"]), rng.choice([0.0, 0.5, 1.0]), rng)
                    locals_, res = e2e_session_run(raw, queries, strategy, workers, faults, once=(fmode == 2), policy=pol)
                    per_call = [[tuple(r) for r in c["requests"] if r[0] in offs] for c in res["calls"]]
                    starts = sorted({r[0] for rs in per_call for r in rs})
                    runs += 1
                    ctx.case(("e2e-session", hash(raw), str(queries), strategy, workers, tuple(faults.items()), fmode,
                              tuple(res["decisions"])), nontrivial=len(queries) >= 2)
                    ctx.count("e2e session:" + strategy + ("" if not fmode else (":persistent fault" if fmode == 1 else ":transient fault")))
                    ctx.count("e2e session:" + name)
                    ctx.count("e2e session:layout:" + layout)
                    if shares_start(per_call):
                        ctx.count("e2e session:two queries share a range start with different lengths")
                    count_calls(ctx, res)
                    bad = e2e_session_oracle(queries, locals_, res)
                    if bad is not None and not any(f["kind"] == bad[0] for f in found):
                        found.append({"kind": bad[0], "observed": bad[1],
                                      "input": {"strategy": "e2e", "http_strategy": strategy, **file_input(raw, gen), "queries": queries,
                                                "session": name, "layout": layout, "empty_nodes": empties, "workers": workers,
                                                "faults": {str(k): list(v) for k, v in faults.items()}, "transient": fmode == 2,
                                                "faults_legend": "{start offset of the request: [status (-1: no answer), error body kind]}; "
                                                                 "transient: only the first such request fails",
                                                "schedule": res["decisions"]},
                                      "trace": res["events"][-80:],
                                      "expected": "each query returns the same point records as the same query on a fresh reader of the "
                                                  "local bytes, or raises the error of a request that failed during it; after a query has "
                                                  "returned / raised the threads it started do nothing more for it"})
    ctx.extra["end_to_end_sessions"] = runs
    ctx.extra["end_to_end_sessions_seconds"] = round(time.time() - t0, 1)
    return found


LAYOUTS_S = ["level order", "deepest level first", "random", "level order", "deepest level first, gaps"]
EMPTIES_S = ["none", "none", "some", "inner", "none", "root"]


def e2e_replay_run(inp):
    raw = file_of_input(inp)
    if "queries" in inp:
        locals_, res = e2e_session_run(raw, inp["queries"], inp["http_strategy"], inp["workers"], inp.get("faults") or {},
                                       once=bool(inp.get("transient")), schedule=list(inp["schedule"]))
        return e2e_session_oracle(inp["queries"], locals_, res), res
    faults = inp.get("faults")
    if faults is None:
        faults = {s: (500, "empty") for s in inp.get("fail_starts", [])}
    local, res, failed = e2e_run(raw, inp["query"], inp["http_strategy"], inp["workers"], faults, schedule=list(inp["schedule"]))
    return e2e_oracle(local, res, failed), res


# ------------------------------------------------------------------------------------------------ histories: what survives a query
# A HISTORY is a long sequence of calls made in ONE process - either strategy, direct reads through a stream, queries of
# CopcReader; one source object kept or a new one per call; any worker counts - many of which fail at the transport level (below
# laspy's session: connections refused / dropped, retries exhausted on 500 / 502 / 504, bodies cut, error statuses), each of which
# must be reported correctly, followed by calls against a healthy server, which must return the local read and leave no thread
# behind.  Whatever laspy keeps between calls - module level, class level, session level - is what such a history exercises.
# Every history runs in a fresh interpreter (module-level state of the code under test starts from scratch, a thread blocked for
# ever cannot keep the check from finishing), on the real HTTP stack, under the controller.
URL = "http://fake/file.copc.laz"
CHILD_WAIT = 5.0
_HISTORIES = []      # (history, result) of every history run by correspond(), re-judged by search()


def fault_list(faults):
    return [list(k if isinstance(k, tuple) else (k,)) + list(v) for k, v in faults.items()]


def run_history(file, steps, schedule=None, policy=None):
    """steps: [{"api": "queue" | "exec" | "read", "ranges": [[o, n], ..], "workers": w, "faults": [[o, n, status, body(, k)], ..],
    "source": "shared" | "own", "nonrange": [status, body] | None}]; outcome = ('session', [outcome of each call])"""
    world = World(file, {}, stack="real")
    first = steps[0]["api"] if steps else "queue"

    def fn(p):
        ctl = p.ctl
        shared = p.stream_cls(URL)
        outs = []
        for st in steps:
            mode = "exec" if st["api"] == "exec" else "queue"
            with ctl.cv:
                ctl.mode, ctl.seek_yields = mode, mode == "exec"
            with world.lock:
                world.faults = {tuple(f[:2]): tuple(f[2:]) for f in st.get("faults") or []}
                world.nonrange = tuple(st["nonrange"]) if st.get("nonrange") else None
            ranges = [tuple(r) for r in st["ranges"]]

            def one(st=st, ranges=ranges):
                src = shared if st.get("source", "shared") == "shared" else p.stream_cls(URL)
                if st["api"] == "read":                # what CopcReader does for the header and the hierarchy pages
                    out = bytearray()
                    for o, n in ranges:
                        src.seek(o)
                        out += src.read(n)
                    return bytes(out)
                out = bytearray(sum(n for _, n in ranges))
                getattr(p.copc, STRATEGY_FN[st["api"]])(src, list(ranges), out, st["workers"])
                return bytes(out)
            outs.append(p.observed(one))
        return outs
    return controlled_call("exec" if first == "exec" else "queue", world, fn, schedule, policy, seek_yields=(first == "exec"), session=True)


def describe_step(st):
    fl = st.get("faults") or []
    if st.get("nonrange"):
        return (f"{st['api']} {len(st['ranges'])} range(s) x {st.get('workers', 1)} worker(s), {st.get('source', 'shared')} source, range requests "
                f"served, every other request answered with {st['nonrange'][0]}")
    what = "healthy server" if not fl else f"{len(fl)} of {len(st['ranges'])} ranges faulty {sorted({str(f[2]) + ('x' + str(f[4]) if len(f) > 4 else '') for f in fl})}"
    return f"{st['api']} {len(st['ranges'])} range(s) x {st.get('workers', 1)} worker(s), {st.get('source', 'shared')} source, {what}"


def history_oracle(h, res):
    """every call of the history: the local read of ITS ranges, or the error of a request that failed during it; when it is over
    nothing it started is left; no call blocks"""
    steps = h["steps"]
    kind0 = "history of calls in one process: "
    done = len(res["calls"])
    failed_before = sum(len(c["failed"]) for c in res["calls"])
    raised_before = sum(1 for a in res.get("attempts", []) if a[2] == "raised")
    failed_before = max(failed_before, len(res.get("failed") or []))
    if res["problem"] is not None and done < len(steps):
        what, who = res["problem"]
        st = steps[done]
        return (kind0 + ("a later call blocks for ever" if what == "hang" else "deadlock") + (" on a healthy server" if not st.get("faults") and not st.get("nonrange") else ""),
                f"call #{done + 1} of {len(steps)} ({describe_step(st)}) never returned: {what}, threads (id, state, next operation) {who}; "
                f"the {done} calls before it were each reported correctly; up to this moment {failed_before} range requests of the history "
                f"had failed below the session, {raised_before} of them by an exception raised by the adapter's send")
    bad = thread_problems(kind0, res)
    if bad is not None:
        return bad
    if res["outcome"][0] != "session" or len(res["outcome"][1]) != len(steps) or done != len(steps):
        return kind0 + "the history did not run to its end", str(short(res["outcome"]))[:300]
    for k, (st, out, c) in enumerate(zip(steps, res["outcome"][1], res["calls"])):
        ranges = [tuple(r) for r in st["ranges"]]
        failed = [tuple(r) for r in c["failed"]]
        nth = f"call #{k + 1} of {len(steps)} ({describe_step(st)}), after {sum(len(x['failed']) for x in res['calls'][:k])} failed requests in earlier calls"
        must = [tuple(f[:2]) for f in st.get("faults") or [] if len(f) < 5 and f[1] > 0 and tuple(f[:2]) in ranges]
        if st["api"] == "read" and must:
            must = must[:1] if must[0] == [r for r in ranges if r in must][0] else must      # a sequential read stops at its first failure
        if must and out[0] == "returned":
            return kind0 + "failed request swallowed, data returned", f"{nth}: failing {must[:6]} returned {out[1].hex()[:80]}"
        if failed and all(f == NONRANGE for f in failed) and out[0] == "returned":
            failed = []          # a request that is not a range request failed and the call went on without it: the data decide
        if not failed:
            want = local_read(h["file"], ranges)
            if out[0] != "returned":
                return kind0 + "exception although no request failed", f"{nth}: {short(out)}"
            if out[1] != want:
                return kind0 + "bytes differ from the local read", f"{nth}: got {out[1].hex()[:120]} want {want.hex()[:120]}"
        else:
            if out[0] == "returned":
                return kind0 + "failed request swallowed, data returned", f"{nth}: failed {failed[:6]} returned {out[1].hex()[:80]}"
            if out[0] != "raised" or tuple(out[1]) not in failed:
                return kind0 + "failed request surfaced as something else", f"{nth}: {short(out)}"
    return None


# ---- end to end histories: CopcReader over the http source
def run_e2e_history(raw, steps, schedule=None, policy=None):
    """steps: [{"reader": id, "strategy": "queue" | "executor", "workers": w, "q": query, "faults": [[start, status, body(, k)], ..]}]:
    a step opens reader `id` (a new HttpRangeStream + CopcReader) unless an earlier step opened it successfully, then queries it"""
    e2e_backend()
    world = World(raw, {}, by_start=True, stack="real")
    first = steps[0]["strategy"] if steps else "queue"

    def fn(p):
        ctl = p.ctl
        readers = {}
        outs = []
        for st in steps:
            mode = "queue" if st["strategy"] == "queue" else "exec"
            with ctl.cv:
                ctl.mode, ctl.seek_yields = mode, mode == "exec"
            with world.lock:
                world.faults = {int(f[0]): tuple(f[1:]) for f in st.get("faults") or []}

            def one(st=st):
                rd = readers.get(st["reader"])
                if rd is None:
                    rd = p.copc.CopcReader(p.stream_cls(URL), http_num_threads=st["workers"], _http_strategy=st["strategy"])
                    readers[st["reader"]] = rd
                return e2e_query(p.copc, rd, st["q"])
            outs.append(p.observed(one))
        return outs
    mode0 = "queue" if first == "queue" else "exec"
    res = controlled_call(mode0, world, fn, schedule, policy, seek_yields=(mode0 == "exec"), session=True)
    res["locals"] = [e2e_local_cached(raw, st["q"]) for st in steps]
    return res


def e2e_history_oracle(steps, res):
    done = len(res["calls"])
    if res["problem"] is not None and done < len(steps):
        what, who = res["problem"]
        st = steps[done]
        return ("history of queries in one process (e2e): a later query blocks for ever" + (" on a healthy server" if not st.get("faults") else ""),
                f"query #{done + 1} of {len(steps)} ({st['strategy']}, {st['workers']} worker(s), reader {st['reader']}, {st['q']}, "
                f"faulty request starts {[f[0] for f in st.get('faults') or []]}) never returned: {what}, threads {who}; "
                f"{sum(len(c['failed']) for c in res['calls'])} range requests had failed in the {done} queries before it, each reported correctly")
    bad = e2e_session_oracle([st["q"] for st in steps], res["locals"], res)
    if bad is None:
        return None
    return bad[0].replace("e2e, successive queries on one reader: ", "history of queries in one process (e2e): "), bad[1]


# ---- generation
def _raising(rng, k):
    return RAISING[k % len(RAISING)]


def history_cases(ctx):
    """[(name, history)] - strategy level; target = the number of requests that must have failed by an exception of the adapter's
    send before the healthy calls (quick: > 32 in every history of failures, one of > 256; thorough: > 512, one of > 4096)"""
    rng = ctx.rng
    size = 96
    out = []

    def healthy_tail(file, again=None):
        rs = make_ranges(rng, 5, size, True, "none")
        # the very ranges that failed last, now that the server is healthy (something remembered per failed range?)
        pre = [] if not again else [{"api": again["api"], "ranges": again["ranges"], "workers": again.get("workers", 1), "faults": [],
                                     "source": again.get("source", "shared")}]
        return pre + [{"api": "queue", "ranges": rs[:1], "workers": 1, "faults": [], "source": "own"},
                {"api": "exec", "ranges": rs[:2], "workers": 1, "faults": [], "source": "shared"},
                {"api": "read", "ranges": rs[:2], "workers": 1, "faults": [], "source": "own"},
                {"api": "queue", "ranges": rs, "workers": 5, "faults": [], "source": "shared"},
                {"api": "exec", "ranges": rs, "workers": 3, "faults": [], "source": "own"}]

    def failing_block(target, faults_of, nranges, workers, source, apis=("queue", "exec")):
        steps, n = [], 0
        while n < target:
            rs = make_ranges(rng, nranges, size, True, "none")
            fl = faults_of(rs, len(steps))
            steps.append({"api": apis[len(steps) % len(apis)], "ranges": rs, "workers": workers if isinstance(workers, int) else rng.choice(workers),
                          "faults": fl, "source": source if source != "mixed" else rng.choice(["shared", "own"])})
            n += sum(1 for f in fl if len(f) < 5 and tuple(f[2:4]) in RAISING or (len(f) < 5 and f[2] in (-1, -2, 500, 502, 504)))
            if len(steps) > 4000:
                break
        return steps

    t_small, t_big = ctx.n(40, 520), ctx.n(264, 4200)
    for name, fault in [("connections dropped", (-1, "none")), ("connections refused", (-2, "none")),
                        ("retries exhausted on 502", (502, "empty"))]:
        file = make_file(rng, size)
        target = t_big if name.startswith("retries") else t_small
        steps = failing_block(target, lambda rs, k, fault=fault: [list(r) + list(fault) for r in rs], 6, [6, 2, 3], "mixed")
        out.append((f"{name}: every range request of {len(steps)} calls fails, then healthy calls", {"file": file, "steps": steps + healthy_tail(file, steps[-1])}))
    # every kind of failure, some ranges of a call healthy, healthy calls in between
    file = make_file(rng, size)
    steps = []
    cyc = FaultCycle()
    for blk in range(ctx.n(4, 24)):
        steps += failing_block(12, lambda rs, k: [list(r) + list(cyc.next() if rng.random() < 0.5 else _raising(rng, k + len(r)))
                                                  for r in rs if rng.random() < 0.8] or [list(rs[0]) + [-1, "none"]],
                               rng.randrange(2, 6), [1, 2, 4], "mixed", apis=("queue", "exec", "read") if blk % 2 else ("exec", "queue"))
        steps += healthy_tail(file)[blk % 3: blk % 3 + 2]
    out.append((f"mixed failures ({len(steps)} calls: every status, dropped / refused / cut, transient ones, direct reads), healthy calls in between",
                {"file": file, "steps": steps + healthy_tail(file, next(st for st in reversed(steps) if st["faults"]))}))
    # many failing queries of one range each (something kept per failed QUERY), then many healthy ones (something kept per request)
    file = make_file(rng, size)
    steps = failing_block(ctx.n(40, 300), lambda rs, k: [list(rs[0]) + list(_raising(rng, k))], 1, 1, "mixed")
    many = [{"api": ("queue", "exec")[k % 2], "ranges": make_ranges(rng, 1 + k % 3, size, True, "none"), "workers": 1 + k % 2, "faults": [],
             "source": ("shared", "own")[k % 2]} for k in range(ctx.n(40, 300))]
    out.append((f"{len(steps)} failing calls of one range each, then {len(many)} healthy calls", {"file": file, "steps": steps + [dict(steps[-1], faults=[])] + many + healthy_tail(file, steps[0])}))
    # requests without a Range header (none is made by the unchanged source) fail while they last
    file = make_file(rng, size)
    rs = make_ranges(rng, 4, size, True, "none")
    steps = []
    for k, nr in enumerate([(-1, "none"), (503, "empty"), (404, "empty"), (-2, "none"), (502, "empty"), (-1, "none")] * ctx.n(1, 4)):
        steps.append({"api": ("queue", "exec", "read")[k % 3], "ranges": rs[: 1 + k % 4], "workers": 1 + k % 3, "faults": [],
                      "source": ("shared", "own")[(k // 2) % 2], "nonrange": list(nr)})
    out.append(("requests other than range requests (HEAD, plain GET - if any is made) fail, range requests are served", {"file": file, "steps": steps + healthy_tail(file)}))
    return out


def policy_from_spec(spec):
    if not spec:
        return None
    rng = random.Random(spec.get("seed", 0))
    name = spec.get("name")
    if name in ADVERSARIAL:
        return make_policy(ADVERSARIAL[name][0], ADVERSARIAL[name][1], 0.0, rng)
    prio = LABELS[:]
    rng.shuffle(prio)
    return make_policy(prio, rng.choice(["low", "high"]), rng.choice([0.0, 0.3, 1.0]), rng)


# ------------------------------------------------------------------------------------------------ free runs (stdlib as it is)
# The controlled runs replace the queue / thread-pool classes laspy.copc uses today by doubles.  A FREE run replaces nothing of the
# standard library: whatever queue class, lock, pool or thread the fetching code uses runs as it is, in a fresh interpreter, on OS
# threads; the only double is the server (below laspy's session, as in the controlled runs), which also ORDERS the answers by holding
# them back: 'errors last' = the answer of a failing request is held until every healthy range has been answered (the fetched
# blocks are already queued when the error is published), 'errors first' = the healthy answers are held until a failing request
# has been answered, 'as they come'.  The call runs in a thread of its own under a time limit: not returning / raising within it is
# the observation 'did not terminate'.  Judged by the property alone: the error of a failed request, or the local read; every
# thread the call started has finished.
FREE_LIMIT = 6.0     # seconds one call may take (it makes at most 6 requests answered from memory)
FREE_GRACE = 3.0     # seconds the threads a call started are given to finish after it returned / raised
FREE_HOLD = 0.15     # seconds an answer is held back at most (the condition it waits for may never come: 1 worker)
ORDERS = ["errors last", "errors first", "as they come"]


class FreeWorld(World):
    def __init__(self, file, faults, order, n_ok, stack=None):
        World.__init__(self, file, faults, stack=stack)
        self.order = order
        self.n_ok = n_ok
        self.cv = threading.Condition()
        self.ok_done = 0
        self.bad_done = 0

    def hold(self, fault):
        """called before the first answer to a range request is given"""
        if self.order == "errors last" and fault is not None:
            cond = lambda: self.ok_done >= self.n_ok       # noqa
        elif self.order == "errors first" and fault is None:
            cond = lambda: self.bad_done >= 1              # noqa
        else:
            return
        with self.cv:
            met = self.cv.wait_for(cond, FREE_HOLD)
        if met:
            time.sleep(0.02)                               # the block answered last is on its way into the result queue

    def answered(self, failed):
        with self.cv:
            if failed:
                self.bad_done += 1
            else:
                self.ok_done += 1
            self.cv.notify_all()

    def attempt(self, rec):
        first = not rec[1]
        fault = World.attempt(self, rec)
        if first and rec[0] != NONRANGE:
            self.hold(fault)
        return fault

    def end(self, rec, how):
        fresh = rec[2] is None
        World.end(self, rec, how)
        if fresh and rec[0] != NONRANGE:
            self.answered(how in ("raised", "cut") or (isinstance(how, int) and 400 <= how < 600))


def run_free(mode, file, ranges, workers, faults, order, limit=None):
    """one call of a strategy with nothing of the standard library replaced; dict(outcome, hung, alive, errors, requests, failed)"""
    import laspy.copc as copc
    limit = FREE_LIMIT if limit is None else limit
    n_ok = sum(1 for r in ranges if r[1] > 0 and tuple(r) not in faults)
    world = FreeWorld(file, faults, order, n_ok)
    before = set(threading.enumerate())
    box = {}
    errors = []

    def target():
        try:
            src = copc.HttpRangeStream(URL)
            out = bytearray(sum(n for _, n in ranges))
            getattr(copc, STRATEGY_FN[mode])(src, list(ranges), out, workers)
            box["out"] = ("returned", bytes(out))
        except Exception as ex:  # noqa
            rng = range_of_exc(ex)
            box["out"] = ("raised", rng) if rng is not None else ("error", common.exc_kind(ex) + ": " + str(ex)[:120])

    with _PATCH_LOCK:
        saved_rrs = getattr(copc, "requests_retry_session", _ABSENT)
        saved_req = getattr(copc, "requests", _ABSENT)
        hook = threading.excepthook
        threading.excepthook = lambda a: errors.append(f"{a.thread.name if a.thread else '?'}: {a.exc_type.__name__}: {str(a.exc_value)[:120]}")
        try:
            if getattr(copc, "requests", None) is None or not install_net(world):
                world.stack = "double"
                copc.requests_retry_session = lambda *a, **k: FakeSession(world)
                if getattr(copc, "requests", None) is None:
                    copc.requests = object()
            t = threading.Thread(target=target, name="c16-free-call", daemon=True)
            t0 = time.time()
            t.start()
            t.join(limit)
            hung = t.is_alive()
            seconds = time.time() - t0
            t_end = time.time() + (0.3 if hung else FREE_GRACE)
            mine = [x for x in threading.enumerate() if x not in before and x is not t]
            for x in mine:
                x.join(max(0.0, t_end - time.time()))
            alive = [f"{type(x).__name__} {x.name}" for x in mine if x.is_alive()]
        finally:
            uninstall_net()
            threading.excepthook = hook
            for k, v in (("requests_retry_session", saved_rrs), ("requests", saved_req)):
                if v is _ABSENT:
                    if hasattr(copc, k):
                        delattr(copc, k)
                else:
                    setattr(copc, k, v)
    return {"outcome": box.get("out", ("none", None)), "hung": hung, "alive": alive, "errors": errors, "seconds": round(seconds, 2),
            "events": [], "leaked": alive, "requests": [list(r) for r in world.requests], "failed": [tuple(r) for r in world.failed], "faults": dict(faults),
            "stack": world.stack, "limit": limit}


def free_oracle(mode, file, ranges, failing, res):
    """the property on one free run: None or (kind, observed)"""
    kind0 = f"{mode}-strategy, standard library as it is: "
    asked = f"{len(res['requests'])} range requests had been made ({len(res['failed'])} answered with an error: {[list(r) for r in res['failed']][:4]}); "
    threads = f"threads the call started that are still alive: {res['alive'] or 'none'}; exceptions that ended a thread: {res['errors'][:3] or 'none'}"
    if res["hung"]:
        return (kind0 + "the call did not terminate",
                f"neither returned nor raised within {res['limit']:.0f} s (a fault-free call of this size takes milliseconds); " + asked + threads)
    out = res["outcome"]
    fails_here = must_fail(ranges, failing, res)
    if not fails_here:
        want = local_read(file, ranges)
        if out[0] != "returned":
            return kind0 + "exception although no request failed", f"{short(out)}; " + threads
        if out[1] != want:
            return kind0 + "bytes differ from the local read", f"got {out[1].hex()} want {want.hex()}"
    else:
        if out[0] == "returned":
            return kind0 + "failed request swallowed, data returned", f"failing {fails_here} returned {out[1].hex()}"
        if out[0] != "raised" or out[1] not in fails_here:
            return kind0 + "failed request surfaced as something else", f"{short(out)}; " + asked + threads
    if res["alive"]:
        return kind0 + "thread still alive after the call", f"{FREE_GRACE:.0f} s after the call {out[0]}: " + threads
    if res["errors"]:
        return kind0 + "a thread the call started died of an exception", threads
    return None


def free_cases(ctx):
    """a fault on request k of n with w workers (k first / inner / last; w = 1, fewer than n, n, more), one or two faults or none,
    every order of answers, both strategies"""
    rng = ctx.rng
    out = []
    core = [("queue", 3, 1, (1,), "errors last"), ("queue", 4, 2, (2,), "errors last"), ("queue", 3, 3, (0,), "errors last"),
            ("queue", 4, 1, (0, 2), "errors first"), ("queue", 3, 2, (2,), "errors first"), ("queue", 5, 8, (1, 3), "as they come"),
            ("exec", 3, 1, (1,), "errors last"), ("exec", 4, 2, (0,), "errors first"), ("queue", 4, 2, (), "as they come"),
            ("exec", 5, 3, (), "errors last")]
    for mode, n, w, ks, order in core:
        out.append((mode, n, w, ks, order))
    for _ in range(ctx.n(6, 60)):
        n = rng.randint(1, 6)
        w = rng.choice([1, 1, 2, max(1, n - 1), n, 8])
        r = rng.random()
        ks = () if r < 0.15 else tuple(sorted(rng.sample(range(n), 1 if r < 0.75 or n < 2 else 2)))
        out.append((rng.choice(["queue", "queue", "exec"]), n, w, ks, rng.choice(ORDERS)))
    cases = []
    for k, (mode, n, w, ks, order) in enumerate(out):
        file = make_file(rng, 40)
        ranges = make_ranges(rng, n, 40, empties="none" if k % 4 else "first")
        failing = [ranges[i] for i in ks if ranges[i][1] > 0]
        fl = FAULTS + RAISING
        faults = {r: tuple(fl[(k * 7 + j) % len(fl)][:2]) for j, r in enumerate(failing)}
        cases.append({"strategy": mode, "free": True, "file_hex": file.hex(), "ranges": [list(r) for r in ranges], "workers": w,
                      "failing": [list(r) + list(faults[r]) for r in failing], "answers": order, "limit_seconds": FREE_LIMIT})
    return cases


def free_replay(inp, limit=None):
    file = bytes.fromhex(inp["file_hex"])
    ranges = [tuple(r) for r in inp["ranges"]]
    faults = {tuple(r[:2]): tuple(r[2:]) for r in inp["failing"]}
    res = run_free(inp["strategy"], file, ranges, inp["workers"], faults, inp.get("answers", "as they come"),
                   limit=limit or inp.get("limit_seconds"))
    return free_oracle(inp["strategy"], file, ranges, tuple(faults), res), res


def free_shrink(inp, kind):
    """fewer ranges / workers showing the same class of failure (each try is a run of its own)"""
    n = len(inp["ranges"])
    tries = 0
    for n2 in range(1, n + 1):
        for w2 in sorted({1, min(2, inp["workers"]), inp["workers"]}):
            if (n2, w2) == (n, inp["workers"]) or tries >= 8:
                continue
            rs = inp["ranges"][:n2]
            fl = [f for f in inp["failing"] if f[:2] in rs]
            if inp["failing"] and not fl:
                continue
            inp2 = dict(inp, ranges=rs, workers=w2, failing=fl)
            tries += 1
            bad, res = free_replay(inp2)
            if bad is not None and bad[0] == kind:
                return inp2, bad, res
    return None


def run_free_job(job):
    """in the fresh interpreter: the free runs one after the other; the first two failing classes, each shrunk"""
    found, stats = [], {"runs": 0, "hangs": 0, "seconds": 0.0}
    t0 = time.time()
    for inp in job["cases"]:
        if len(found) >= 2 or stats["hangs"] >= 2 or time.time() - t0 > job.get("budget", 60.0):
            break
        bad, res = free_replay(inp)
        stats["runs"] += 1
        if bad is None or any(f["kind"] == bad[0] for f in found):
            continue
        stats["hangs"] += int(res["hung"])
        small = free_shrink(inp, bad[0]) if job.get("shrink", True) else None
        if small is not None:
            inp, bad, res = small
            stats["hangs"] += int(res["hung"])
        found.append({"kind": bad[0], "input": inp, "observed": bad[1],
                      "expected": ("the call raises the error of one of the failed requests " + str([f[:2] for f in inp["failing"]])
                                   if inp["failing"] else "the call returns the local read") + f" within {FREE_LIMIT:.0f} s; every thread it started has finished"})
    stats["seconds"] = round(time.time() - t0, 1)
    return {"bad": None, "res": None, "found": found, "stats": stats}


def free_runs(ctx, cases):
    """the free runs of this check, in ONE fresh interpreter: list of failing inputs"""
    for c in cases:
        ks = tuple(k for k, r in enumerate(c["ranges"]) if any(f[:2] == r for f in c["failing"]))
        ctx.case(("free", c["strategy"], len(c["ranges"]), c["workers"], ks, c["answers"], c["file_hex"]), nontrivial=bool(ks))
        ctx.count("free-run:" + c["strategy"] + ":" + c["answers"])
        ctx.count("free-run:workers=" + ("1" if c["workers"] == 1 else "fewer than ranges" if c["workers"] < len(c["ranges"]) else "ranges or more"))
    r = in_fresh_process({"kind": "free", "cases": cases, "budget": ctx.n(40.0, 300.0)}, timeout=ctx.n(90, 600))
    if r.get("crash"):
        ctx.notes.append("free runs could not be made: " + r["crash"][-600:])
        return []
    if r.get("bad"):          # the interpreter had to be killed
        return [{"kind": "free runs (standard library as it is): " + r["bad"][0], "input": {"free_cases": cases}, "observed": r["bad"][1]}]
    ctx.extra["free_runs"] = r.get("stats")
    return list(r.get("found") or [])


# ---- the fresh interpreter
def jsonable(x):
    if isinstance(x, (bytes, bytearray)):
        return {"hex": bytes(x).hex()}
    if isinstance(x, (list, tuple)):
        return [jsonable(v) for v in x]
    if isinstance(x, dict):
        return {str(k): jsonable(v) for k, v in x.items()}
    return x


def unjson(x):
    if isinstance(x, dict) and set(x) == {"hex"}:
        return bytes.fromhex(x["hex"])
    if isinstance(x, list):
        return [unjson(v) for v in x]
    if isinstance(x, dict):
        return {k: unjson(v) for k, v in x.items()}
    return x


def run_job(job):
    kind = job["kind"]
    pol = policy_from_spec(job.get("policy"))
    sched = job.get("schedule")
    if kind == "history":
        h = {"file": bytes.fromhex(job["file_hex"]), "steps": job["steps"]}
        res = run_history(h["file"], h["steps"], schedule=sched, policy=pol)
        bad = history_oracle(h, res)
    elif kind == "e2e_history":
        res = run_e2e_history(bytes.fromhex(job["file_hex"]), job["steps"], schedule=sched, policy=pol)
        bad = e2e_history_oracle(job["steps"], res)
    else:                                            # an input found in the long-lived process, run alone
        bad, res = replay_run(job["input"])
    keep = {k: res.get(k) for k in ("outcome", "problem", "leaked", "decisions", "failed", "stack", "other_requests", "errors")}
    keep["calls"] = res.get("calls")
    keep["events_tail"] = res["events"][-120:]
    keep["n_requests"] = len(res.get("requests") or [])
    pats = {}
    for a in res.get("attempts") or []:
        pats.setdefault((tuple(a[1]), str(a[2])), list(a[0]))
    keep["attempt_patterns"] = [[list(k[0]), k[1], v] for k, v in pats.items()]
    keep["raised_sends"] = sum(1 for a in res.get("attempts") or [] if a[2] == "raised")
    keep["sends"] = "".join("T" if a[2] == "raised" else "F" for a in res.get("attempts") or [] if a[2] is not None)
    return {"bad": list(bad) if bad else None, "res": jsonable(keep)}


def child_main():
    global WAIT, RUN_LIMIT, HANG_LIMIT, JOIN_LIMIT
    job = json.load(sys.stdin)
    JOIN_LIMIT = 0.5
    WAIT = float(job.get("wait", CHILD_WAIT))
    RUN_LIMIT = float(job.get("limit", 900.0))
    try:
        out = run_free_job(job) if job.get("kind") == "free" else run_job(job)
    except BaseException as ex:  # noqa
        import traceback
        out = {"crash": traceback.format_exc()[-1500:], "bad": None, "res": None}
    sys.stdout.write("\nC16-CHILD-RESULT " + json.dumps(out) + "\n")
    sys.stdout.flush()
    os._exit(0)


def in_fresh_process(job, timeout=240.0):
    """runs the job in a new interpreter; {"bad": [kind, observed] | None, "res": ...}"""
    env = dict(os.environ, PYTHONPATH=common.VERIF + os.pathsep + common.REPO, PYTHONHASHSEED="0")
    t0 = time.time()
    try:
        p = subprocess.run([sys.executable, "-c", "from harness.props import c16; c16.child_main()"], input=json.dumps(job),
                           stdout=subprocess.PIPE, stderr=subprocess.PIPE, text=True, timeout=timeout, env=env, cwd=common.VERIF)
    except subprocess.TimeoutExpired:
        return {"bad": ["history of calls in one process: the interpreter running it had to be killed",
                        f"no result after {timeout:.0f} s"], "res": None, "seconds": time.time() - t0}
    for line in p.stdout.split("\n"):
        if line.startswith("C16-CHILD-RESULT "):
            out = json.loads(line[len("C16-CHILD-RESULT "):])
            out["res"] = unjson(out.get("res"))
            out["seconds"] = time.time() - t0
            return out
    return {"crash": (p.stderr or p.stdout)[-1500:], "bad": None, "res": None, "seconds": time.time() - t0}


def history_input(name, h, res, e2e=False):
    return {"history": "e2e" if e2e else "strategies", "name": name, "file_hex": h["file"].hex(), "steps": h["steps"],
            "steps_legend": ("one call per step, all in one process, in this order; faults: " + FAULT_LEGEND) if not e2e else
                            "one query per step (a step opens its reader unless an earlier step did); faults: [start offset of the request, status | -1 dropped | -2 refused | -4 body cut, error body kind(, first k attempts only)]",
            "schedule": (res or {}).get("decisions") or []}


def shrink_history(name, h, bad, e2e=False):
    """a shorter history with the same class of failure: cut after the call that shows it, then drop leading calls"""
    kind = bad[0]
    job0 = {"kind": "e2e_history" if e2e else "history", "file_hex": h["file"].hex(), "policy": {"seed": 1}, "wait": CHILD_WAIT}
    best = None
    steps = h["steps"]
    tries = 0
    lo = 0
    # drop leading calls by halves while the failure stays
    while tries < 5 and len(steps) - lo > 2:
        cut = lo + (len(steps) - lo) // 2
        r = in_fresh_process(dict(job0, steps=steps[cut:]), timeout=120)
        tries += 1
        if r.get("bad") and r["bad"][0] == kind:
            lo = cut
            best = (steps[cut:], r)
        else:
            break
    if best is None:
        return h, None
    h2 = {"file": h["file"], "steps": best[0]}
    done = len((best[1]["res"] or {}).get("calls") or [])
    if done + 1 < len(h2["steps"]):
        h2 = {"file": h["file"], "steps": h2["steps"][:done + 1]}
    return h2, best[1]


def history_failures(ctx, runs):
    """failing inputs among the histories (runs: [(name, history, child result, e2e?)])"""
    found = []
    for name, h, r, e2e in runs:
        bad = r.get("bad")
        if r.get("crash") and not bad:
            ctx.notes.append(f"history '{name}' could not be run: {r['crash'][-400:]}")
            continue
        if not bad or any(f["kind"] == bad[0] for f in found):
            continue
        res = r.get("res") or {}
        done = len(res.get("calls") or [])
        h_cut = {"file": h["file"], "steps": h["steps"][:done + 1]} if done + 1 < len(h["steps"]) else h
        h2, r2 = shrink_history(name, h_cut, bad, e2e) if len(found) < 2 else (h_cut, None)
        res2 = (r2 or {}).get("res") or res
        bad2 = (r2 or {}).get("bad") or bad
        found.append({"kind": bad[0], "input": history_input(name, h2, res2, e2e), "observed": bad2[1],
                      "trace": (res2.get("events_tail") or [])[-80:],
                      "expected": "every call of the history returns the local read of its own ranges or raises the error of a request that "
                                  "failed during it, whatever happened in the calls before; when it is over the threads it started have "
                                  "finished; in particular a call on a healthy server returns after any number of failed calls"})
    return found


def run_histories(ctx):
    """runs every history in its own interpreter: [(name, history, child result, e2e?)]"""
    runs = []
    t0 = time.time()
    jobs = []
    for k, (name, h) in enumerate(history_cases(ctx)):
        jobs.append((name, h, False, {"kind": "history", "file_hex": h["file"].hex(), "steps": h["steps"],
                                      "policy": {"seed": ctx.seed * 1000 + k}, "wait": CHILD_WAIT}))
    for k, (name, h) in enumerate(e2e_history_cases(ctx)):
        jobs.append((name, h, True, {"kind": "e2e_history", "file_hex": h["file"].hex(), "steps": h["steps"],
                                     "policy": {"seed": ctx.seed * 1000 + 500 + k}, "wait": CHILD_WAIT}))
    from concurrent.futures import ThreadPoolExecutor as _TPE
    with _TPE(max_workers=4) as pool:                       # the interpreters are independent of each other
        results = list(pool.map(lambda j: in_fresh_process(j[3], timeout=ctx.n(150, 1200)), jobs))
    for (name, h, e2e, _job), r in zip(jobs, results):
        runs.append((name, h, r, e2e))
        register_history(ctx, name, h, r, e2e=e2e)
    ctx.extra["histories"] = [{"name": n, "calls": len(h["steps"]), "seconds": round(r.get("seconds", 0), 1),
                               "range_requests": (r.get("res") or {}).get("n_requests"),
                               "failed_below_the_session": len((r.get("res") or {}).get("failed") or []),
                               "adapter_send_raised": (r.get("res") or {}).get("raised_sends"),
                               "requests_without_range": (r.get("res") or {}).get("other_requests"),
                               "verdict": (r.get("bad") or ["ok"])[0]} for n, h, r, _ in runs]
    ctx.extra["histories_seconds"] = round(time.time() - t0, 1)
    return runs


def register_history(ctx, name, h, r, e2e=False):
    res = r.get("res") or {}
    ctx.case(("history", e2e, name, len(h["steps"]), tuple(res.get("decisions") or [])[:2000]), nontrivial=len(h["steps"]) >= 2)
    ctx.count("history:" + ("e2e" if e2e else "strategies"))
    ctx.count("history:calls", len(h["steps"]))
    ctx.count("history:requests that failed below the session", len(res.get("failed") or []))
    ctx.count("history:adapter send raised", res.get("raised_sends") or 0)
    for st in h["steps"]:
        if not e2e:
            ctx.count("history:call:" + st["api"] + (":healthy" if not st.get("faults") and not st.get("nonrange") else ":faulty"))
            ctx.count("history:source:" + st.get("source", "shared"))


def e2e_history_cases(ctx):
    """CopcReader level: whole-file / level / box queries on readers over the http source; the data requests of many queries
    fail (all of them, every raising kind), reader construction fails (the header read), then healthy queries on old and new readers"""
    try:
        from harness import fake_lazrs  # noqa
    except Exception:
        return []
    rng = ctx.rng
    out = []
    for hi in range(ctx.n(2, 5)):
        raw, nodes = build_copc(rng, "deepest level first, gaps" if hi % 2 == 0 else "random", "none")
        copc = e2e_backend()
        offs = sorted(nd["offset"] for nd in nodes if nd["n"])
        whole = {"level": None, "bounds": None}
        src = LogBytesIO(raw)
        rd = copc.CopcReader(src)
        del src.log[:]
        e2e_query(copc, rd, whole)
        starts = [o for o, n in src.log if n > 0]
        per_query = max(1, len(starts))
        target = ctx.n(40, 400) if hi % 2 == 0 else ctx.n(34, 150)
        steps = []
        k = 0
        fault = RAISING[hi % len(RAISING)]
        # one reader opened while the server is healthy, kept through the outage
        steps.append({"reader": 0, "strategy": ("queue", "executor")[hi % 2], "workers": 3, "q": {"level": 0, "bounds": None}, "faults": []})
        n_failed = 0
        while n_failed < target:
            strategy = ("queue", "executor")[k % 2]
            f = fault if hi % 2 == 0 else RAISING[k % len(RAISING)]
            steps.append({"reader": 0 if k % 3 == 0 and steps[0]["strategy"] == strategy else 100 + k, "strategy": strategy,
                          "workers": rng.choice([1, 2, 8]) if not (k % 3 == 0 and steps[0]["strategy"] == strategy) else 3,
                          "q": whole, "faults": [[s] + list(f) for s in starts]})
            n_failed += per_query
            k += 1
        # the header cannot be read: reader construction fails
        steps.append({"reader": 900, "strategy": "queue", "workers": 2, "q": whole, "faults": [[0] + list(fault)]})
        for k2, (strategy, workers, q) in enumerate([("queue", 1, {"level": 0, "bounds": None}), ("executor", 1, whole), ("queue", 8, whole),
                                                     ("executor", 3, {"level": [1, 3], "bounds": None}), ("queue", 3, whole)]):
            steps.append({"reader": 1000 + k2, "strategy": strategy, "workers": workers, "q": q, "faults": []})
        # the reader that was opened before the outage and went through it
        steps.append({"reader": 0, "strategy": steps[0]["strategy"], "workers": 3, "q": whole, "faults": []})
        out.append((f"e2e: {k} queries whose {per_query} data requests all fail ({'one kind' if hi % 2 == 0 else 'every raising kind'}), "
                    "a reader that cannot be opened, then healthy queries on the old and on new readers", {"file": raw, "steps": steps}))
    return out
