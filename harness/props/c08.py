"""C08 — VLRs and EVLRs are preserved verbatim and in order; known record types re-serialise to a payload that parses
to the same content; payloads that cannot be parsed are kept as raw records, unchanged.

Model: Model/Known.v (per type parse/serialise over bytes, vlr_factory over the table of Gen/GenKnown.v; the file
around the lists: write_file / write_file_known (LasWriter), read_file (a source that can seek), read_file_from (a
source that can only be read forward), append_file (LasAppender)) on top of the list codec of Model/Las.v.
Correspondence: (a) record lists through VLRList.write_to/read_from (VLR and EVLR form): bytes written, records
handed out (class, ids, description, parsed content, record_data_bytes()), and the second generation (what was read,
written and read again); (b) the same lists attached to real LAS files and carried through a history of generations.
Every generation is WRITTEN by one of the public ways (LasData.write to a stream / path, twice, from a copied header,
next to a second LasData on the same header and lists, with explicit options; LasWriter through laspy.open / the class /
a path, write_evlrs called or not, the with block left by an exception; laspy.convert then write; an APPEND SESSION on
the file itself: laspy.open(mode="a") on a stream / path or LasAppender, with nothing / empty chunks / points appended
and the public .evlrs list edited meanwhile) after the lists that were read were edited (remove, insert, clear,
replace, reverse, move, edit a payload in place or replace a record, the same object twice), possibly laid out as other
software may (bytes between the last point and the first EVLR, bytes behind the last EVLR, 0xAABB record signatures),
and READ by laspy.read(stream) and by a sample of all other ways of opening (bytes, path, pathlib, file object,
laspy.open / LasReader with EVLRs loaded at opening or deferred to read() / read_evlrs() -- directly, after
chunk_iterator, read_points, seek --, LasHeader.read_from, laspy.mmap, sources that cannot seek); all against the file
model (header fields that locate the records, record bytes, the whole file for append sessions, records read by each
route); (c) the dispatch table; (d) serialisation of user-built classification lookups; (e) OPERATIONS BETWEEN READING AND
WRITING (mode "ops"): what was read (a file by laspy.read, or a list by VLRList.read_from) goes through a sequence of
operations that re-synchronise or rebuild the VLR list of the header (add / remove extra dimensions, las.vlrs = / header.vlrs =
in every form, laspy.convert, the point_format setter, set_version_and_point_format, update_header, selection las[...], the
points setter, a new LasData on the same / a copied header) and of EDITS of the content of parsed records through their
public attributes (every known class: shorter / longer / a proper prefix of the old value / empty / unrelated / same length /
stripped; entries added and removed), then is written by one of the ways of writing (or left by an append session) and
read: after every operation the lists against header_op / set_content of the model, what is written against the model.
Search: the property stated on the implementation alone, on the same runs (every generation holds the lists that were
attached; every route reads what laspy.read(stream) reads; a refused append session leaves the file's records alone)
plus a stream of valid non-ASCII UTF-8 text payloads (outside the model's text assumption)."""
import io
import os

from harness import common

DRIVER = "c08"

ASSUMPTIONS = [
    "text payloads: 'decodable' (bytes.decode as utf-8 / ascii) is modelled as 'every byte < 128'; the correspondence generates "
    "ASCII text plus bytes that are invalid in every UTF-8 position (0xC0, 0xC1, 0xF8..0xFF) whose expected outcome is 'kept raw'; "
    "valid non-ASCII UTF-8 names/WKT are checked by the search oracle only (on the implementation, without the model)",
    "user ids and descriptions are printable ASCII without NUL, of every length up to the field width (the property's domain)",
    "records owned by the file machinery: a LASF_Spec/4 record with a payload its parser ACCEPTS is placed in the VLR list of a "
    "real file only together with the extra dimensions it describes (descriptors of every type 0..30, arbitrary options / "
    "no_data / min / max / scale / offset bytes, ASCII names and descriptions, any position in the list); an extra-bytes record "
    "that contradicts the point size (dropped with a warning, or the file is refused) and 'laszip encoded'/22204 in the VLR "
    "list (LasWriter pops the first LasZipVlr) are not generated in files; both are exercised as EVLRs and through VLRList "
    "directly. A LASF_Spec/4 record whose payload the parser REFUSES is kept raw and is an ordinary record of the file: it is "
    "generated in VLR lists (mode 'ops'), alone, twice, next to the parsed one",
    "the parsed extra-bytes record of a VLR list is regenerated from the point format by every operation that re-synchronises "
    "the header (by design): after an operation the property asks for exactly one such record iff the file has extra "
    "dimensions, naming them in order; its position in the list and its other descriptor bytes are not judged, and it is not "
    "edited by hand; every OTHER record (parsed or raw, whatever its identifiers) must be the same object state, in order",
    "the multi-generation histories (mode 'file') edit the lists through the list API of las.vlrs / las.evlrs (and las.evlrs = "
    "VLRList(...)) and convert files without extra dimensions; the header.vlrs setter, add / remove_extra_dim(s), the "
    "point_format setter and convert of files with extra dimensions are exercised by mode 'ops' (one more generation)",
    "operations are applied to the LasData that laspy.read returned; which method of LasHeader an operation ends in is written "
    "by hand (HEADER_METHOD: las.add_extra_dim(s) -> add_extra_dims, las.vlrs = -> vlrs, laspy.convert -> "
    "set_version_and_point_format, update_header / selection / points setter -> update); whether that method re-synchronises "
    "is read from the source on every run (resync_methods). After header.point_format = / set_version_and_point_format the "
    "caller goes on with a LasData built over the header's new point format object (as laspy.convert does). A downgrade below "
    "1.4 by laspy.convert loses the EVLRs of the FILE (documented); the list that lingers in memory meanwhile is not judged",
    "edits of parsed content: ASCII text; lookup names without NUL of at most 15 bytes (a 16-byte name: the write must be "
    "refused, never truncated); 'what the record says' is compared with what is read up to the normal form: WKT without its "
    "trailing NULs, GeoAscii as the text joined by NUL (however it is cut into strings), GeoKeyDirectory as header words and "
    "entries (number_of_keys is recomputed from the payload on reading; the field written is the one the record holds, "
    "possibly stale); a record kept raw under official ids is edited to another payload its parser refuses",
    "append sessions edit the EVLR list only (the VLRs are written back in place and cannot change size); an append session on a "
    "file whose VLRs do not serialise to the room they have (a WKT record without its NUL, trailing bytes a parser drops) may be "
    "refused, but must leave the records of the file as they were; the model (append_file) refuses it before anything is written",
    "files laid out by other software are derived from files laspy wrote: bytes inserted between the last point and the first "
    "EVLR (zeros, 0xFF, noise, a decoy EVLR), bytes appended behind the last EVLR, reserved bytes of every record set to 0xAABB; "
    "compressed files are not generated (no LAZ backend is installed)",
    "record payloads are handed over as bytes or bytearray (a memoryview cannot be deep-copied by LasWriter, a numpy integer "
    "record id has no to_bytes: both fail loudly and are outside the domain); copy.deepcopy / pickle of a whole LasData raises "
    "RecursionError in laspy and is not a route (the header is copied instead)",
    "user id 'copc' (CopcInfoVlr / CopcHierarchyVlr, 'Writing COPC is not supported') is outside the property and is not generated; "
    "the model marks these classes KUnmodelled",
    "the geokey count wraps modulo 2^16 only for payloads above 524295 bytes; these are checked by the search oracle only "
    "(the extracted model recurses too deeply on such lists)",
    "a parsed record may be re-emitted in normal form (WKT: exactly one trailing NUL; GeoKeyDirectory: count recomputed, bytes after "
    "the last whole entry dropped; lookup: NUL-clean names, one entry per class id; waveform: first 26 bytes); a 65535-byte WKT "
    "VLR without trailing NUL therefore grows to 65536 bytes and its re-write as VLR is refused (ValueError), not truncated",
]

U_SPEC = b"LASF_Spec"
U_PROJ = b"LASF_Projection"
U_LASZIP = b"laszip encoded"
PRINTABLE = bytes(range(0x20, 0x7F))
PUNCT = b"!\"#$%&'()*+,-./:;<=>?@[\\]^_`{|}~ "
BAD_UTF8 = [0xC0, 0xC1, 0xF8, 0xF9, 0xFA, 0xFB, 0xFC, 0xFD, 0xFE, 0xFF]
KNOWN_IDS = {U_SPEC: [0, 4, 100, 227, 355], U_PROJ: [34735, 34736, 34737, 2111, 2112], U_LASZIP: [22204]}
NEAR_IDS = [1, 3, 5, 99, 356, 2110, 2113, 34734, 34738, 22203, 22205, 65535, 1000]


# ---------------------------------------------------------------------------------
# generators
# ---------------------------------------------------------------------------------
def rbytes(rng, n):
    return bytes(rng.getrandbits(8) for _ in range(n)) if n < 4096 else rng.getrandbits(8 * n).to_bytes(n, "little")


def rtext(rng, n, alphabet=PRINTABLE):
    return bytes(rng.choice(alphabet) for _ in range(n))


def gen_uid(rng):
    r = rng.random()
    if r < 0.3:
        return rtext(rng, rng.randrange(0, 17))
    if r < 0.4:
        return rtext(rng, 16, PRINTABLE if rng.random() < 0.5 else PUNCT)
    if r < 0.5:
        return rng.choice([b"LASF_Spec ", b"lasf_spec", b"LASF_Spe", b"LASF_Specx", b"LASF_Projectio", b"LASF_Projection1",
                           b"laszip encode", b" LASF_Spec", b"LASF_SPEC", b"", b"X"])
    return rng.choice([U_SPEC, U_PROJ])


def gen_desc(rng):
    r = rng.random()
    if r < 0.15:
        return rtext(rng, 32, PRINTABLE if rng.random() < 0.5 else PUNCT)
    if r < 0.25:
        return b""
    return rtext(rng, rng.randrange(0, 33))


def lookup_payload(rng, kind):
    """kind: wf | norm | bad"""
    n = rng.choice([0, 1, 1, 2, 3, 5, 16])
    ids = rng.sample(range(256), n)
    if kind == "norm" and n >= 2 and rng.random() < 0.6:
        ids[-1] = ids[0]            # repeated class id: dict semantics
        dirty = rng.random() < 0.5
    else:
        dirty = kind == "norm"
    out = b""
    for k in ids:
        ln = rng.choice([0, 1, 5, 14, 15, rng.randrange(0, 16)])
        name = rtext(rng, ln, PRINTABLE if rng.random() < 0.6 else PUNCT)
        field = name + b"\0" * (15 - ln)
        if dirty and ln < 14:
            field = name + b"\0" + rbytes(rng, 14 - ln)
        out += bytes([k]) + field
    if kind == "norm" and not dirty and not (n >= 2 and ids[-1] == ids[0]):
        # force a dirty field
        out += bytes([next(i for i in range(256) if i not in ids)]) + b"a\0" + bytes([0xFF]) * 13
    if kind == "bad":
        how = rng.choice(["short", "long", "utf8"]) if out else rng.choice(["long", "utf8"])
        if how == "short":
            out = out[:-rng.randrange(1, 16)]
        elif how == "long":
            out += rbytes(rng, rng.randrange(1, 16))
        else:
            pos = rng.randrange(0, 15)
            out += bytes([7]) + rtext(rng, pos, b"abc-_.") + bytes([rng.choice(BAD_UTF8)]) + b"\0" * (14 - pos)
    return out


def chunks_payload(rng, w, kind):
    k = rng.choice([0, 1, 1, 2, 3])
    p = rbytes(rng, w * k)
    if kind == "bad":
        p = p + rbytes(rng, rng.randrange(1, w)) if rng.random() < 0.5 or not p else p[:-rng.randrange(1, w)]
    return p


def wave_payload(rng, kind):
    if kind == "wf":
        return rbytes(rng, 26)
    if kind == "norm":
        return rbytes(rng, 26 + rng.choice([1, 2, 8, 26, 100]))
    return rbytes(rng, rng.choice([0, 1, 13, 25]))


def geokeys_payload(rng, kind):
    k = rng.choice([0, 1, 1, 2, 4, 9])
    head = rbytes(rng, 6)
    keys = rbytes(rng, 8 * k)
    if kind == "wf":
        return head + k.to_bytes(2, "little") + keys
    if kind == "norm":
        how = rng.choice(["count", "trail", "both"])
        cnt = k if how == "trail" else rng.choice([c for c in (0, 1, k + 1, 65535, 256) if c != k])
        trail = b"" if how == "count" else rbytes(rng, rng.randrange(1, 8))
        return head + cnt.to_bytes(2, "little") + keys + trail
    return rbytes(rng, rng.randrange(0, 8))


def ascii_payload(rng, kind):
    if kind == "bad":
        p = bytearray(rtext(rng, rng.randrange(1, 30), PRINTABLE + b"\0\0|"))
        p[rng.randrange(len(p))] = rng.randrange(128, 256)
        return bytes(p)
    r = rng.random()
    if r < 0.15:
        return rng.choice([b"", b"\0", b"\0\0", b"|", b"a", b"a\0", b"\0a"])
    return rtext(rng, rng.randrange(0, 60), PRINTABLE + b"\0\0\0||")


def wkt_payload(rng, kind):
    body = rtext(rng, rng.choice([0, 1, 5, 40, 300]), PRINTABLE + b"\n\t")
    if rng.random() < 0.2 and body:
        body = body[: len(body) // 2] + b"\0" + body[len(body) // 2:]      # embedded NUL (kept)
    body = body.rstrip(b"\0")
    if kind == "wf":
        return body + b"\0"
    if kind == "norm":
        return body + rng.choice([b"", b"\0\0", b"\0\0\0\0"])
    b = bytearray(body + b"x" + rng.choice([b"", b"\0"]))
    b[rng.randrange(len(body) + 1)] = rng.choice(BAD_UTF8)
    return bytes(b)


def known_record(rng, cls=None, kind=None):
    """(uid, rid, desc, payload, tag) of a known class; tag = class/kind"""
    cls = cls or rng.choice(["lookup", "extra", "wave", "geokeys", "doubles", "ascii", "wkt", "wktmath", "laszip"])
    kind = kind or rng.choice(["wf", "wf", "norm", "bad"])
    if cls == "lookup":
        uid, rid, p = U_SPEC, 0, lookup_payload(rng, kind)
    elif cls == "extra":
        kind = "wf" if kind == "norm" else kind
        uid, rid, p = U_SPEC, 4, chunks_payload(rng, 192, kind)
    elif cls == "wave":
        uid, rid, p = U_SPEC, rng.choice([100, 101, 354, 355, rng.randrange(100, 356), rng.randrange(100, 356)]), wave_payload(rng, kind)
    elif cls == "geokeys":
        uid, rid, p = U_PROJ, 34735, geokeys_payload(rng, kind)
    elif cls == "doubles":
        kind = "wf" if kind == "norm" else kind
        uid, rid, p = U_PROJ, 34736, chunks_payload(rng, 8, kind)
    elif cls == "ascii":
        kind = "wf" if kind == "norm" else kind
        uid, rid, p = U_PROJ, 34737, ascii_payload(rng, kind)
    elif cls in ("wkt", "wktmath"):
        uid, rid, p = U_PROJ, (2112 if cls == "wkt" else 2111), wkt_payload(rng, kind)
    else:
        kind = "wf"
        uid, rid, p = U_LASZIP, 22204, rbytes(rng, rng.choice([0, 1, 34, 52]))
    return (uid, rid, gen_desc(rng), p, f"{cls}/{kind}")


RAW_TAGS = ("unknown", "nearmiss")


def nearmiss_record(rng):
    """a record that is ALMOST one laspy understands: a payload that parses for a known class, under that class's record
    id, with a user id that differs from the official one by blanks (leading / trailing / padded to the field width),
    letter case, one character more or less -- or the official user id with a neighbouring record id. It is a record
    of its own: kept raw, identifiers and payload unchanged."""
    while True:
        uid, rid, desc, p, tag = known_record(rng, kind=rng.choice(["wf", "wf", "norm"]))
        if rng.random() < 0.8:
            how = rng.choice(["trail", "trail", "lead", "pad", "both", "lower", "upper", "cut", "more", "swapcase1", "inner"])
            if how == "trail":
                u = uid + b" " * rng.randrange(1, 17 - len(uid))
            elif how == "lead":
                u = b" " * rng.randrange(1, 17 - len(uid)) + uid
            elif how == "pad":
                u = uid.ljust(16, b" ")
            elif how == "both":
                u = (b" " + uid + b" ")[:16]
            elif how == "lower":
                u = uid.lower()
            elif how == "upper":
                u = uid.upper()
            elif how == "cut":
                u = uid[:-1] if rng.random() < 0.5 else uid[1:]
            elif how == "more":
                u = (uid + bytes([rng.choice(PRINTABLE)]))[:16]
            elif how == "swapcase1":
                i = rng.randrange(len(uid))
                u = uid[:i] + uid[i:i + 1].swapcase() + uid[i + 1:]
            else:
                u = uid.replace(b"_", b" ") if b"_" in uid else uid.replace(b" ", b"_")
            r = rid
        else:
            u = uid
            r = rid + rng.choice([-1, 1]) if not 100 <= rid <= 355 else rng.choice([99, 356])
            if not 0 <= r < 65536:
                continue
        if u == b"copc" or is_known_id(u, r) or len(u) > 16:
            continue
        return (u, r, desc, p, "nearmiss")


EB_BASE_SIZES = [1, 1, 2, 2, 4, 4, 8, 8, 4, 8]
NAME_CHARS = b"abcdefghijklmnopqrstuvwxyz_0123456789"


def eb_payload(rng):
    """an extra-bytes record (192-byte descriptors) as other software writes it: every data type 0..30, arbitrary option
    bits and no_data / min / max / scale / offset bytes, names of every length up to the 32-byte field"""
    import struct as _s
    out = b""
    for i in range(rng.choice([1, 1, 2, 3])):
        t = rng.choice([0, rng.randrange(1, 11), rng.randrange(1, 31)])
        options = rng.choice([1, 2, 4, 5, 7]) if t == 0 else rng.choice([0, 1, 6, 7, 8, 16, 24, 31, rng.randrange(32)])
        ln = rng.choice([1, 4, 12, 31, 32])
        name = (b"e%d_" % i + rtext(rng, 32, NAME_CHARS))[:ln] if ln > 3 else (b"qwv"[i:i + 1] + b"%d" % i)[:max(ln, 2)]
        dlen = rng.choice([0, 1, 10, 31, 32])
        scales = [rng.choice([0.01, 0.5, 1.0, 2.0, 1e-3, 123.456]) for _ in range(3)]
        offsets = [rng.choice([0.0, -1.5, 1000.0, 1e6, 0.25]) for _ in range(3)]
        out += (bytes([0, 0] if rng.random() < 0.7 else [rng.getrandbits(8), rng.getrandbits(8)]) + bytes([t, options])
                + name.ljust(32, b"\0") + rbytes(rng, 4) + rbytes(rng, 72)
                + _s.pack("<3d", *scales) + _s.pack("<3d", *offsets) + rtext(rng, dlen, PRINTABLE).ljust(32, b"\0"))
    assert len(out) % 192 == 0
    return out


def is_known_id(uid, rid):
    if uid == U_SPEC:
        return rid in (0, 4) or 100 <= rid <= 355
    if uid == U_PROJ:
        return rid in (34735, 34736, 34737, 2111, 2112)
    if uid == U_LASZIP:
        return rid == 22204
    return False


def unknown_record(rng, size=None):
    while True:
        uid = gen_uid(rng)
        rid = rng.choice(NEAR_IDS + [rng.randrange(65536), rng.randrange(65536)])
        if uid == b"copc" or is_known_id(uid, rid):
            continue
        break
    if size is None:
        size = rng.choice([0, 0, 1, 2, 16, 26, 192, rng.randrange(0, 400)])
    return (uid, rid, gen_desc(rng), rbytes(rng, size), "unknown")


def gen_list(rng, n, file_vlr=False):
    out = []
    burst = rng.random() < 0.3
    bcls = rng.choice(["lookup", "wkt", "geokeys", "ascii", "doubles", "wave"])
    for _ in range(n):
        if burst and rng.random() < 0.7:
            rec = known_record(rng, bcls)
        elif rng.random() < 0.6:
            rec = known_record(rng)
        elif rng.random() < 0.3:
            rec = nearmiss_record(rng)
        else:
            rec = unknown_record(rng)
        if file_vlr and rec[0] in (U_SPEC, U_LASZIP) and rec[1] in (4, 22204) and not (file_vlr == "raw4" and rec[4] == "extra/bad"):
            rec = unknown_record(rng)
        out.append(rec)
    return out


VIAS = ["write", "write", "writer", "disk", "writer-noevlrs"]
MORE_VIAS = ["write-twice", "write-copy", "write-shared", "write-nocompress", "write-header-evlrs", "writer-class", "writer-path", "writer-raise", "writer-options"]
PREFERRED_VERSION = {0: "1.2", 1: "1.2", 2: "1.2", 3: "1.2", 4: "1.3", 5: "1.3", 6: "1.4", 7: "1.4", 8: "1.4"}


def gen_edit(rng, ver, only=None):
    which = only or ("e" if ver == "1.4" and rng.random() < 0.5 else "v")
    op = rng.choice(["del", "del", "ins", "ins", "clear", "new", "rev", "move", "set", "dup"])
    if op == "del":
        return ["del", which, rng.randrange(64)]
    if op == "ins":
        return ["ins", which, rng.randrange(64), gen_list(rng, 1, file_vlr=which == "v")[0]]
    if op == "new":
        return ["new", which, gen_list(rng, rng.choice([0, 0, 1, 3]), file_vlr=which == "v")]
    if op == "move":
        return ["move", which, rng.randrange(64), rng.randrange(64)]
    if op == "set":
        return ["set", which, rng.randrange(64), rbytes(rng, rng.choice([0, 1, 5, 40])), unknown_record(rng)]
    if op == "dup":
        return ["dup", which, rng.randrange(64), rng.randrange(64)]
    return [op, which]


def gen_spread(rng):
    """how other software may have laid the file out: [fill, bytes between the last point and the first EVLR, bytes
    behind the last EVLR]"""
    gap = rng.choice([1, 2, 7, 59, 60, 61, 100, 333])
    tail = rng.choice([0, 0, 0, 5, 64])
    if tail and rng.random() < 0.3:
        gap = 0
    return [rng.choice(GAP_FILLS), gap, tail, rng.random() < 0.25]


CHUNKS = [[], [], [0], [0, 0], [1], [3], [0, 2, 0], [2, 1]]


def gen_append(rng, ver):
    edits = [gen_edit(rng, ver, only="e") for _ in range(rng.choice([0, 1, 1, 2, 3]))] if ver == "1.4" else []
    return {"via": "append", "open": rng.choice(["stream", "stream", "path", "class"]), "end": rng.choice(["with", "with", "close", "raise"]),
            "edits": edits, "chunks": list(rng.choice(CHUNKS))}


def gen_convert(rng, fmt, ver):
    """-> step, new fmt, new version"""
    if rng.random() < 0.25 and ver == "1.4":
        # explicit downgrade: the EVLRs cannot be kept
        to = [rng.choice([0, 1, 3]), rng.choice(["1.2", "1.3"]), True]
    else:
        f = rng.choice([0, 1, 2, 3, 6, 7, 8])
        auto = max(ver, PREFERRED_VERSION[f])
        to = [f, auto, rng.random() < 0.5]
    return {"via": "convert", "to": to, "edits": []}, to[0], to[1]


def gen_steps(rng, ver, fmt=None, has_eb=False):
    """what happens to the file after it was first written: 1..3 more generations, each = the lists that were read
    are edited (or not) and the file is written again (LasData.write / LasWriter in their variants, through the header
    that was read), or converted and written, or an append session is run on the file itself; a 1.4 file may then be
    laid out with bytes between its points and its EVLRs before it is read"""
    r = rng.random()
    if r < 0.25:
        return [{"via": rng.choice(VIAS[:4]), "edits": []}]
    steps = []
    for _ in range(rng.choice([1, 1, 2, 3])):
        r = rng.random()
        if r < 0.3:
            st = gen_append(rng, ver)
        elif r < 0.38 and fmt is not None and not has_eb:
            st, fmt, ver = gen_convert(rng, fmt, ver)
        else:
            edits = [gen_edit(rng, ver) for _ in range(rng.choice([0, 1, 1, 2, 3]))]
            if ver == "1.4" and rng.random() < 0.25:
                edits.append(rng.choice([["clear", "e"], ["new", "e", []], ["clear", "e"]]))   # every EVLR removed
            st = {"via": rng.choice(VIAS + VIAS + MORE_VIAS), "edits": edits}
        if ver == "1.4" and rng.random() < 0.35:
            st["spread"] = gen_spread(rng)
        steps.append(st)
    return steps


def gen_cases(ctx):
    rng = ctx.rng
    cases = []
    sizes = [0, 1, 1, 2, 3, 5, 8, 20]
    # (0) cross-instance state, cheaply and first: the same class several times in one list (twice the same payload),
    #     as a list, and as EVLRs of a file; every case is also read twice (second generation)
    for cls in ["lookup", "extra", "wave", "geokeys", "doubles", "ascii", "wkt", "wktmath", "laszip"]:
        a, b = known_record(rng, cls, "wf"), known_record(rng, cls, "wf")
        while b[3] == a[3] or not a[3] or not b[3]:
            a, b = known_record(rng, cls, "wf"), known_record(rng, cls, "wf")
        cases.append({"mode": "list", "ext": False, "recs": [a, b, a]})
        cases.append({"mode": "file", "version": "1.4", "fmt": 6, "points": 1, "via": "write", "recs": [unknown_record(rng, 3)], "erecs": [b, a, b],
                      "steps": [{"via": "write", "edits": []}]})
    # a file whose EVLRs are all removed (each way of removing them x each way of writing), then written once more;
    # a file with extra dimensions whose extra-bytes record is first / in the middle / last, through two more generations
    for via in ("write", "disk", "writer", "writer-noevlrs"):
        for ed in (["clear", "e"], ["new", "e", []], ["del", "e", 0]):
            cases.append({"mode": "file", "version": "1.4", "fmt": rng.choice([6, 7]), "points": rng.choice([0, 3]), "via": rng.choice(["write", "writer"]),
                          "recs": [unknown_record(rng, 3)], "erecs": [unknown_record(rng, rng.choice([0, 5, 300]))],
                          "steps": [{"via": via, "edits": [ed]}, {"via": "write", "edits": []}]})
    for pos in (0, 1, 2):
        vl = [unknown_record(rng, 2), known_record(rng, "wkt", "wf")]
        vl.insert(pos, (U_SPEC, 4, gen_desc(rng), eb_payload(rng), "extra/wf"))
        cases.append({"mode": "file", "version": rng.choice(["1.2", "1.4"]), "fmt": 3, "points": 2, "via": "write", "recs": vl, "erecs": None,
                      "steps": [{"via": "write", "edits": []}, {"via": "writer", "edits": []}]})
    # every way of reading (all routes) x how the file is laid out: EVLRs right behind the points, behind a gap of zeros /
    # 0xFF / noise / a decoy record, bytes behind the last EVLR; files without EVLRs, older files, no points
    seed = rng.randrange(1 << 30)
    layouts = [None, ["zero", 1, 0], ["record", 60, 0], ["record", 75, 0, True], ["rand", 100, 0], ["ff", 7, 9], ["zero", 0, 12], ["zero", 120, 0], ["zero", 0, 0, True]]
    for i, lay in enumerate(layouts):
        cases.append({"mode": "file", "version": "1.4", "fmt": rng.choice([6, 7, 3]), "points": [0, 3, 5][i % 3], "via": "write",
                      "recs": [unknown_record(rng, 3)], "erecs": [unknown_record(rng, 6), known_record(rng, "wkt", "wf"), unknown_record(rng, 0)],
                      "spread": lay, "routes": "all", "steps": []})
    cases.append({"mode": "file", "version": "1.4", "fmt": 6, "points": 2, "via": "write", "recs": [unknown_record(rng, 3)], "erecs": None, "routes": "all", "steps": []})
    cases.append({"mode": "file", "version": "1.2", "fmt": 3, "points": 2, "via": "write", "recs": [unknown_record(rng, 3), known_record(rng, "ascii", "wf")], "erecs": None, "routes": "all", "steps": []})
    # every way of writing as a second generation (the EVLR list kept, or emptied)
    for via in VIAS[1:] + MORE_VIAS:
        for ed in ([], [["clear", "e"]]):
            cases.append({"mode": "file", "version": "1.4", "fmt": 6, "points": 2, "via": "write", "recs": [unknown_record(rng, 3)],
                          "erecs": [unknown_record(rng, 5), known_record(rng, "lookup", "wf")], "routes": [2, seed],
                          "steps": [{"via": via, "edits": ed}]})
    # append sessions: what is appended (nothing, empty chunks, points) x what happens to the EVLR list meanwhile, on a
    # file whose EVLRs follow the points or not; on a file without EVLRs; on an older file
    k = 0
    for chunks in ([], [0], [0, 0], [2], [0, 1, 0]):
        for ed in ([], [["ins", "e", 1, unknown_record(rng, 4)]], [["del", "e", 0]], [["clear", "e"]], [["new", "e", [unknown_record(rng, 2)]]],
                   [["new", "e", []]], [["rev", "e"]], [["move", "e", 0, 2]], [["set", "e", 0, rbytes(rng, 9), unknown_record(rng, 1)]],
                   [["dup", "e", 0, 2]]):
            k += 1
            if not ctx.thorough() and k % 2 == 0 and chunks not in ([], [0]):
                continue
            for lay in ([None, ["zero", 50, 0]] if ctx.thorough() else [[None, ["zero", 50, 0], ["record", 64, 3]][k % 3]]):
                cases.append({"mode": "file", "version": "1.4", "fmt": 6, "points": [2, 0][k % 5 == 0], "via": "write", "recs": [unknown_record(rng, 3)],
                              "erecs": [unknown_record(rng, 5), unknown_record(rng, 0), known_record(rng, "ascii", "wf")], "spread": lay, "routes": [1, seed],
                              "steps": [{"via": "append", "open": ["stream", "path", "class"][k % 3], "end": ["with", "close", "raise"][k % 3],
                                         "edits": ed, "chunks": list(chunks)}]})
    for chunks in ([], [0], [1]):
        for ed in ([["new", "e", [unknown_record(rng, 2)]]], [["ins", "e", 0, unknown_record(rng, 3)]], []):
            cases.append({"mode": "file", "version": "1.4", "fmt": 7, "points": 1, "via": "write", "recs": [unknown_record(rng, 3)], "erecs": None, "routes": [1, seed],
                          "steps": [{"via": "append", "open": "stream", "end": "with", "edits": ed, "chunks": list(chunks)},
                                    {"via": "append", "open": "stream", "end": "with", "edits": [], "chunks": [1]}]})
    cases.append({"mode": "file", "version": "1.2", "fmt": 3, "points": 1, "via": "write", "recs": [unknown_record(rng, 3), known_record(rng, "lookup", "wf")], "erecs": None,
                  "routes": [1, seed], "steps": [{"via": "append", "open": "stream", "end": "with", "edits": [], "chunks": [0, 2]}]})
    # a VLR that does not serialise to the room it has in the file (a WKT without its NUL, as other software writes it)
    cases.append({"mode": "file", "version": "1.4", "fmt": 6, "points": 3, "via": "write", "recs": [(U_PROJ, 2112, b"no final NUL", b"GEOGCS[]", "wkt/norm")],
                  "erecs": [unknown_record(rng, 5)], "steps": [{"via": "append", "open": "stream", "end": "with", "edits": [], "chunks": [2]}]})
    # converted, then written
    for fmt, ver, to in ((6, "1.4", [7, "1.4", False]), (6, "1.4", [3, "1.4", False]), (3, "1.2", [6, "1.4", False]), (1, "1.3", [1, "1.4", True]),
                         (6, "1.4", [3, "1.2", True]), (3, "1.4", [0, "1.3", True]), (0, "1.2", [2, "1.2", True])):
        cases.append({"mode": "file", "version": ver, "fmt": fmt, "points": 2, "via": "write", "recs": [unknown_record(rng, 3), known_record(rng, "geokeys", "wf")],
                      "erecs": [unknown_record(rng, 5)] if ver == "1.4" else None, "routes": [1, seed],
                      "steps": [{"via": "convert", "to": to, "edits": []}, {"via": "write", "edits": []}]})
    # every id / description length, full-width punctuation
    for ln in range(0, 17):
        cases.append({"mode": "list", "ext": ln % 2 == 0, "recs": [(rtext(rng, ln, PRINTABLE), rng.randrange(65536), rtext(rng, 2 * ln, PUNCT), rbytes(rng, ln), "unknown")]})
    # (a) lists through VLRList directly
    for i in range(ctx.n(400, 3000)):
        ext = rng.random() < 0.5
        cases.append({"mode": "list", "ext": ext, "recs": gen_list(rng, rng.choice(sizes))})
        if i % 7 == 0:
            cases[-1]["ptypes"] = True
    # (b) real files
    for i in range(ctx.n(320, 2500)):
        ver, fmt = rng.choice([("1.2", 0), ("1.2", 3), ("1.3", 1), ("1.4", 3), ("1.4", 6), ("1.4", 6), ("1.4", 7), ("1.4", 6)])
        vl = gen_list(rng, rng.choice(sizes), file_vlr=True)
        evl = gen_list(rng, rng.choice(sizes)) if ver == "1.4" and rng.random() < 0.8 else None
        if rng.random() < 0.06:
            vl.insert(rng.randrange(len(vl) + 1), unknown_record(rng, rng.choice([65535, 65536])))
        if evl is not None and rng.random() < 0.06:
            evl.insert(rng.randrange(len(evl) + 1), unknown_record(rng, rng.choice([65535, 65536, 70000])))
        if rng.random() < 0.3:
            # the file has extra dimensions: their extra-bytes record is one of the VLRs, anywhere in the list
            vl.insert(rng.randrange(len(vl) + 1), (U_SPEC, 4, gen_desc(rng), eb_payload(rng), "extra/wf"))
        case = {"mode": "file", "version": ver, "fmt": fmt, "points": rng.choice([0, 1, 7]),
                "via": rng.choice(["write", "write", "writer", "disk"] + MORE_VIAS), "recs": vl, "erecs": evl,
                "routes": [2, rng.randrange(1 << 30)]}
        if ver == "1.4" and evl and rng.random() < 0.3:
            case["spread"] = gen_spread(rng)
        if rng.random() < 0.2:
            case["ptypes"] = True
        if rng.random() < 0.2:
            case["make"] = "create"
        case["steps"] = gen_steps(rng, ver, fmt, any(r[4].startswith("extra/") for r in vl))
        cases.append(case)
    # (b') operations between reading and writing
    cases += gen_ops_cases(ctx)
    # (c) payload size boundaries (last: they are the expensive ones)
    for ext in (False, True):
        for size in (65535, 65536):
            cases.append({"mode": "list", "ext": ext, "recs": [unknown_record(rng, 3), unknown_record(rng, size), unknown_record(rng, 0)]})
    big_wkt = rtext(rng, 65535, b"abcdefgh ,[]\"")
    cases.append({"mode": "list", "ext": False, "recs": [(U_PROJ, 2112, b"wkt at the limit", big_wkt, "wkt/norm")]})
    cases.append({"mode": "list", "ext": False, "recs": [(U_PROJ, 2112, b"wkt at the limit", big_wkt[:-1] + b"\0", "wkt/wf")]})
    cases.append({"mode": "list", "ext": True, "recs": [(U_PROJ, 2112, b"", big_wkt + b"zz", "wkt/norm")]})
    cases.append({"mode": "list", "ext": False, "recs": [(U_SPEC, 0, b"4095 entries", b"".join(bytes([i % 256]) + b"n%04d" % i + b"\0" * 10 for i in range(4095)), "lookup/norm")]})
    cases.append({"mode": "list", "ext": False, "recs": [(U_PROJ, 34735, b"", rbytes(rng, 6) + (8190).to_bytes(2, "little") + rbytes(rng, 8 * 8190), "geokeys/wf")]})
    cases.append({"mode": "list", "ext": False, "recs": [(U_PROJ, 34736, b"", rbytes(rng, 65528), "doubles/wf"), (U_SPEC, 4, b"", rbytes(rng, 192 * 341), "extra/wf")]})
    return cases


# ---------------------------------------------------------------------------------
# running the implementation
# ---------------------------------------------------------------------------------
def sb(s):
    return s if isinstance(s, (bytes, bytearray)) else s.encode("utf-8")


def hx(b):
    return common.hexb(bytes(b))


def commas(items):
    items = list(items)
    return ",".join(items) if items else "-"


def content_tok(v):
    n = type(v).__name__
    if n == "ClassificationLookupVlr":
        return "L" + commas(f"{int(k)}={hx(sb(d))}" for k, d in v.lookups.items())
    if n == "LasZipVlr":
        return "Z" + hx(v.record_data)
    if n == "ExtraBytesVlr":
        return f"E{len(v.extra_bytes_structs)}/" + hx(b"".join(bytes(s) for s in v.extra_bytes_structs))
    if n == "WaveformPacketVlr":
        return "W" + hx(bytes(v.parsed_record))
    if n == "GeoKeyDirectoryVlr":
        return (f"G{hx(bytes(v.geo_keys_header)[:6])}/{int(v.geo_keys_header.number_of_keys)}/{len(v.geo_keys)}/"
                + hx(b"".join(bytes(k) for k in v.geo_keys)))
    if n == "GeoDoubleParamsVlr":
        return f"D{len(v.doubles)}/" + hx(b"".join(bytes(d) for d in v.doubles))
    if n == "GeoAsciiParamsVlr":
        return "A" + commas(hx(s.encode("ascii")) for s in v.strings)
    if n in ("WktMathTransformVlr", "WktCoordinateSystemVlr"):
        return "T" + hx(v.string.encode("utf-8"))
    return "?" + n


def snap(v):
    n = type(v).__name__
    s = {"cls": n, "uid": sb(v.user_id), "rid": int(v.record_id), "desc": sb(v.description)}
    if n == "VLR":
        s["data"] = bytes(v.record_data)
        return s
    s["content"] = content_tok(v)
    try:
        s["ser"] = bytes(v.record_data_bytes())
        if len(s["ser"]) > MAX_SER:
            s["ser"], s["ser_err"] = None, f"EOther:serialisation of {len(s['ser'])} bytes"
    except Exception as ex:  # noqa
        s["ser"] = None
        s["ser_err"] = common.exc_kind(ex) + ":" + type(ex).__name__
    return s


def snap_tok(s):
    if s["cls"] == "VLR":
        return ":".join(["raw", hx(s["uid"]), str(s["rid"]), hx(s["desc"]), hx(s["data"])])
    ser = hx(s["ser"]) if s["ser"] is not None else "!" + s["ser_err"].split(":")[0]
    return ":".join([s["cls"], hx(s["uid"]), str(s["rid"]), hx(s["desc"]), s["content"], ser])


def outgrew(recs, gen):
    """a parsed list whose serialisations are far larger than the payloads they came from is not written again
    (a parser that accumulates state would otherwise double the data on every generation)"""
    total = sum(len(x["ser"]) for x in gen if x.get("ser") is not None) + sum(1 for x in gen if x.get("ser_err", "").startswith("EOther:serialisation"))* MAX_SER
    return total > 2 * sum(len(r[3]) for r in recs) + 65536


def mk_vlrs(recs):
    import laspy
    from laspy.vlrs.vlrlist import VLRList
    return VLRList([laspy.VLR(u.decode("ascii"), r, d.decode("ascii"), as_payload(p)) for u, r, d, p, _ in recs])


def run_list(case):
    """-> dict(werr | bytes, gen1, w2err | bytes2, gen2)"""
    from laspy.vlrs.vlrlist import VLRList
    _PTYPES[0], _PTYPES[1] = bool(case.get("ptypes")), 0
    ext = case["ext"]
    vl = mk_vlrs(case["recs"])
    res = {}
    buf = io.BytesIO()
    try:
        vl.write_to(buf, as_extended=ext)
    except Exception as ex:  # noqa
        res["werr"] = common.exc_kind(ex)
        res["partial"] = buf.getvalue()
        return res
    res["bytes"] = buf.getvalue()
    rl = VLRList.read_from(io.BytesIO(res["bytes"]), len(vl), extended=ext)
    res["gen1"] = [snap(v) for v in rl]
    if outgrew(case["recs"], res["gen1"]):
        res["w2err"] = "skipped: serialisations outgrew the payloads"
        return res
    buf2 = io.BytesIO()
    try:
        rl.write_to(buf2, as_extended=ext)
    except Exception as ex:  # noqa
        res["w2err"] = common.exc_kind(ex)
        return res
    res["bytes2"] = buf2.getvalue()
    rl2 = VLRList.read_from(io.BytesIO(res["bytes2"]), len(rl), extended=ext)
    res["gen2"] = [snap(v) for v in rl2]
    return res


_TMP = "/var/tmp/c08_files_%d" % os.getpid()
import atexit as _atexit
import shutil as _shutil
_atexit.register(lambda: _shutil.rmtree(_TMP, ignore_errors=True))      # the scratch directory of this run does not outlive it


_PTYPES = [False, 0]     # payloads of new records handed over as bytes / bytearray in turn (per case)


def as_payload(p):
    if not _PTYPES[0]:
        return p
    _PTYPES[1] += 1
    return (p, bytearray(p))[_PTYPES[1] % 2]


def mk_vlr(rec):
    import laspy
    u, r, d, p = rec[:4]
    return laspy.VLR(u.decode("ascii"), r, d.decode("ascii"), as_payload(p))


class _Leave(Exception):
    """raised inside a with block to leave it by an exception"""


WRITE_VIAS = ["write", "disk", "writer", "writer-noevlrs", "write-twice", "write-copy", "write-shared", "write-nocompress",
              "write-header-evlrs", "writer-class", "writer-path", "writer-raise", "writer-options"]


def tmp_path(name):
    os.makedirs(_TMP, exist_ok=True)
    return os.path.join(_TMP, name)


def write_file(via, las, evl, call_write_evlrs=True):
    """one of the public ways of producing the file from a LasData and an EVLR list; returns its bytes"""
    import copy
    import laspy
    if via.startswith("write") and not via.startswith("writer"):
        if evl is not None:
            if via == "write-header-evlrs":
                las.header.evlrs = evl
            else:
                las.evlrs = evl
        buf = io.BytesIO()
        if via == "write-twice":
            # the same object written twice: the second file is the one kept (and must be the first one again)
            las.write(io.BytesIO())
            las.write(buf)
        elif via == "write-copy":
            # a LasData on a deep copy of the header (with its record lists)
            laspy.LasData(copy.deepcopy(las.header), las.points).write(buf)
        elif via == "write-shared":
            # a second LasData on the same header object, the same record objects and the same EVLR list object is
            # written first; then the one under test
            other = laspy.LasData(las.header, las.points)
            other.write(io.BytesIO())
            las.write(buf)
        elif via == "write-nocompress":
            las.write(buf, do_compress=False)
        else:
            las.write(buf)
        return buf.getvalue()
    if via == "disk":
        if evl is not None:
            las.evlrs = evl
        path = tmp_path("f.las")
        try:
            las.write(path)
            with open(path, "rb") as f:
                return f.read()
        finally:
            if os.path.exists(path):
                os.remove(path)
    buf = io.BytesIO()
    if via == "writer-class":
        w = laspy.LasWriter(buf, las.header, closefd=False)
        w.write_points(las.points)
        if evl is not None:
            w.write_evlrs(evl)
        w.close()
        return buf.getvalue()
    if via == "writer-path":
        path = tmp_path("w.las")
        try:
            with laspy.open(path, mode="w", header=las.header) as w:
                w.write_points(las.points)
                if evl is not None:
                    w.write_evlrs(evl)
            with open(path, "rb") as f:
                return f.read()
        finally:
            if os.path.exists(path):
                os.remove(path)
    if via == "writer-raise":
        # the with block is left by an exception after everything was handed over: the writer is closed all the same
        try:
            with laspy.open(buf, mode="w", header=las.header, closefd=False) as w:
                w.write_points(las.points)
                if evl is not None:
                    w.write_evlrs(evl)
                raise _Leave()
        except _Leave:
            pass
        return buf.getvalue()
    with laspy.open(buf, mode="w", header=las.header, closefd=False, **({"encoding_errors": "ignore", "do_compress": False} if via == "writer-options" else {})) as w:
        w.write_points(las.points)
        if evl is not None and via != "writer-noevlrs":
            w.write_evlrs(evl)
    return buf.getvalue()


def is_writer_via(via):
    """the EVLR list is handed to LasWriter.write_evlrs by the caller (not taken from the LasData)"""
    return via.startswith("writer")


def read_file(via, data):
    import laspy
    if via.startswith("writer"):
        with laspy.open(io.BytesIO(data)) as rd:
            return rd.read()
    return laspy.read(io.BytesIO(data))


# ---------------------------------------------------------------------------------
# every way of opening / reading a file
# ---------------------------------------------------------------------------------
class NonSeekable:
    """a source that can only be read forward (pipe, socket, HTTP body) and says so"""

    def __init__(self, data):
        self._b = io.BytesIO(data)

    def read(self, n=-1):
        return self._b.read(n)

    def seekable(self):
        return False

    def close(self):
        pass


class ReadOnly:
    """a source that offers read() and close() only"""

    def __init__(self, data):
        self._b = io.BytesIO(data)

    def read(self, n=-1):
        return self._b.read(n)

    def close(self):
        pass


def _snaps(vlrs, evlrs):
    return ([snap(v) for v in vlrs], None if evlrs is None else [snap(v) for v in evlrs])


def _rt_read_bytes(d, p):
    import laspy
    r = laspy.read(d)
    return _snaps(r.vlrs, r.evlrs)


def _rt_read_path(d, p):
    import laspy
    r = laspy.read(p)
    return _snaps(r.vlrs, r.evlrs)


def _rt_read_pathlib(d, p):
    import pathlib
    import laspy
    r = laspy.read(pathlib.Path(p))
    return _snaps(r.vlrs, r.evlrs)


def _rt_read_fileobj(d, p):
    import laspy
    with open(p, "rb") as f:
        r = laspy.read(f, closefd=False)
    return _snaps(r.vlrs, r.evlrs)


def _rt_open_header(d, p):
    import laspy
    with laspy.open(io.BytesIO(d)) as rd:
        return _snaps(rd.header.vlrs, rd.evlrs)


def _rt_open_read(d, p):
    import laspy
    with laspy.open(io.BytesIO(d)) as rd:
        r = rd.read()
        return _snaps(r.vlrs, r.evlrs)


def _rt_reader_class(d, p):
    import laspy
    rd = laspy.LasReader(io.BytesIO(d))
    try:
        r = rd.read()
        return _snaps(r.vlrs, r.evlrs)
    finally:
        rd.close()


def _rt_reader_class_deferred(d, p):
    import laspy
    rd = laspy.LasReader(io.BytesIO(d), read_evlrs=False)
    try:
        r = rd.read()
        return _snaps(r.vlrs, r.evlrs)
    finally:
        rd.close()


def _rt_deferred_read(d, p):
    import laspy
    with laspy.open(io.BytesIO(d), read_evlrs=False) as rd:
        r = rd.read()
        return _snaps(r.vlrs, r.evlrs)


def _rt_deferred_read_path(d, p):
    import laspy
    with laspy.open(p, read_evlrs=False) as rd:
        r = rd.read()
        return _snaps(r.vlrs, r.evlrs)


def _rt_deferred_chunks(d, p):
    import laspy
    with laspy.open(io.BytesIO(d), read_evlrs=False) as rd:
        for _ in rd.chunk_iterator(2):
            pass
        r = rd.read()
        return _snaps(r.vlrs, r.evlrs)


def _rt_deferred_some_chunks(d, p):
    import laspy
    with laspy.open(io.BytesIO(d), read_evlrs=False) as rd:
        for _ in rd.chunk_iterator(3):
            break
        r = rd.read()
        return _snaps(r.vlrs, r.evlrs)


def _rt_deferred_points(d, p):
    import laspy
    with laspy.open(io.BytesIO(d), read_evlrs=False) as rd:
        rd.read_points(1)
        r = rd.read()
        return _snaps(r.vlrs, r.evlrs)


def _rt_deferred_explicit(d, p):
    import laspy
    with laspy.open(io.BytesIO(d), read_evlrs=False) as rd:
        rd.read_points(2)
        rd.read_evlrs()
        return _snaps(rd.header.vlrs, rd.evlrs)


def _rt_deferred_seek(d, p):
    import laspy
    with laspy.open(io.BytesIO(d), read_evlrs=False) as rd:
        if rd.header.point_count > 0:
            rd.read_points(-1)
            rd.seek(0)
        r = rd.read()
        return _snaps(r.vlrs, r.evlrs)


def _rt_deferred_twice(d, p):
    import laspy
    with laspy.open(io.BytesIO(d), read_evlrs=False) as rd:
        rd.read()
        rd.read_evlrs()
        r = rd.read()
        return _snaps(r.vlrs, r.evlrs)


def _rt_open_twice(d, p):
    import laspy
    with laspy.open(io.BytesIO(d)) as rd:
        rd.read()
        r = rd.read()
        return _snaps(r.vlrs, r.evlrs)


def _rt_open_chunks(d, p):
    import laspy
    with laspy.open(io.BytesIO(d)) as rd:
        for _ in rd.chunk_iterator(2):
            pass
        r = rd.read()
        return _snaps(r.vlrs, r.evlrs)


def _rt_header_read_from(d, p):
    import laspy
    h = laspy.LasHeader.read_from(io.BytesIO(d), read_evlrs=True)
    return _snaps(h.vlrs, h.evlrs)


def _rt_mmap(d, p):
    import laspy
    with laspy.mmap(p) as m:
        return _snaps(m.vlrs, m.evlrs)


def _rt_nonseekable(d, p):
    import laspy
    r = laspy.read(NonSeekable(d))
    return _snaps(r.vlrs, r.evlrs)


def _rt_nonseekable_chunks(d, p):
    import laspy
    with laspy.open(NonSeekable(d)) as rd:
        for _ in rd.chunk_iterator(2):
            pass
        r = rd.read()
        return _snaps(r.vlrs, r.evlrs)


def _rt_readonly(d, p):
    import laspy
    r = laspy.read(ReadOnly(d))
    return _snaps(r.vlrs, r.evlrs)


# (name, function, needs a path, reads forward only)
ROUTES = [
    ("laspy.read(bytes)", _rt_read_bytes, False, False),
    ("laspy.read(path)", _rt_read_path, True, False),
    ("laspy.read(pathlib.Path)", _rt_read_pathlib, True, False),
    ("laspy.read(file object)", _rt_read_fileobj, True, False),
    ("laspy.open(stream): header only", _rt_open_header, False, False),
    ("laspy.open(stream).read()", _rt_open_read, False, False),
    ("laspy.open(stream): chunk_iterator, read()", _rt_open_chunks, False, False),
    ("LasReader(stream).read()", _rt_reader_class, False, False),
    ("LasReader(stream, read_evlrs=False).read()", _rt_reader_class_deferred, False, False),
    ("laspy.open(stream, read_evlrs=False).read()", _rt_deferred_read, False, False),
    ("laspy.open(path, read_evlrs=False).read()", _rt_deferred_read_path, True, False),
    ("laspy.open(stream, read_evlrs=False): chunk_iterator, read()", _rt_deferred_chunks, False, False),
    ("laspy.open(stream, read_evlrs=False): first chunk, read()", _rt_deferred_some_chunks, False, False),
    ("laspy.open(stream, read_evlrs=False): read_points(1), read()", _rt_deferred_points, False, False),
    ("laspy.open(stream, read_evlrs=False): read_points(2), read_evlrs()", _rt_deferred_explicit, False, False),
    ("laspy.open(stream, read_evlrs=False): read_points(-1), seek(0), read()", _rt_deferred_seek, False, False),
    ("laspy.open(stream, read_evlrs=False): read(), read_evlrs(), read()", _rt_deferred_twice, False, False),
    ("laspy.open(stream): read() twice", _rt_open_twice, False, False),
    ("LasHeader.read_from(stream, read_evlrs=True)", _rt_header_read_from, False, False),
    ("laspy.mmap(path)", _rt_mmap, True, False),
    ("laspy.read(non-seekable source)", _rt_nonseekable, False, True),
    ("laspy.open(non-seekable source): chunk_iterator, read()", _rt_nonseekable_chunks, False, True),
    ("laspy.read(source offering read() only)", _rt_readonly, False, True),
]
ROUTE_FORWARD = {n: fw for n, _, _, fw in ROUTES}


def pick_routes(sel, salt):
    """sel = "all" | [k, seed]: k routes drawn with a generator seeded by (seed, salt)"""
    if sel is None:
        return []
    if sel == "all":
        return list(range(len(ROUTES)))
    import random
    k, seed = sel
    return sorted(random.Random(seed * 1000003 + salt).sample(range(len(ROUTES)), min(k, len(ROUTES))))


def read_routes(data, idxs):
    """-> {route name: {"vl", "el"} | {"err"}} for the chosen routes"""
    out = {}
    if not idxs:
        return out
    path = None
    if any(ROUTES[i][2] for i in idxs):
        path = tmp_path("r.las")
        with open(path, "wb") as f:
            f.write(data)
    try:
        for i in idxs:
            name, fn = ROUTES[i][0], ROUTES[i][1]
            try:
                vl, el = fn(data, path)
                out[name] = {"vl": vl, "el": el}
            except Exception as ex:  # noqa
                out[name] = {"err": f"{common.exc_kind(ex)}: {type(ex).__name__}: {ex}"[:200]}
    finally:
        if path is not None and os.path.exists(path):
            os.remove(path)
    return out


GAP_FILLS = ["zero", "ff", "rand", "record"]


def gap_bytes(fill, n):
    """n bytes of something that is not an EVLR of the file: zeros, 0xFF, noise, or a well-formed EVLR of its own (a decoy)"""
    import random
    if fill == "zero":
        return bytes(n)
    if fill == "ff":
        return b"\xff" * n
    if fill == "rand":
        return random.Random(n).getrandbits(8 * n).to_bytes(n, "little") if n else b""
    decoy = b"\0\0" + b"decoy".ljust(16, b"\0") + (4242).to_bytes(2, "little") + max(0, n - 60).to_bytes(8, "little") + b"not a record of the file".ljust(32, b"\0")
    return (decoy + b"\x55" * max(0, n - 60))[:n] if n >= 60 else decoy[:n]


def spread(data, spec):
    """the same file as other software may lay it out: spec = [fill, gap, tail, sig]: gap bytes between the last point
    and the first EVLR (start_of_first_evlr moved accordingly) and tail bytes behind the last EVLR (both only for a 1.4
    file that has EVLRs); sig: the two reserved bytes in front of every record are 0xAABB (the record signature of
    LAS 1.0) instead of 0"""
    if not spec:
        return data
    fill, gap, tail = spec[:3]
    sig = len(spec) > 3 and spec[3]
    out = bytearray(data)
    if sig:
        hs = int.from_bytes(data[94:96], "little")
        pos = hs
        for _ in range(int.from_bytes(data[100:104], "little")):
            out[pos:pos + 2] = b"\xbb\xaa"
            pos += 54 + int.from_bytes(data[pos + 20:pos + 22], "little")
    if data[25] >= 4:
        nev = int.from_bytes(data[243:247], "little")
        est = int.from_bytes(data[235:243], "little")
        if nev and est:
            if sig:
                pos = est
                for _ in range(nev):
                    out[pos:pos + 2] = b"\xbb\xaa"
                    pos += 60 + int.from_bytes(data[pos + 20:pos + 28], "little")
            out = bytearray(bytes(out[:est]) + gap_bytes(fill, gap) + bytes(out[est:]) + gap_bytes("rand" if fill != "rand" else "ff", tail))
            out[235:243] = (est + gap).to_bytes(8, "little")
    return bytes(out)


# ---------------------------------------------------------------------------------
# append sessions
# ---------------------------------------------------------------------------------
def append_session(data, st):
    """laspy.open(mode="a") (or LasAppender) on the file, the EVLR list edited, chunks appended, closed -> (bytes of the
    file afterwards, error | None)"""
    import laspy
    from laspy.lasappender import LasAppender
    how, end = st.get("open", "stream"), st.get("end", "with")
    buf, path = None, None
    if how == "path":
        path = tmp_path("a.las")
        with open(path, "wb") as f:
            f.write(data)
    else:
        buf = io.BytesIO(data)

    def session(app):
        for ed in st["edits"]:
            apply_edit_impl(app, ed)
        for c in st["chunks"]:
            app.append_points(laspy.PackedPointRecord.zeros(c, app.header.point_format))

    err = None
    try:
        if how == "class":
            app = LasAppender(buf, closefd=False)
        elif how == "path":
            app = laspy.open(path, mode="a")
        else:
            app = laspy.open(buf, mode="a", closefd=False)
        if end == "close":
            session(app)
            app.close()
        elif end == "raise":
            try:
                with app:
                    session(app)
                    raise _Leave()
            except _Leave:
                pass
        else:
            with app:
                session(app)
    except Exception as ex:  # noqa
        err = f"{common.exc_kind(ex)}: {type(ex).__name__}: {ex}"[:200]
    if path is not None:
        with open(path, "rb") as f:
            out = f.read()
        os.remove(path)
    else:
        out = buf.getvalue()
    return out, err


def steps_of(case):
    return case["steps"] if "steps" in case else [{"via": case["via"], "edits": []}]


def new_item(rec, sids):
    sids[0] += 1
    return {"rec": rec, "k": False, "sid": sids[0]}


def file_owned(uid, rid):
    """records the file machinery owns when they sit in the VLR list (never duplicated there)"""
    return (uid == U_SPEC and rid == 4) or (uid == U_LASZIP and rid == 22204)


def apply_edit(v, e, ed, sids):
    """an edit on the expected lists (lists of items); the same on the implementation: apply_edit_impl"""
    op, which = ed[0], ed[1]
    if which == "e" and e is None:
        return v, e
    l = list(v if which == "v" else e)
    if op == "del":
        if l:
            l.pop(ed[2] % len(l))
    elif op == "ins":
        l.insert(ed[2] % (len(l) + 1), new_item(tuple(ed[3]), sids))
    elif op == "clear":
        l = []
    elif op == "new":
        l = [new_item(tuple(r), sids) for r in ed[2]]
    elif op == "rev":
        l.reverse()
    elif op == "move":
        if l:
            x = l.pop(ed[2] % len(l))
            l.insert(ed[3] % (len(l) + 1), x)
    elif op == "set":
        # the payload of a record of no known type is edited in place; any other record is replaced (l[i] = ...) by a new one
        if l:
            i = ed[2] % len(l)
            old = l[i]["rec"]
            if old[4] in RAW_TAGS:
                # every position that holds this very object shows the new payload
                oid = l[i].get("oid", l[i]["sid"])
                for j in range(len(l)):
                    if l[j].get("oid", l[j]["sid"]) == oid:
                        l[j] = dict(new_item((old[0], old[1], old[2], ed[3], old[4]), sids), oid=oid)
            else:
                l[i] = new_item(tuple(ed[4]), sids)
    elif op == "dup":
        # the same record object a second time in the list
        if l:
            x = l[ed[2] % len(l)]
            if not (which == "v" and file_owned(x["rec"][0], x["rec"][1])):
                sids[0] += 1
                l.insert(ed[3] % (len(l) + 1), dict(x, sid=sids[0], dup=x["sid"], oid=x.get("oid", x["sid"])))
    return (l, e) if which == "v" else (v, l)


def apply_edit_impl(las, ed):
    """las: anything that holds the lists as .vlrs / .evlrs (LasData, LasAppender)"""
    from laspy.vlrs.vlrlist import VLRList
    op, which = ed[0], ed[1]
    l = las.vlrs if which == "v" else las.evlrs
    if l is None:
        if which == "e" and op in ("ins", "new"):
            # a file that had no EVLRs gets a list
            las.evlrs = VLRList()
            l = las.evlrs
        else:
            return
    if op == "del":
        if len(l):
            l.pop(ed[2] % len(l))
    elif op == "ins":
        l.insert(ed[2] % (len(l) + 1), mk_vlr(ed[3]))
    elif op == "clear":
        l.clear()
    elif op == "new":
        if which == "e":
            las.evlrs = VLRList([mk_vlr(r) for r in ed[2]])
        else:
            l[:] = [mk_vlr(r) for r in ed[2]]
    elif op == "rev":
        l.reverse()
    elif op == "move":
        if len(l):
            x = l.pop(ed[2] % len(l))
            l.insert(ed[3] % (len(l) + 1), x)
    elif op == "set":
        if len(l):
            i = ed[2] % len(l)
            if type(l[i]).__name__ == "VLR" and not is_known_id(sb(l[i].user_id), int(l[i].record_id)):
                l[i].record_data = ed[3]
            else:
                l[i] = mk_vlr(ed[4])
    elif op == "dup":
        if len(l):
            x = l[ed[2] % len(l)]
            if not (which == "v" and file_owned(sb(x.user_id), int(x.record_id))):
                l.insert(ed[3] % (len(l) + 1), x)


def aged(x):
    """the item one generation later: it went through the reader"""
    y = {k: w for k, w in x.items() if k not in ("dup", "oid")}
    y["k"] = True
    return y


def history(case):
    """the record lists every generation of the file is expected to hold:
    [(vlr items, evlr items | None, via, handed, info)]; handed = whether an EVLR list is handed to the writer at all;
    info = {"ver": version of the file, "step": the step that produced it | None}. item = {rec, k: went through the
    reader, sid}"""
    sids = [0]
    ver = case["version"]
    v = [new_item(r, sids) for r in case["recs"]]
    e = None if case["erecs"] is None else [new_item(r, sids) for r in case["erecs"]]
    gens = [(v, e if e is not None or ver != "1.4" else [], case["via"], e is not None, {"ver": ver, "step": None})]
    for st in steps_of(case):
        v = [aged(x) for x in v]
        # a 1.4 file always reads back with an EVLR list (empty when it has none)
        e = [aged(x) for x in e] if e is not None else ([] if ver == "1.4" else None)
        if st["via"] == "convert":
            ver = st["to"][1]
            if ver != "1.4":
                e = None        # "they will be lost as version .. does not support them"
            elif e is None:
                e = []
        for ed in st["edits"]:
            v, e = apply_edit(v, e, ed, sids)
        handed = e is not None and st["via"] != "writer-noevlrs"
        if e is not None and not handed:
            e = []
        gens.append((v, e, st["via"], handed, {"ver": ver, "step": st}))
    return gens


def raw_locator(data):
    """the header fields that locate the records, from the bytes of the file"""
    minor = data[25]
    hs = int.from_bytes(data[94:96], "little")
    loc = [int.from_bytes(data[100:104], "little"), int.from_bytes(data[96:100], "little"), 0, 0]
    if minor >= 4:
        loc[3] = int.from_bytes(data[235:243], "little")
        loc[2] = int.from_bytes(data[243:247], "little")
    return hs, loc


def read_gen(via, data0, spec=None, routes=None, salt=0):
    """data0 = the file as laspy wrote it; it is read as laid out by spec (see spread), by the route that goes with via
    and by the routes chosen"""
    g = {"file0": data0}
    g["hs"], g["loc0"] = raw_locator(data0)
    data = spread(data0, spec)
    g["file"] = data
    g["loc"] = raw_locator(data)[1]
    try:
        r = read_file(via, data)
    except Exception as ex:  # noqa
        g["rerr"] = f"{common.exc_kind(ex)}: {type(ex).__name__}: {ex}"[:300]
        return g, None
    g["vl"] = [snap(v) for v in r.vlrs]
    g["el"] = None if r.evlrs is None else [snap(v) for v in r.evlrs]
    g["npts"] = len(r.points) * int(r.header.point_format.size)
    g["hdr"] = (int(r.header.offset_to_point_data), int(r.header.number_of_evlrs), int(r.header.start_of_first_evlr))
    g["routes"] = read_routes(data, pick_routes(routes, salt))
    g["api"] = ["vlrs." + x for x in api_views(r.vlrs)] + ["evlrs." + x for x in api_views(r.evlrs)]
    return g, r


def api_views(l):
    """the selecting methods of VLRList give the records of the list, in its order, nothing else: -> problems found"""
    from laspy.vlrs.vlrlist import VLRList
    bad = []
    if l is None:
        return bad
    items = list(l)
    try:
        for uid in {v.user_id for v in items if v.user_id != ""}:     # "" selects every user id (documented default)
            want = [v for v in items if v.user_id == uid]
            got = l.get_by_id(uid)
            if len(got) != len(want) or any(a is not b for a, b in zip(got, want)):
                bad.append(f"get_by_id({uid!r}) gives {len(got)} records, the list holds {len(want)} with this user id")
            rid = want[-1].record_id
            want2 = [v for v in want if v.record_id == rid]
            got = l.get_by_id(uid, (rid,))
            if len(got) != len(want2) or any(a is not b for a, b in zip(got, want2)):
                bad.append(f"get_by_id({uid!r}, ({rid},)) gives {len(got)} records, the list holds {len(want2)}")
        got = l.get_by_id()
        if len(got) != len(items) or any(a is not b for a, b in zip(got, items)):
            bad.append(f"get_by_id() gives {len(got)} of {len(items)} records")
        for cls in {type(v).__name__ for v in items}:
            want = [v for v in items if type(v).__name__ == cls]
            got = l.get(cls)
            if len(got) != len(want) or any(a is not b for a, b in zip(got, want)):
                bad.append(f"get({cls!r}) gives {len(got)} records, the list holds {len(want)} of this class")
            if l.index(cls) != next(i for i, v in enumerate(items) if type(v).__name__ == cls):
                bad.append(f"index({cls!r}) is {l.index(cls)}")
            c = VLRList(items)
            ex = c.extract(cls)
            rest = [v for v in items if type(v).__name__ != cls]
            if len(ex) != len(want) or any(a is not b for a, b in zip(ex, want)) or len(c) != len(rest) or any(a is not b for a, b in zip(c, rest)):
                bad.append(f"extract({cls!r}) takes {len(ex)} records and leaves {len(c)}; the list holds {len(want)} of this class and {len(rest)} others")
        c = l.copy()
        if len(c) != len(items) or any(a is not b for a, b in zip(c, items)):
            bad.append(f"copy() holds {len(c)} of {len(items)} records")
        # a list that was handed out is the caller's: emptying it changes neither the list nor what the next call gives
        for name, call in (("get_by_id()", lambda: l.get_by_id()), ("copy()", lambda: l.copy()),
                           ("get(class)", lambda: l.get(type(items[0]).__name__) if items else [])):
            n0 = len(call())
            call().clear()
            if len(call()) != n0 or len(l) != len(items) or any(a is not b for a, b in zip(l, items)):
                bad.append(f"emptying the list {name} returned changed the list or the next result")
    except Exception as ex:  # noqa
        bad.append(f"{type(ex).__name__}: {ex}"[:200])
    return bad


def lists_after(data):
    """what laspy.read gives for the file, as comparable snapshots (or the error)"""
    import laspy
    try:
        r = laspy.read(io.BytesIO(data))
        return {"vl": [snap(v) for v in r.vlrs], "el": None if r.evlrs is None else [snap(v) for v in r.evlrs],
                "npts": len(r.points) * int(r.header.point_format.size)}
    except Exception as ex:  # noqa
        return {"err": f"{common.exc_kind(ex)}: {type(ex).__name__}: {ex}"[:200]}


def build_las(case):
    """the LasData (with the VLRs of the case attached) and the EVLR list of the first generation"""
    import laspy
    import numpy as np
    from laspy.vlrs.known import ExtraBytesVlr
    _PTYPES[0], _PTYPES[1] = bool(case.get("ptypes")), 0
    header = laspy.LasHeader(point_format=case["fmt"], version=case["version"])
    eb = [r for r in case["recs"] if r[4] == "extra/wf"]
    if eb:
        # the extra dimensions the record describes; the record laspy generates for them is replaced by the one of the case
        v = ExtraBytesVlr()
        v.parse_record_data(eb[0][3])
        header.add_extra_dims(v.type_of_extra_dims())
    las = laspy.LasData(header) if eb or case.get("make") != "create" else laspy.create(point_format=case["fmt"], file_version=case["version"])
    n = case["points"]
    las.x = np.arange(n, dtype=np.float64)
    las.y = np.arange(n, dtype=np.float64) * 2
    las.z = np.zeros(n)
    if eb:
        las.vlrs.extract("ExtraBytesVlr")
    las.vlrs.extend(mk_vlrs(case["recs"]))
    evl = mk_vlrs(case["erecs"]) if case["erecs"] is not None else None
    return las, evl


def run_file(case):
    """-> {"gens": [generation]}; generation = {"werr"} | {"file0", "file", "hs", "loc0", "loc", "rerr" | ("vl", "el",
    "npts", "hdr", "routes")}; the run ends with the first write that is refused, the first file that cannot be read,
    or a "skipped" note"""
    import laspy
    las, evl = build_las(case)
    res = {"gens": []}
    routes = case.get("routes")
    try:
        data = write_file(case["via"], las, evl)
    except Exception as ex:  # noqa
        res["gens"].append({"werr": common.exc_kind(ex)})
        return res
    g, r = read_gen(case["via"], data, case.get("spread"), routes, 0)
    res["gens"].append(g)
    allrecs = list(case["recs"]) + list(case["erecs"] or [])
    for si, st in enumerate(steps_of(case)):
        if r is None:
            break
        if outgrew(allrecs, g["vl"] + (g["el"] or [])):
            res["skipped"] = "serialisations outgrew the payloads"
            break
        for ed in st["edits"]:
            if ed[0] == "ins":
                allrecs.append(ed[3])
            elif ed[0] == "new":
                allrecs += list(ed[2])
            elif ed[0] == "set":
                allrecs.append(ed[4])
        if st["via"] == "append":
            data, err = append_session(g["file"], st)
            if err is not None:
                res["gens"].append({"werr": err.split(":")[0], "werr_text": err, "after": lists_after(data)})
                break
        else:
            try:
                if st["via"] == "convert":
                    r = laspy.convert(r, point_format_id=st["to"][0], file_version=st["to"][1] if st["to"][2] else None)
                for ed in st["edits"]:
                    apply_edit_impl(r, ed)
                via = "write" if st["via"] == "convert" else st["via"]
                data = write_file(via, r, r.evlrs if is_writer_via(via) else None)
            except Exception as ex:  # noqa
                res["gens"].append({"werr": common.exc_kind(ex)})
                break
        g, r = read_gen(st["via"], data, st.get("spread"), routes, si + 1)
        res["gens"].append(g)
    return res


# ---------------------------------------------------------------------------------
# operations between reading and writing: everything that re-synchronises or rebuilds the VLR list of a header, and
# edits of the parsed content of known records
# ---------------------------------------------------------------------------------
EB_DIM_TYPES = ["u1", "i1", "u2", "i2", "u4", "i4", "u8", "i8", "f4", "f8", "2u1", "3f4", "3i2", "2f8", "3u8"]
EDIT_HOWS = ["shorter", "longer", "prefix", "empty", "unrelated", "samelen", "rstrip"]
CLS_OF_NAME = {"ClassificationLookupVlr": "lookup", "LasZipVlr": "laszip", "ExtraBytesVlr": "extra", "WaveformPacketVlr": "wave",
               "GeoKeyDirectoryVlr": "geokeys", "GeoDoubleParamsVlr": "doubles", "GeoAsciiParamsVlr": "ascii",
               "WktMathTransformVlr": "wktmath", "WktCoordinateSystemVlr": "wkt", "VLR": "raw"}
# the operation of the case -> the method of LasHeader it ends in (the model decides from the source which of these
# regenerate the extra-bytes record)
HEADER_METHOD = {"add": "add_extra_dims", "rem": "remove_extra_dims", "setvlrs": "vlrs", "convert": "set_version_and_point_format",
                 "pf": "point_format", "svpf": "set_version_and_point_format", "update_header": "update", "select": "update",
                 "points": "update", "newlas": "", "hdrcopy": "", "edit": "", "relist": ""}


def id_class(uid, rid):
    """the short class name that goes with official ids (None: no known type)"""
    if uid == U_SPEC:
        return "lookup" if rid == 0 else "extra" if rid == 4 else "wave" if 100 <= rid <= 355 else None
    if uid == U_PROJ:
        return {34735: "geokeys", 34736: "doubles", 34737: "ascii", 2111: "wktmath", 2112: "wkt"}.get(rid)
    if uid == U_LASZIP and rid == 22204:
        return "laszip"
    return None


def edit_text(old, how, rng, alphabet=PRINTABLE, limit=None):
    """a new value for a text (str) or a payload (bytes): shorter (not a prefix), longer, a proper prefix, empty,
    unrelated, another one of the same length, trailing blanks stripped"""
    isb = isinstance(old, (bytes, bytearray))
    old = bytes(old) if isb else old

    def fresh(n):
        t = rtext(rng, n, alphabet)
        return t if isb else t.decode("ascii")
    if how == "empty":
        new = old[:0]
    elif how == "prefix":
        new = old[:rng.choice([len(old) // 2, len(old) - 1, 1, rng.randrange(len(old))])] if old else old
    elif how == "shorter":
        new = old[1:] if rng.random() < 0.5 else old[:len(old) // 3] + old[len(old) // 3 + 1:]
    elif how == "longer":
        new = old + fresh(rng.choice([1, 2, 7, 30])) if rng.random() < 0.7 else fresh(1) + old
    elif how == "samelen":
        new = old[1:] + old[:1]
        if new == old:
            new = fresh(max(1, len(old)))
    elif how == "rstrip":
        # a text that ended with blanks / a newline, stripped (when it has none: its last character removed)
        new = old.rstrip() if old.rstrip() != old else old[:-1]
    else:
        new = fresh(rng.choice([1, 3, 12, 40]))
    if limit is not None:
        new = new[:limit]
    return new


def edit_record(v, how, seed):
    """one edit of the content of a record through its public attributes (in place); how: see EDIT_HOWS, "toolong"""
    import ctypes
    import random
    from laspy.vlrs import known as K
    rng = random.Random(seed)
    n = type(v).__name__
    if n in ("WktCoordinateSystemVlr", "WktMathTransformVlr"):
        v.string = edit_text(v.string, how, rng)
    elif n == "GeoAsciiParamsVlr":
        ss = v.strings
        if how == "empty":
            if rng.random() < 0.5 or not ss:
                v.strings = []
            else:
                ss[rng.randrange(len(ss))] = ""
        elif how == "unrelated":
            v.strings = [edit_text("", "unrelated", rng, NAME_CHARS) for _ in range(rng.choice([1, 2, 4]))]
        elif how == "longer" and (rng.random() < 0.5 or not ss):
            ss.append(edit_text("", "unrelated", rng, NAME_CHARS))
        elif how == "shorter" and rng.random() < 0.5 and ss:
            ss.pop(rng.randrange(len(ss)))
        elif how == "prefix" and rng.random() < 0.3 and ss:
            del ss[max(1, len(ss) // 2):]
        elif ss:
            i = rng.randrange(len(ss))
            ss[i] = edit_text(ss[i], how, rng, PRINTABLE.replace(b"|", b""))
    elif n == "ClassificationLookupVlr":
        d = v.lookups
        keys = list(d)
        if how == "empty":
            if rng.random() < 0.5 or not keys:
                v.lookups = {}
            else:
                d[rng.choice(keys)] = ""
        elif how == "unrelated":
            v.lookups = {rng.randrange(256): edit_text("", "unrelated", rng, NAME_CHARS, 15) for _ in range(rng.choice([1, 2, 5]))}
        elif how == "toolong":
            v[keys[0] if keys else 3] = rtext(rng, 16, NAME_CHARS).decode()
        elif how == "longer" and (rng.random() < 0.5 or not keys):
            v[rng.choice([k for k in range(256) if k not in d])] = edit_text("", "unrelated", rng, NAME_CHARS, 15)
        elif how == "shorter" and rng.random() < 0.5 and keys:
            del d[rng.choice(keys)]
        elif how == "prefix" and rng.random() < 0.3 and keys:
            for k in keys[max(1, len(keys) // 2):]:
                del d[k]
        elif keys:
            k = rng.choice(keys)
            d[k] = edit_text(d[k], how, rng, NAME_CHARS, 15)
    elif n == "GeoDoubleParamsVlr":
        ds = v.doubles
        x = rng.choice([0.0, -1.5, 1e300, 6378137.0, rng.random()])
        if how == "empty":
            v.doubles = []
        elif how == "unrelated":
            v.doubles = [ctypes.c_double(rng.random() * 1000) for _ in range(rng.choice([1, 3]))]
        elif how == "longer" or not ds:
            ds.append(ctypes.c_double(x))
        elif how == "shorter":
            ds.pop(rng.randrange(len(ds)))
        elif how == "prefix":
            del ds[len(ds) // 2:]
        elif rng.random() < 0.5:
            ds[rng.randrange(len(ds))].value = x
        else:
            ds[rng.randrange(len(ds))] = ctypes.c_double(x)
    elif n == "ExtraBytesVlr":
        ss = v.extra_bytes_structs

        def struct():
            return K.ExtraBytesStruct(name=rtext(rng, rng.choice([1, 8, 32]), NAME_CHARS), data_type=rng.randrange(1, 31),
                                      description=rtext(rng, rng.choice([0, 5, 32]), NAME_CHARS))
        if how == "empty":
            v.extra_bytes_structs = []
        elif how == "unrelated":
            v.extra_bytes_structs = [struct() for _ in range(rng.choice([1, 2]))]
        elif how == "longer" or not ss:
            ss.append(struct())
        elif how == "shorter":
            ss.pop(rng.randrange(len(ss)))
        elif how == "prefix":
            del ss[len(ss) // 2:]
        else:
            s = ss[rng.randrange(len(ss))]
            f = rng.choice(["name", "description", "data_type", "options", "scale"])
            if f in ("name", "description"):
                setattr(s, f, edit_text(bytes(getattr(s, f)), rng.choice(EDIT_HOWS), rng, NAME_CHARS, 32))
            elif f == "scale":
                s.data_type = s.data_type or 1
                s.scale = [rng.choice([0.5, 2.0, 1e-3])] * 3
            else:
                setattr(s, f, rng.randrange(1, 31))
    elif n == "WaveformPacketVlr":
        if how == "unrelated":
            v.parsed_record = K.WaveformPacketStruct(bits_per_sample=rng.choice([8, 16]), waveform_compression_type=0,
                                                     number_of_samples=rng.randrange(1 << 32), temporal_sample_spacing=rng.randrange(1000),
                                                     digitizer_gain=rng.random(), digitizer_offset=-rng.random())
        else:
            f = rng.choice(["bits_per_sample", "waveform_compression_type", "number_of_samples", "temporal_sample_spacing", "digitizer_gain", "digitizer_offset"])
            setattr(v.parsed_record, f, rng.choice([0, 1, 255]) if not f.startswith("digi") and how in ("empty", "shorter", "prefix") else
                    (rng.randrange(256) if f in ("bits_per_sample", "waveform_compression_type") else rng.randrange(1 << 32) if not f.startswith("digi") else rng.random() * 100))
    elif n == "GeoKeyDirectoryVlr":
        ks = v.geo_keys

        def entry():
            e = K.GeoKeyEntryStruct()
            e.id, e.tiff_tag_location, e.count, e.value_offset = rng.randrange(65536), rng.choice([0, 34736, 34737]), rng.randrange(1, 5), rng.randrange(65536)
            return e
        if how == "empty":
            v.geo_keys = []
        elif how == "unrelated":
            v.geo_keys = [entry() for _ in range(rng.choice([1, 3]))]
        elif how == "longer" or not ks:
            ks.append(entry())
        elif how == "shorter":
            ks.pop(rng.randrange(len(ks)))
        elif how == "prefix":
            del ks[len(ks) // 2:]
        elif rng.random() < 0.5:
            setattr(ks[rng.randrange(len(ks))], rng.choice(["id", "tiff_tag_location", "count", "value_offset"]), rng.randrange(65536))
        else:
            setattr(v.geo_keys_header, rng.choice(["key_directory_version", "key_revision", "minor_revision"]), rng.randrange(65536))
        if rng.random() < 0.6:
            v.geo_keys_header.number_of_keys = len(v.geo_keys)
    elif n == "LasZipVlr":
        v.record_data = edit_text(bytes(v.record_data), how, rng, bytes(range(256)))
    else:
        cls = id_class(sb(v.user_id), int(v.record_id))
        if cls is None:
            v.record_data = edit_text(bytes(v.record_data), how, rng, bytes(range(256)))
        elif cls != "laszip":
            # a record of a known type that was kept raw: another payload its parser refuses
            v.record_data = known_record(rng, cls, "bad")[3]


class _Lists:
    """what holds a record list outside a file"""

    def __init__(self, vlrs):
        self.vlrs, self.evlrs = vlrs, None


def state_of(cur):
    st = {"vl": [snap(v) for v in cur.vlrs], "el": None if cur.evlrs is None else [snap(v) for v in cur.evlrs]}
    if hasattr(cur, "header"):
        st["dims"] = [str(x) for x in cur.header.point_format.extra_dimension_names]
        st["pdims"] = [str(x) for x in cur.points.point_format.extra_dimension_names]
        st["ver"] = str(cur.header.version)
    return st


def apply_op(cur, op):
    """one operation on the LasData (or list holder) that was read -> the object the caller goes on with"""
    import copy
    import laspy
    import numpy as np
    from laspy.vlrs.vlrlist import VLRList
    name = op[0]
    if name == "add":
        params = [laspy.ExtraBytesParams(nm, tp) for nm, tp in op[2]]
        if op[1] == "one":
            for p in params:
                cur.add_extra_dim(p)
        else:
            cur.add_extra_dims(params)
    elif name == "rem":
        if op[1] == "one":
            for nm in op[2]:
                cur.remove_extra_dim(nm)
        else:
            cur.remove_extra_dims(list(op[2]))
    elif name == "setvlrs":
        how = op[1]
        if how == "list":
            cur.vlrs = list(cur.vlrs)
        elif how == "vlrlist":
            cur.vlrs = VLRList(cur.vlrs)
        elif how == "same":
            cur.vlrs = cur.vlrs
        elif how == "tuple":
            cur.header.vlrs = tuple(cur.vlrs)
        elif how == "iter":
            cur.header.vlrs = iter(list(cur.vlrs))
        else:
            cur.header.vlrs = cur.vlrs.copy()
    elif name == "relist":
        cur.vlrs = VLRList(list(cur.vlrs)) if op[1] == "new" else VLRList(cur.vlrs.copy())
    elif name == "convert":
        cur = laspy.convert(cur, point_format_id=op[1], file_version=op[2])
    elif name in ("pf", "svpf"):
        # the header is given a point format object of its own (an equal one); the caller goes on with a LasData whose
        # points are laid out by that object, as laspy.convert does
        if name == "pf":
            cur.header.point_format = copy.deepcopy(cur.header.point_format)
        else:
            cur.header.set_version_and_point_format(cur.header.version, copy.deepcopy(cur.header.point_format))
        cur = laspy.LasData(cur.header, laspy.PackedPointRecord.from_point_record(cur.points, cur.header.point_format))
    elif name == "update_header":
        cur.update_header()
    elif name == "select":
        n = len(cur.points)
        cur = cur[np.ones(n, dtype=bool)] if op[1] == "mask" else cur[0:n] if op[1] == "slice" else cur[np.arange(n)]
    elif name == "points":
        cur.points = cur.points[0:len(cur.points)]
    elif name == "newlas":
        cur = laspy.LasData(cur.header, cur.points)
    elif name == "hdrcopy":
        cur = laspy.LasData(copy.deepcopy(cur.header), cur.points)
    elif name == "edit":
        l = cur.vlrs if op[1] == "v" else cur.evlrs
        cand = [i for i, v in enumerate(l or []) if not (op[1] == "v" and hasattr(cur, "header") and type(v).__name__ == "ExtraBytesVlr")]
        if cand:
            edit_record(l[cand[op[2] % len(cand)]], op[3], op[4])
    else:
        raise ValueError("unknown operation " + name)
    return cur


def edited_index(prev, op):
    """the position in the list the edit operation touches, given the list before it (None: nothing to edit)"""
    l = prev["vl"] if op[1] == "v" else prev["el"]
    cand = [i for i, s in enumerate(l or []) if not (op[1] == "v" and "dims" in prev and s["cls"] == "ExtraBytesVlr")]
    return cand[op[2] % len(cand)] if cand else None


def run_steps(cur, ops, res):
    """the operations one after the other, the state of the lists after each -> what the caller goes on with (None: an
    operation raised)"""
    left = []
    for k, op in enumerate(ops):
        st = {"op": op}
        res["steps"].append(st)
        try:
            new = apply_op(cur, op)
        except Exception as ex:  # noqa
            st["err"] = f"{common.exc_kind(ex)}: {type(ex).__name__}: {ex}"[:300]
            return None
        if new is not cur and op[0] in ("convert", "select", "hdrcopy"):
            # the object the new one was made from (it got a header of its own) stays alive: what it holds now ...
            left.append((k, cur, state_of(cur)))
        cur = new
        st.update(state_of(cur))
    # ... and after everything that was done to the objects made from it
    res["left"] = [{"op": k, "then": then, "now": state_of(obj)} for k, obj, then in left]
    return cur


def run_ops_append(case, res, data):
    """the operations (edits of EVLRs) are applied to the public list of an append session on the file, a point is
    appended, the session is closed"""
    import laspy
    buf = io.BytesIO(data)
    try:
        app = laspy.open(buf, mode="a", closefd=False)
    except Exception as ex:  # noqa
        res["g1"] = {"werr": common.exc_kind(ex), "werr_text": f"opening for append: {type(ex).__name__}: {ex}"[:200]}
        return res
    cur = _Lists(app.header.vlrs)
    cur.evlrs = app.evlrs
    if run_steps(cur, case["ops"], res) is None:
        return res
    try:
        for c in case.get("chunks", [1]):
            app.append_points(laspy.PackedPointRecord.zeros(c, app.header.point_format))
        app.close()
    except Exception as ex:  # noqa
        res["g1"] = {"werr": common.exc_kind(ex), "werr_text": f"{type(ex).__name__}: {ex}"[:200]}
        return res
    res["g1"], _ = read_gen("write", buf.getvalue(), None, case.get("routes"), 1)
    return res


def run_ops(case):
    """form = "file": the file is written, read by laspy.read, the operations are applied to what was read, and the
    result is written by one of the ways of writing and read; form = "list": the same through VLRList.write_to / read_from.
    -> {"g0": generation, "steps": [{"op", "vl", "el", "dims", "pdims"} | {"op", "err"}], "g1": generation | {"werr"}}"""
    from laspy.vlrs.vlrlist import VLRList
    res = {"steps": []}
    if case["form"] == "list":
        _PTYPES[0], _PTYPES[1] = False, 0
        ext = case["ext"]
        buf = io.BytesIO()
        try:
            mk_vlrs(case["recs"]).write_to(buf, as_extended=ext)
        except Exception as ex:  # noqa
            res["g0"] = {"werr": common.exc_kind(ex)}
            return res
        try:
            cur = _Lists(VLRList.read_from(io.BytesIO(buf.getvalue()), len(case["recs"]), extended=ext))
        except Exception as ex:  # noqa
            res["g0"] = {"rerr": f"{common.exc_kind(ex)}: {type(ex).__name__}: {ex}"[:300]}
            return res
        res["g0"] = state_of(cur)
    else:
        las, evl = build_las(case)
        try:
            data = write_file("write", las, evl)
        except Exception as ex:  # noqa
            res["g0"] = {"werr": common.exc_kind(ex)}
            return res
        g, cur = read_gen("write", data)
        res["g0"] = g
        if cur is None:
            return res
        g.update(state_of(cur))
    if case["form"] == "file" and case["via"] == "append":
        return run_ops_append(case, res, data)
    cur = run_steps(cur, case["ops"], res)
    if cur is None:
        return res
    if case["form"] == "list":
        buf = io.BytesIO()
        try:
            cur.vlrs.write_to(buf, as_extended=case["ext"])
        except Exception as ex:  # noqa
            res["g1"] = {"werr": common.exc_kind(ex)}
            return res
        try:
            res["g1"] = state_of(_Lists(VLRList.read_from(io.BytesIO(buf.getvalue()), len(cur.vlrs), extended=case["ext"])))
        except Exception as ex:  # noqa
            res["g1"] = {"rerr": f"{common.exc_kind(ex)}: {type(ex).__name__}: {ex}"[:300]}
        res["g1"]["bytes"] = buf.getvalue()
        return res
    via = case["via"]
    try:
        # (a writer of a file older than 1.4 is not handed a list it would refuse)
        data1 = write_file(via, cur, cur.evlrs if is_writer_via(via) and str(cur.header.version) >= "1.4" else None)
    except Exception as ex:  # noqa
        res["g1"] = {"werr": common.exc_kind(ex), "werr_text": f"{type(ex).__name__}: {ex}"[:200]}
        return res
    res["g1"], _ = read_gen(via, data1, None, case.get("routes"), 1)
    return res


def said_key(s):
    """what a record says, as the property compares it: identifiers, and the payload (raw) or the parsed content up to
    the freedoms of the normal form (WKT: trailing NULs; GeoAscii: the text, however it is cut into strings;
    GeoKeyDirectory: the count field is recomputed)"""
    ids = (s["uid"], s["rid"], s["desc"])
    if s["cls"] == "VLR":
        return ("VLR",) + ids + (s["data"],)
    c = s["content"]
    if c[0] == "T":
        body = common.unhex(c[1:]).rstrip(b"\0")
    elif c[0] == "A":
        body = b"\0".join(common.unhex(x) for x in c[1:].split(",")) if c[1:] != "-" else b""
    elif c[0] == "G":
        head, _, n, keys = c[1:].split("/")
        body = (head, n, keys)
    else:
        body = c
    return (s["cls"],) + ids + (c[0], body)


def gen_dims(rng, k, taken=()):
    out = []
    while len(out) < k:
        nm = "d%d_%s" % (len(taken) + len(out), rtext(rng, rng.choice([1, 3, 10]), NAME_CHARS).decode())
        if nm not in taken and nm not in [x[0] for x in out]:
            out.append([nm, rng.choice(EB_DIM_TYPES)])
    return out


def gen_op(rng, state, which_edit=None):
    """one operation that is valid in the state {dims: names of the extra dimensions, ver, fmt, evl: the file has EVLRs};
    the state is updated"""
    dims = state["dims"]
    r = rng.random()
    if r < 0.2:
        new = gen_dims(rng, rng.choice([1, 1, 2, 3]), dims)
        dims.extend(x[0] for x in new)
        return ["add", rng.choice(["one", "many"]), new]
    if r < 0.32 and dims:
        names = rng.sample(dims, rng.choice([1, 1, len(dims), rng.randrange(1, len(dims) + 1)]))
        for nm in names:
            dims.remove(nm)
        return ["rem", rng.choice(["one", "many"]), names]
    if r < 0.45:
        return ["setvlrs", rng.choice(["list", "vlrlist", "same", "tuple", "iter", "copy"])]
    if r < 0.55:
        f = rng.choice([0, 1, 2, 3, 6, 7, 8])
        auto = max(state["ver"], PREFERRED_VERSION[f])
        explicit = rng.random() < 0.4
        if explicit and state["ver"] == "1.4" and f <= 3 and rng.random() < 0.4:
            auto = rng.choice(["1.2", "1.3"])      # a downgrade: the EVLRs cannot be kept
            state["evl"] = False
        state["ver"], state["fmt"] = auto, f
        return ["convert", f, auto if explicit else None]
    if r < 0.75:
        return ["edit", which_edit or ("e" if state["evl"] and rng.random() < 0.5 else "v"), rng.randrange(64), rng.choice(EDIT_HOWS), rng.randrange(1 << 30)]
    return [rng.choice(["pf", "svpf", "update_header", "points", "newlas", "hdrcopy"])] if r < 0.92 else ["select", rng.choice(["mask", "slice", "idx"])]


def every_kind(rng, vlr_of_file=False):
    """well-formed and malformed (kept raw) records of every known type, two of a kind next to each other, between
    records of no known type"""
    out = [unknown_record(rng, 3)]
    for cls in ["extra", "lookup", "wave", "geokeys", "doubles", "ascii", "wkt", "wktmath", "laszip"]:
        for kind in ("bad", "wf", "bad"):
            if vlr_of_file and (cls == "laszip" or (cls == "extra" and kind == "wf")):
                continue
            if cls == "laszip" and kind == "bad":
                continue
            out.append(known_record(rng, cls, kind))
        if rng.random() < 0.3:
            out.append(nearmiss_record(rng))
    out.append(unknown_record(rng, 0))
    return out


def gen_ops_cases(ctx):
    rng = ctx.rng
    cases = []
    vias = list(WRITE_VIAS)
    k = 0
    # (1) every operation that re-synchronises or rebuilds the list x a file without / with extra dimensions, whose VLRs
    #     and EVLRs hold well-formed and malformed records of every known type
    single = ([["add", "one", None], ["add", "many", None], ["rem", "one", None], ["rem", "many", None]]
              + [["setvlrs", h] for h in ("list", "vlrlist", "same", "tuple", "iter", "copy")]
              + [["convert", 7, None], ["convert", 3, "1.4"], ["convert", 6, None], ["pf"], ["svpf"], ["update_header"], ["points"], ["newlas"], ["hdrcopy"]]
              + [["select", h] for h in ("mask", "slice", "idx")])
    for op in single:
        for with_dims in (False, True):
            if op[0] == "rem" and not with_dims:
                continue
            if not ctx.thorough() and op[0] in ("setvlrs", "select") and with_dims != (k % 2 == 0):
                k += 1
                continue
            k += 1
            vl = every_kind(rng, vlr_of_file=True)
            dims = []
            if with_dims:
                p = eb_payload(rng)
                vl.insert(rng.randrange(len(vl) + 1), (U_SPEC, 4, gen_desc(rng), p, "extra/wf"))
                dims = eb_names(p)
            op = list(op)
            if op[0] == "add":
                op[2] = gen_dims(rng, 2 if op[1] == "many" else 1, dims)
            elif op[0] == "rem":
                op[2] = list(dims) if op[1] == "many" else dims[:1]
            ver = rng.choice(["1.4", "1.4", "1.2"]) if op[0] != "convert" else "1.4"
            case = {"mode": "ops", "form": "file", "version": ver, "fmt": 3 if ver != "1.4" else rng.choice([3, 6]), "points": rng.choice([0, 2]),
                    "recs": vl, "erecs": every_kind(rng) if ver == "1.4" else None, "via": vias[k % len(vias)], "ops": [op]}
            cases.append(case)
    # (3) every way of editing a parsed record of every known type (and the payload of a record kept raw), as VLR and
    #     EVLR, through the list codec and in a file
    k = 0
    for cls in ["lookup", "extra", "wave", "geokeys", "doubles", "ascii", "wkt", "wktmath", "laszip"]:
        for how in EDIT_HOWS + (["toolong"] if cls == "lookup" else []):
            for kind in (("wf", "norm", "bad") if ctx.thorough() else ("wf", ["norm", "bad"][k % 2])):
                k += 1
                rec = known_record(rng, cls, kind)
                if cls in ("wkt", "wktmath") and how == "rstrip" and kind != "bad":
                    rec = (rec[0], rec[1], rec[2], rtext(rng, 20, NAME_CHARS) + rng.choice([b" ", b"\n", b"  \t"]) + (b"\0" if kind == "wf" else b""), rec[4])
                seed = rng.randrange(1 << 30)
                cases.append({"mode": "ops", "form": "list", "ext": k % 2 == 0, "recs": [unknown_record(rng, 2), rec, unknown_record(rng, 1)],
                              "ops": [["edit", "v", 1, how, seed]]})
                if k % 3 == 0 or ctx.thorough():
                    in_e = cls in ("extra", "laszip") or k % 2 == 0
                    cases.append({"mode": "ops", "form": "file", "version": "1.4", "fmt": 6, "points": 1,
                                  "via": "append" if in_e and k % 4 == 0 else vias[k % len(vias)],
                                  "recs": [unknown_record(rng, 2)] + ([] if in_e else [rec]), "erecs": [unknown_record(rng, 2)] + ([rec] if in_e else []),
                                  "ops": [["edit", "e" if in_e else "v", 1, how, seed]]})
    # a LasData made from another one (convert / selection / copied header), then edited: the source keeps its records
    for op in (["convert", 7, None], ["select", "slice"], ["hdrcopy"]):
        for which in ("v", "e"):
            rec = known_record(rng, rng.choice(["wkt", "lookup", "ascii"]), "wf")
            cases.append({"mode": "ops", "form": "file", "version": "1.4", "fmt": 6, "points": 2, "via": "write", "recs": [unknown_record(rng, 2), rec],
                          "erecs": [unknown_record(rng, 2), rec], "ops": [op, ["edit", which, 1, rng.choice(["prefix", "unrelated", "longer"]), rng.randrange(1 << 30)]]})
    # random sequences
    for i in range(ctx.n(120, 1500)):
        ver, fmt = rng.choice([("1.2", 0), ("1.2", 3), ("1.3", 1), ("1.4", 3), ("1.4", 6), ("1.4", 6), ("1.4", 7)])
        vl = gen_list(rng, rng.choice([0, 1, 2, 3, 5, 8]), file_vlr="raw4")
        evl = gen_list(rng, rng.choice([0, 1, 2, 3, 5])) if ver == "1.4" and rng.random() < 0.8 else None
        dims = []
        if rng.random() < 0.4:
            p = eb_payload(rng)
            vl.insert(rng.randrange(len(vl) + 1), (U_SPEC, 4, gen_desc(rng), p, "extra/wf"))
            dims = eb_names(p)
        state = {"dims": dims, "ver": ver, "fmt": fmt, "evl": evl is not None}
        cases.append({"mode": "ops", "form": "file", "version": ver, "fmt": fmt, "points": rng.choice([0, 1, 4]), "recs": vl, "erecs": evl,
                      "via": rng.choice(vias), "ops": [gen_op(rng, state) for _ in range(rng.choice([1, 1, 2, 3, 5]))],
                      "routes": [1, rng.randrange(1 << 30)] if rng.random() < 0.3 else None})
    for i in range(ctx.n(120, 1500)):
        cases.append({"mode": "ops", "form": "list", "ext": rng.random() < 0.5, "recs": gen_list(rng, rng.choice([1, 2, 3, 5, 8])),
                      "ops": [["relist", rng.choice(["new", "copy"])] if rng.random() < 0.15 else
                              ["edit", "v", rng.randrange(64), rng.choice(EDIT_HOWS), rng.randrange(1 << 30)] for _ in range(rng.choice([1, 1, 2, 3]))]})
    return cases


def eb_names(payload):
    """the names of the extra dimensions an extra-bytes payload describes"""
    return [payload[i + 4:i + 36].rstrip(b"\0").decode("ascii") for i in range(0, len(payload), 192)]


_RUNS = None
MAX_FAILING_CASES = 10     # a misbehaving parser is reported from the first cases that show it; nothing is accumulated
MAX_SER = 1 << 22           # a serialisation larger than any payload generated here is not kept


def runs(ctx):
    """generate the cases and run the implementation once (shared by correspond and search); cheap cases first, and the
    run stops once MAX_FAILING_CASES cases violated the property oracle"""
    global _RUNS
    if _RUNS is None:
        _RUNS = []
        bad = 0
        for case in gen_cases(ctx):
            try:
                res = run_case(case)
            except Exception as ex:  # noqa
                import traceback
                res = {"crash": f"{type(ex).__name__}: {ex}", "tb": traceback.format_exc()[-600:]}
            _RUNS.append((case, res))
            try:
                failed = any(not k.startswith(FINDING_PREFIXES) for k, _ in oracle(case, res))
            except Exception:  # noqa
                failed = True
            if failed:
                bad += 1
                if bad >= MAX_FAILING_CASES:
                    ctx.notes.append(f"implementation runs stopped after {len(_RUNS)} cases: {bad} of them violated the property oracle")
                    break
        import shutil
        shutil.rmtree(_TMP, ignore_errors=True)
    return _RUNS


# ---------------------------------------------------------------------------------
# model side
# ---------------------------------------------------------------------------------
def recs_tok(recs):
    return "|".join(":".join([hx(u), str(r), hx(d), hx(p)]) for u, r, d, p, _ in recs) if recs else "-"


def map_recs(case, f):
    """the case with f applied to every record list in it (recs, erecs, records carried by edits)"""
    out = {k: v for k, v in case.items() if k not in ("recs", "erecs", "steps")}
    out["recs"] = f(case["recs"])
    if "erecs" in case:
        out["erecs"] = None if case["erecs"] is None else f(case["erecs"])
    if "steps" in case:
        def fed(ed):
            if ed[0] == "ins":
                return [ed[0], ed[1], ed[2], f([ed[3]])[0]]
            if ed[0] == "new":
                return [ed[0], ed[1], f(ed[2])]
            if ed[0] == "set":
                # the payload travels as a record (so that every f that maps records maps it)
                return [ed[0], ed[1], ed[2], f([(b"", 0, b"", ed[3], "unknown")])[0][3], f([ed[4]])[0]]
            return list(ed)
        out["steps"] = [dict(st, edits=[fed(ed) for ed in st["edits"]]) for st in case["steps"]]
    return out


def case_json(case):
    return map_recs(case, lambda recs: [[hx(u), r, hx(d), hx(p) if len(p) <= 4096 else f"random:{len(p)}:{hx(p[:8])}", t] for u, r, d, p, t in recs])


def nontrivial(recs):
    if not recs:
        return False
    return len(recs) >= 2 or any(t != "unknown" or len(u) == 16 or len(d) == 32 or len(p) >= 65535 for u, r, d, p, t in recs)


def compare_list(where, recs, ext, mo, werr, gen1, w2err, gen2, b1, b2, case, dis):
    """mo = model output of 'rt'; the rest = what the implementation did"""
    def add(kind, model, impl):
        dis.append({"kind": f"{where}: {kind}", "input": case_json(case), "model": str(model)[:300], "impl": str(impl)[:300]})
    if mo.startswith("err "):
        if werr != mo.split()[1]:
            add("write refused by the model only" if werr is None else "different write error", mo, werr)
        return
    if werr is not None:
        add("write refused by the implementation only", mo[:80], werr)
        return
    _, mbytes, mrecs, second = mo.split(" ")
    if b1 is not None and common.unhex(mbytes) != b1:
        add("bytes written differ", mbytes[:200], hx(b1)[:200])
    irecs = "|".join(snap_tok(s) for s in gen1) if gen1 else "-"
    if irecs != mrecs:
        ml, il = mrecs.split("|"), irecs.split("|")
        j = next((i for i in range(min(len(ml), len(il))) if ml[i] != il[i]), min(len(ml), len(il)))
        tag = recs[j][4] if j < len(recs) else "count"
        add(f"record read back differs ({tag})", ml[j][:300] if j < len(ml) else "<none>", il[j][:300] if j < len(il) else "<none>")
        return
    if second.startswith("w2err:"):
        if w2err != second.split(":")[1]:
            add("second write: refused by the model only", second, w2err)
        return
    if w2err is not None:
        add("second write: refused by the implementation only", second[:60], w2err)
        return
    _, m2bytes, same = second.split(":")
    if b2 is not None and common.unhex(m2bytes) != b2:
        add("second generation: bytes written differ", m2bytes[:200], hx(b2)[:200])
    i2 = "|".join(snap_tok(s) for s in gen2) if gen2 else "-"
    if same != "same" or i2 != mrecs:
        add("second generation differs from the first", mrecs[:300], i2[:300])


def item_tok(x):
    u, r, d, p = x["rec"][:4]
    return ("k" if x["k"] else "") + ":".join([hx(u), str(r), hx(d), hx(p)])


def items_tok(items):
    return "|".join(item_tok(x) for x in items) if items else "-"


HEADER_SIZES = {"1.1": 227, "1.2": 227, "1.3": 235, "1.4": 375}


def correspond_file(case, res, dis):
    """every generation against the file model: write_file_known (the lists as they are now, through a header whose
    EVLR fields are those of the previous generation) or append_file (on the bytes of the previous generation), then
    read_file; and every route of reading against read_file / read_file_from on the bytes that were read"""
    def add(kind, model, impl):
        dis.append({"kind": kind if kind.startswith(FINDING_PREFIXES) else f"file: {kind}", "input": case_json(case), "model": str(model)[:300], "impl": str(impl)[:300]})
    hist = history(case)
    cmds, what, stale, gprev = [], [], (0, 0), None
    for gi, ((v, e, via, handed, info), g) in enumerate(zip(hist, res["gens"])):
        hs, v14 = HEADER_SIZES[info["ver"]], info["ver"] == "1.4"
        # the points are not under test: as many bytes as the implementation wrote (0 when it wrote nothing)
        npts = g.get("npts", 0)
        if via == "append":
            b0 = gprev["file"]
            p0 = gprev["loc"][1] + gprev["npts"]
            newpts = g["file0"][p0:p0 + npts - gprev["npts"]] if "file0" in g else b""
            cmds.append(f"append {hs} {'T' if v14 else 'F'} {gprev['loc'][0]} {gprev['loc'][1]} {gprev['loc'][2]} {gprev['loc'][3]} "
                        f"{gprev['npts']} {hx(b0[hs:])} {hx(newpts)} {items_tok(e) if e is not None else 'none'}")
            what.append((gi, "append"))
        else:
            # the EVLR list handed to the writer is the one of the history BEFORE "not handed" emptied it; its content is
            # irrelevant then (none), so the expected list is used
            cmds.append(f"file {hs} {'T' if v14 else 'F'} {stale[0]} {stale[1]} {items_tok(v)} {npts} {items_tok(e) if handed else 'none'}")
            what.append((gi, "file"))
        if "loc" in g:
            stale = (g["loc"][2], g["loc"][3])
        if "vl" in g and (g.get("routes") or g["file"] != g["file0"]):
            cmds.append(f"readfile {hs} {'T' if v14 else 'F'} {g['loc'][0]} {g['loc'][1]} {g['loc'][2]} {g['loc'][3]} {g['loc'][1] + npts} {hx(g['file'][hs:])}")
            what.append((gi, "readfile"))
        gprev = g
    outs = common.run_model(cmds, name="c08")
    stop = None
    for (gi, cmd), mo in zip(what, outs):
        if stop is not None and gi >= stop:
            break
        (v, e, via, handed, info), g = hist[gi], res["gens"][gi]
        hs = HEADER_SIZES[info["ver"]]
        at = f"generation {gi} ({via})"
        if cmd == "readfile":
            seek, fwd = mo.split(" # ")
            laid = has_gap(g)

            def toks(vl, el):
                return "ok " + ("|".join(snap_tok(x) for x in vl) if vl else "-") + " " + ("none" if el is None else ("|".join(snap_tok(x) for x in el) if el else "-"))
            if toks(g["vl"], g["el"]) != seek:
                add(f"records read from the file as laid out differ ({at})", seek[:300], toks(g["vl"], g["el"])[:300])
            for name, rr in g.get("routes", {}).items():
                want = fwd if ROUTE_FORWARD.get(name) else seek
                got = "rerr " + rr["err"] if "err" in rr else toks(rr["vl"], rr["el"])
                if got != want:
                    pre = "nonseekable-evlr-gap: " if laid and ROUTE_FORWARD.get(name) else ""
                    add(f"{pre}{name}: records differ from the model's ({at}{', bytes between points and EVLRs' if laid else ''})", want[:300], got[:300])
            continue
        if not mo.startswith("ok "):
            merr = mo.split()[1] if mo.startswith("err ") else mo
            if g.get("werr") != merr:
                add(f"write refused by the model only ({at})" if "werr" not in g else f"different write error ({at})", mo, g.get("werr"))
            stop = gi
            continue
        if "werr" in g:
            add(f"write refused by the implementation only ({at})", mo[:80], g.get("werr_text", g["werr"]))
            stop = gi
            continue
        if cmd == "append":
            _, nvlr, off, nev, est, body, vrecs, erecs = mo.split(" ")
            body = common.unhex(body)
            vb, eb, blen = body[:int(off) - hs], (body[int(est) - hs:] if int(nev) else b""), len(body)
        else:
            _, nvlr, off, nev, est, blen, vb, eb, vrecs, erecs = mo.split(" ")
            vb, eb, body = common.unhex(vb), common.unhex(eb), None
        mloc = [int(nvlr), int(off), int(nev), int(est)]
        if g["hs"] != hs or g["loc0"] != mloc:
            add(f"header fields that locate the records differ ({at}): [number of VLRs, offset to points, number of EVLRs, start of first EVLR]", mloc, g["loc0"])
            stop = gi
            continue
        data = g["file0"]
        if data[hs:hs + len(vb)] != vb:
            add(f"VLR bytes are not the model's, right after the header ({at})", hx(vb)[:200], hx(data[hs:hs + len(vb)])[:200])
            stop = gi
            continue
        if "rerr" in g:
            add(f"written file cannot be read ({at})", mo[:80], g["rerr"])
            stop = gi
            continue
        if len(data) != hs + int(blen) or (mloc[2] and data[mloc[3]:] != eb):
            add(f"EVLR bytes are not the model's at start_of_first_evlr ({at})", f"{hs + int(blen)} bytes, evlrs {hx(eb)[:160]}", f"{len(data)} bytes, {hx(data[mloc[3]:])[:160] if mloc[2] else ''}")
            stop = gi
            continue
        if body is not None and data[hs:] != body:
            add(f"the file left by the append session is not the model's ({at})", f"first difference at {hs + first_diff(body, data[hs:])}", "")
            stop = gi
            continue
        loc = g["loc"]
        if g["hdr"] != (loc[1], loc[2], loc[3]):
            add(f"header object read differs from the header bytes ({at})", loc, g["hdr"])
        for where, items, mrecs, snaps in (("vlrs", v, vrecs, g["vl"]), ("evlrs", e, erecs, g["el"])):
            irecs = "none" if snaps is None else ("|".join(snap_tok(x) for x in snaps) if snaps else "-")
            if irecs != mrecs:
                ml, il = mrecs.split("|"), irecs.split("|")
                j = next((i for i in range(min(len(ml), len(il))) if ml[i] != il[i]), min(len(ml), len(il)))
                tag = items[j]["rec"][4] if items and j < len(items) else "count"
                add(f"{where}: record read back differs ({tag}) ({at})", ml[j][:300] if j < len(ml) else "<none>", il[j][:300] if j < len(il) else "<none>")
                stop = gi
                break


def item_of_snap(x):
    """what a user holds, as the model driver reads it: a raw record, or a parsed record saying its content"""
    ids = [hx(x["uid"]), str(x["rid"]), hx(x["desc"])]
    if x["cls"] == "VLR":
        return ":".join(ids + [hx(x["data"])])
    return "e" + ":".join([x["cls"]] + ids + [x["content"]])


def snaps_tok(l):
    return "|".join(snap_tok(x) for x in l) if l else "-"


def correspond_ops(case, res, dis):
    """every operation against header_op / set_content of the model (the list before it -> the list after it), and
    what is written and read at the end against write_known / write_file_known + read"""
    def add(kind, model, impl):
        dis.append({"kind": "ops: " + kind, "input": case_json(case), "model": str(model)[:300], "impl": str(impl)[:300]})
    isfile = case["form"] == "file"
    g0 = res["g0"]
    if "vl" not in g0:
        return
    cmds, what = [], []
    prev = g0
    for k, st in enumerate(res["steps"]):
        if "err" in st:
            add(f"operation refused by the implementation ({st['op'][0]})", "the model has no refusal here", st["err"])
            return
        op = st["op"]
        if op[0] == "edit":
            i = edited_index(prev, op)
            l = st["vl"] if op[1] == "v" else st["el"]
            if i is not None and l[i]["cls"] != "VLR":
                cmds.append("edit " + item_of_snap(l[i]))
                what.append(("edit", k, l[i]))
        elif isfile:
            ebs = [x for x in st["vl"] if x["cls"] == "ExtraBytesVlr"]
            gen = item_of_snap(ebs[-1]) if ebs and st["dims"] else "none"
            cmds.append(f"op {HEADER_METHOD[op[0]] or '-'} {'|'.join(item_of_snap(x) for x in prev['vl']) or '-'} {gen}")
            what.append(("op", k, st))
        prev = st
    g1 = res.get("g1")
    if g1 is not None:
        if isfile:
            ver = prev.get("ver", case["version"])
            hs, v14 = HEADER_SIZES[ver], ver == "1.4"
            handed = v14 and prev["el"] is not None and case["via"] != "writer-noevlrs"
            etok = ('|'.join(item_of_snap(x) for x in prev['el']) or '-') if handed else 'none'
            if case["via"] == "append":
                p0 = g0["loc"][1] + g0["npts"]
                newpts = g1["file0"][p0:p0 + g1["npts"] - g0["npts"]] if "file0" in g1 else b""
                cmds.append(f"append {hs} {'T' if v14 else 'F'} {g0['loc'][0]} {g0['loc'][1]} {g0['loc'][2]} {g0['loc'][3]} {g0['npts']} "
                            f"{hx(g0['file'][hs:])} {hx(newpts)} {etok}")
            else:
                cmds.append(f"file {hs} {'T' if v14 else 'F'} {g0['loc'][2]} {g0['loc'][3]} {'|'.join(item_of_snap(x) for x in prev['vl']) or '-'} "
                            f"{g1.get('npts', 0)} {etok}")
        else:
            cmds.append(f"wk {'T' if case['ext'] else 'F'} {'|'.join(item_of_snap(x) for x in prev['vl']) or '-'}")
        what.append(("write", None, prev))
    for (kind, k, st), mo in zip(what, common.run_model(cmds, name="c08")):
        if kind == "edit":
            shown, again = mo.split(" ", 1)
            if shown != snap_tok(st):
                add(f"an edited {CLS_OF_NAME.get(st['cls'], st['cls'])} record does not serialise to what it says (operation {k})", shown, snap_tok(st))
            continue
        if kind == "op":
            if mo != snaps_tok(st["vl"]):
                ml, il = mo.split("|"), snaps_tok(st["vl"]).split("|")
                j = next((i for i in range(min(len(ml), len(il))) if ml[i] != il[i]), min(len(ml), len(il)))
                add(f"the VLR list after {st['op'][0]} differs (operation {k}, position {j}; {len(ml) if mo != '-' else 0} records in the model, {len(st['vl'])} in the implementation)",
                    ml[j] if j < len(ml) else "<none>", il[j] if j < len(il) else "<none>")
            continue
        if not mo.startswith("ok "):
            merr = mo.split()[1] if mo.startswith("err ") else mo
            if g1.get("werr") != merr:
                add("write refused by the model only" if "werr" not in g1 else "different write error", mo, g1.get("werr"))
            continue
        if "werr" in g1:
            add("write refused by the implementation only", mo[:80], g1.get("werr_text", g1["werr"]))
            continue
        if "rerr" in g1:
            add("written records cannot be read", mo[:80], g1["rerr"])
            continue
        if not isfile:
            _, mbytes, mrecs = mo.split(" ")
            if common.unhex(mbytes) != g1["bytes"]:
                add("bytes written after the operations differ", f"first difference at {first_diff(common.unhex(mbytes), g1['bytes'])}: {mbytes[:160]}", hx(g1["bytes"])[:160])
            elif mrecs != snaps_tok(g1["vl"]):
                add("records read after the operations differ", mrecs, snaps_tok(g1["vl"]))
            continue
        data = g1["file0"]
        if case["via"] == "append":
            _, nvlr, off, nev, est, body, vrecs, erecs = mo.split(" ")
            body = common.unhex(body)
            vb, eb, blen = body[:int(off) - hs], (body[int(est) - hs:] if int(nev) else b""), len(body)
            if data[hs:] != body:
                add("the file left by the append session after the edits is not the model's", f"first difference at {hs + first_diff(body, data[hs:])}", f"{len(data)} bytes")
                continue
        else:
            _, nvlr, off, nev, est, blen, vb, eb, vrecs, erecs = mo.split(" ")
            vb, eb = common.unhex(vb), common.unhex(eb)
        mloc = [int(nvlr), int(off), int(nev), int(est)]
        if g1["hs"] != hs or g1["loc0"] != mloc:
            add("header fields that locate the records differ after the operations", mloc, g1["loc0"])
        elif data[hs:hs + len(vb)] != vb:
            add("VLR bytes written after the operations are not the model's", f"first difference at {hs + first_diff(vb, data[hs:hs + len(vb)])}", hx(data[hs:hs + len(vb)])[:160])
        elif len(data) != hs + int(blen) or (mloc[2] and data[mloc[3]:] != eb):
            add("EVLR bytes written after the operations are not the model's", f"{hs + int(blen)} bytes", f"{len(data)} bytes")
        else:
            for where, mrecs, snaps in (("vlrs", vrecs, g1["vl"]), ("evlrs", erecs, g1["el"])):
                irecs = "none" if snaps is None else snaps_tok(snaps)
                if irecs != mrecs:
                    ml, il = mrecs.split("|"), irecs.split("|")
                    j = next((i for i in range(min(len(ml), len(il))) if ml[i] != il[i]), min(len(ml), len(il)))
                    add(f"{where}: record read back after the operations differs", ml[j] if j < len(ml) else "<none>", il[j] if j < len(il) else "<none>")
                    break


def correspond(ctx):
    ctx.extra["rule"] = (
        "record lists of 0..20 records (known classes 60%: well-formed / normalisable / malformed payloads of classification lookup, "
        "extra bytes, waveform descriptor (record ids over all of 100..355), GeoKeyDirectory, GeoDoubleParams, GeoAsciiParams, both "
        "WKT records, LasZip; bursts of the same class; near-miss records = a parsable known-class payload under a user id that "
        "differs from the official one by blanks / case / one character, or under a neighbouring record id; unknown records "
        "with exact, near-miss and random user ids of every length 0..16 incl. punctuation, descriptions of every length 0..32, "
        "record ids around the official ones, payloads empty/1/65535/65536 bytes, handed over as bytes or bytearray) written and "
        "read through VLRList (VLR and EVLR form) and attached to real 1.2/1.3/1.4 files (30% with extra dimensions whose "
        "extra-bytes record, with arbitrary descriptor bytes, sits anywhere in the VLR list; built on LasHeader or laspy.create) "
        "written by one of 13 ways of writing (LasData.write to stream / disk / twice / from a copied header / next to a second "
        "LasData sharing header and lists / explicit options / list attached through the header; LasWriter by laspy.open, the "
        "class, a path, with options, write_evlrs called or not, with block left by an exception), then carried through 1..3 "
        "further generations: the lists that were read are edited (remove / insert / clear / replace / reverse / move / payload "
        "edited in place or record replaced / same object twice, incl. removing every EVLR) and written again by one of those "
        "ways, or converted (laspy.convert to another point format / version, incl. a downgrade that cannot keep EVLRs) and "
        "written, or an append session is run on the file (laspy.open(mode='a') on a stream or path, or LasAppender; chunks of "
        "0..3 points: none, only empty ones, some; the .evlrs list edited in every way, or given to a file that had none; closed "
        "by with / close() / an exception); 1.4 files are in 30-35% of the generations laid out with 1..333 bytes (zeros, 0xFF, "
        "noise, a decoy record) between the last point and the first EVLR and/or bytes behind the last EVLR and/or 0xAABB record "
        "signatures before they are read; every generation is read by laspy.read(stream) and by 1-2 (dedicated cases: all 23) "
        "other ways of opening: bytes, path, pathlib, file object, laspy.open / LasReader with EVLRs at opening or deferred "
        "(read(), after chunk_iterator, after read_points, after seek, read_evlrs()), LasHeader.read_from, mmap, non-seekable "
        "and read()-only sources; all in one process; plus the dispatch of (user id, record id) pairs and serialisation of "
        "user-built lookups; plus OPERATIONS between reading and writing (mode ops): files (1.2-1.4, with / without extra "
        "dimensions) whose VLRs and EVLRs hold well-formed and malformed (kept raw) records of every known type, incl. raw "
        "LASF_Spec/4 records and two of a kind adjacent, read, then 1..5 of: add / remove extra dimensions (one by one / at once), "
        "las.vlrs = list / VLRList / the same object / header.vlrs = tuple / iterator / copy, laspy.convert (other format, "
        "explicit version, downgrade), header.point_format = , set_version_and_point_format, update_header, las[mask / slice / "
        "indices], las.points = , LasData on the same / a deep-copied header, and edits of the content of a parsed record "
        "through its public attributes (.string / .strings / .lookups / .doubles / .geo_keys(+header) / .parsed_record / "
        ".extra_bytes_structs / .record_data: shorter, longer, proper prefix of the old value, empty, unrelated, same length, "
        "stripped, entries appended / removed, one over-long lookup name), then written by one of the 13 ways or left by an "
        "append session, and read; the same edits through VLRList.read_from / write_to (VLR and EVLR form); dedicated cases: "
        "every operation x file without / with extra dimensions, every class x every edit x well-formed / normalisable / "
        "malformed payload. non-trivial = two or more records, or a known-class record, or a full-width id/description, or a "
        "payload at the length limit, or a history with edits / append sessions / a layout; distinct by (placement, records, "
        "history incl. ways of writing, chunks, layout)")
    dis = []
    rs = runs(ctx)
    cmds, slots = [], []
    for idx, (case, res) in enumerate(rs):
        if case["mode"] == "list":
            cmds.append(f"rt {'T' if case['ext'] else 'F'} {recs_tok(case['recs'])}")
            slots.append(idx)
    outs = dict(zip(slots, common.run_model(cmds, name="c08")))
    for idx, (case, res) in enumerate(rs):
        ctx.traces += 1
        allrecs = list(case["recs"]) + list(case.get("erecs") or [])
        edits = [ed for st in steps_of(case) for ed in st["edits"]] if case["mode"] == "file" else []
        special = case["mode"] == "file" and (bool(case.get("spread")) or any(st["via"] in ("append", "convert") or st.get("spread") for st in steps_of(case)))
        ctx.case((case["mode"], case.get("ext"), case.get("version"), case.get("via"), [(u, r, d, len(p), hash(p), t) for u, r, d, p, t in allrecs],
                  repr([case.get("spread"), case.get("make"), case.get("ptypes")]
                       + [(st["via"], st.get("chunks"), st.get("open"), st.get("end"), st.get("to"), st.get("spread"), [(ed[0], ed[1], len(ed)) for ed in st["edits"]]) for st in steps_of(case)]) if case["mode"] == "file" else repr(case.get("ops"))),
                 nontrivial=nontrivial(allrecs) or bool(edits) or special or case["mode"] == "ops",
                 sample={"mode": case["mode"], "records": [[u.decode(), r, d.decode(), len(p), t] for u, r, d, p, t in allrecs[:4]],
                         "history": [[st["via"]] + [ed[0] + ":" + ed[1] for ed in st["edits"]] for st in steps_of(case)] if case["mode"] == "file" else case.get("ops")})
        if case["mode"] == "ops":
            ctx.count(f"ops:{case['form']}:" + (case["via"] if case["form"] == "file" else ("evlr" if case["ext"] else "vlr")))
            for op in case["ops"]:
                ctx.count("operation between read and write: " + op[0] + (":" + op[1] if op[0] in ("add", "rem", "setvlrs", "select", "relist") else ""))
                if op[0] == "edit":
                    ctx.count("edit of a record's content: " + op[3])
            for st, before in zip(res.get("steps", []), [res.get("g0")] + res.get("steps", [])):
                if st["op"][0] == "edit" and "vl" in before:
                    i = edited_index(before, st["op"])
                    if i is not None:
                        ctx.count("edited record: " + CLS_OF_NAME.get((before["vl"] if st["op"][1] == "v" else before["el"])[i]["cls"], "?"))
            if case["form"] == "file" and any(r[4] == "extra/bad" for r in case["recs"]):
                ctx.count("ops: file VLRs hold a LASF_Spec/4 record kept raw")
            if case["form"] == "file" and any(r[4] == "extra/wf" for r in case["recs"]):
                ctx.count("ops: file with extra dimensions")
        else:
            ctx.count(f"{case['mode']}:{'evlr' if case.get('ext') else 'vlr'}" if case["mode"] == "list" else f"file:{case['version']}:{case['via']}")
        for rec in allrecs:
            ctx.count("record:" + rec[4])
        ctx.count(f"list length {len(allrecs) if len(allrecs) < 5 else '5+'}")
        if case["mode"] == "file":
            ctx.count(f"file generations {1 + len(steps_of(case))}")
            for ed in edits:
                ctx.count(f"edit:{ed[0]}:{ed[1]}")
            for st in steps_of(case):
                ctx.count("rewrite via " + st["via"])
                if st["via"] == "append":
                    ch = st["chunks"]
                    ctx.count("append session: " + ("nothing appended" if not ch else "only empty chunks" if not any(ch) else "points appended")
                              + (", EVLR list edited" if st["edits"] else ", list untouched"))
            for sp in [case.get("spread")] + [st.get("spread") for st in steps_of(case)]:
                if sp:
                    ctx.count("layout: " + ", ".join(x for x in (f"gap ({sp[0]})" if sp[1] else "", "tail" if sp[2] else "", "0xAABB signatures" if len(sp) > 3 and sp[3] else "") if x))
            for g in res.get("gens", []):
                for name in g.get("routes", {}):
                    ctx.count("read by " + name)
                    ctx.traces += 1
            if any(r[4].startswith("extra/") for r in case["recs"]):
                ctx.count("file with extra dimensions")
        if "crash" in res:
            dis.append({"kind": "implementation crashed while reading what it wrote", "input": case_json(case), "model": outs.get(idx, ""), "impl": res["crash"] + " " + res.get("tb", "")})
            continue
        if case["mode"] == "list":
            compare_list("list", case["recs"], case["ext"], outs[idx], res.get("werr"), res.get("gen1"), res.get("w2err"), res.get("gen2"),
                         res.get("bytes"), res.get("bytes2"), case, dis)
        elif case["mode"] == "ops":
            correspond_ops(case, res, dis)
        else:
            correspond_file(case, res, dis)
    dis += correspond_dispatch(ctx)
    dis += correspond_ser_lookup(ctx)
    return dis


def correspond_dispatch(ctx):
    """which class vlr_factory selects, for exact and near-miss user ids x record ids (192 zero bytes parse under every class)"""
    import laspy
    from laspy.vlrs.known import vlr_factory
    rng = ctx.rng
    uids = [U_SPEC, U_PROJ, U_LASZIP, b"LASF_Spec ", b"lasf_spec", b"LASF_Spe", b"LASF_Projectio", b"", b"laszip encode", b"X",
            b" LASF_Spec", b"LASF_Spec       ", b"LASF_Projection ", b" LASF_Projection", b"laszip encoded ", b" laszip encoded",
            b"LASF_SPEC", b"Lasf_Projection", b"LASF Spec", b"laszip_encoded"]
    if ctx.thorough():
        rids = list(range(65536))
    else:
        rids = sorted(set(list(range(0, 420)) + list(range(2100, 2125)) + list(range(22190, 22215)) + list(range(34720, 34750))
                          + [65535, 65534, 1000, 32768] + [rng.randrange(65536) for _ in range(300)]))
    pairs = [(u, r) for u in uids[:3] for r in rids] + [(u, r) for u in uids[3:] for r in (0, 4, 100, 355, 2111, 2112, 22204, 34735, 34736, 34737)]
    outs = common.run_model([f"class {hx(u)} {r}" for u, r in pairs], name="c08")
    dis, payload = [], bytes(192)
    for (u, r), mo in zip(pairs, outs):
        got = type(vlr_factory(laspy.VLR(u.decode(), r, "", payload))).__name__
        table, spec = mo.split(" ")
        want = "VLR" if table == "none" else table.split("/")[0]
        ctx.traces += 1
        ctx.evaluations += 1
        if want != got or table != spec:
            dis.append({"kind": "dispatch differs", "input": {"user_id": u.decode(), "record_id": r}, "model": mo, "impl": got})
            if len(dis) > 5:
                break
    ctx.count("dispatch pairs", len(pairs))
    return dis


def correspond_ser_lookup(ctx):
    from laspy.vlrs.known import ClassificationLookupVlr
    rng = ctx.rng
    cases = []
    for _ in range(ctx.n(60, 600)):
        n = rng.choice([0, 1, 2, 3, 6])
        ents = []
        for _ in range(n):
            ln = rng.choice([0, 1, 14, 15, 15, 16, 17, rng.randrange(0, 16)]) if rng.random() < 0.5 else rng.randrange(0, 16)
            ents.append((rng.randrange(256), rtext(rng, ln, PRINTABLE if rng.random() < 0.5 else PUNCT)))
        cases.append(ents)
    outs = common.run_model(["ser_lookup " + commas(f"{k}={hx(d)}" for k, d in dict_items(e)) for e in cases], name="c08")
    dis = []
    for ents, mo in zip(cases, outs):
        v = ClassificationLookupVlr()
        for k, d in ents:
            v[k] = d.decode("ascii")
        try:
            im = "ok " + hx(v.record_data_bytes())
        except Exception as ex:  # noqa
            im = "err " + common.exc_kind(ex)
        ctx.traces += 1
        ctx.case(("ser_lookup", ents), nontrivial=bool(ents))
        ctx.count("user-built lookup")
        if im != mo:
            dis.append({"kind": "user-built lookup serialises differently", "input": {"entries": [[k, d.decode()] for k, d in ents]}, "model": mo[:200], "impl": im[:200]})
    return dis


def dict_items(ents):
    d = {}
    for k, v in ents:
        d[k] = v
    return list(d.items())


# ---------------------------------------------------------------------------------
# the property on the implementation (no model)
# ---------------------------------------------------------------------------------
def check_list(where, recs, limit, werr, gen1, w2err, gen2, partial=None, final=True):
    """-> list of (kind, observed); limit = 65535 for the VLR form, None for EVLRs"""
    out = []
    over = [i for i, r in enumerate(recs) if limit is not None and len(r[3]) > limit]
    if werr is not None:
        if over and werr == "EValue":
            if partial is not None and len(partial) > sum(54 + len(r[3]) for r in recs[:over[0]]) + 54:
                out.append((f"{where}: over-long payload partly written before being refused", f"{len(partial)} bytes written"))
            return out
        return [(f"{where}: well-formed list refused", f"write raised {werr}")]
    if over:
        g = gen1[over[0]] if gen1 and over[0] < len(gen1) else None
        return [(f"{where}: over-long VLR payload not refused", f"payload of {len(recs[over[0]][3])} bytes written; read back {len(g.get('data', b'')) if g else '?'} bytes")]
    if gen1 is None:
        return [(f"{where}: records not read back", "list is None")]
    if len(gen1) != len(recs):
        return [(f"{where}: number of records changed", f"{len(recs)} written, {len(gen1)} read")]
    for i, ((uid, rid, desc, p, tag), s) in enumerate(zip(recs, gen1)):
        cls, kind = (tag.split("/") + [""])[:2]
        pre = f"{where}[{i}] {tag}"
        if s["uid"] != uid:
            out.append((f"{where}: user id changed", f"{pre}: {uid!r} -> {s['uid']!r}"))
        if s["rid"] != rid:
            out.append((f"{where}: record id changed", f"{pre}: {rid} -> {s['rid']}"))
        if s["desc"] != desc:
            out.append((f"{where}: description changed", f"{pre}: {desc!r} -> {s['desc']!r}"))
        if s["cls"] == "VLR":
            if s["data"] != p:
                out.append((f"{where}: payload of a raw record changed", f"{pre}: {len(p)} bytes -> {len(s['data'])} bytes, first difference at {first_diff(p, s['data'])}"))
            if kind in ("wf", "norm"):
                out.append((f"{where}: {cls} payload laspy understands was not parsed", f"{pre}: {hx(p)[:80]} kept raw"))
        else:
            if tag in RAW_TAGS:
                out.append((f"{where}: record of no known type was parsed", f"{pre}: became {s['cls']}"))
            if kind == "bad":
                out.append((f"{where}: malformed {cls} payload not kept raw", f"{pre}: {hx(p)[:80]} became {s['cls']} {s['content'][:60]}"))
            if s["ser"] is None:
                out.append((f"{where}: parsed {cls} record cannot be serialised", f"{pre}: record_data_bytes() raised {s['ser_err']}"))
            elif kind == "wf" and s["ser"] != p:
                out.append((f"{where}: well-formed {cls} payload not byte identical", f"{pre}: {hx(p)[:80]} -> {hx(s['ser'])[:80]} (first difference at {first_diff(p, s['ser'])})"))
    if out or not final:
        return out
    grew = [s for s in gen1 if s["cls"] != "VLR" and limit is not None and s["ser"] is not None and len(s["ser"]) > limit]
    if w2err is not None:
        if w2err.startswith("skipped"):
            out.append((f"{where}: parsed records serialise to far more bytes than were read", w2err))
        elif not (grew and w2err == "EValue"):
            out.append((f"{where}: what was read cannot be written again", f"second write raised {w2err}"))
        return out
    if grew:
        return [(f"{where}: over-long normalised payload not refused", f"{len(grew[0]['ser'])} bytes")]
    if gen2 is None or len(gen2) != len(gen1):
        return [(f"{where}: second generation lost records", f"{len(gen1)} -> {None if gen2 is None else len(gen2)}")]
    for i, (a, b) in enumerate(zip(gen1, gen2)):
        if a != b:
            cls = recs[i][4].split("/")[0]
            diff = [k for k in a if a.get(k) != b.get(k)]
            out.append((f"{where}: parsed {cls} content not stable across a second write/read", f"[{i}] {recs[i][4]}: fields {diff} differ: {str({k: a.get(k) for k in diff})[:120]} vs {str({k: b.get(k) for k in diff})[:120]}"))
    return out


def first_diff(a, b):
    for i in range(min(len(a), len(b))):
        if a[i] != b[i]:
            return i
    return min(len(a), len(b))


def oracle(case, res):
    if "crash" in res:
        return [("reading back what was written crashed", res["crash"])]
    if case["mode"] == "list":
        return check_list("evlr list" if case["ext"] else "vlr list", case["recs"], None if case["ext"] else 65535,
                          res.get("werr"), res.get("gen1"), res.get("w2err"), res.get("gen2"), res.get("partial"))
    if case["mode"] == "ops":
        return oracle_ops(case, res)
    return oracle_file(case, res)


def expected_dims(dims, op):
    if op[0] == "add":
        return dims + [x[0] for x in op[2]]
    if op[0] == "rem":
        return [d for d in dims if d not in op[2]]
    return dims


def brief(s):
    return snap_tok(s)[:70]


def shown(z):
    return None if z is None else (z["cls"] + " " + (hx(z["data"]) if z["cls"] == "VLR" else z["content"]))[:160]


def oracle_ops(case, res):
    """what was read goes through operations that do not concern the records (or that edit one of them) and is written:
    after every operation the lists hold the other records verbatim and in order (the record that describes the extra
    dimensions is the file machinery's: one, iff there are extra dimensions, naming them); the file written holds what
    the records say then"""
    isfile = case["form"] == "file"
    g0 = res["g0"]
    if "werr" in g0:
        return [("ops: well-formed record lists refused", f"write raised {g0['werr']}")]
    if "rerr" in g0:
        return [("ops: what was written cannot be read back", g0["rerr"])]
    lim = 65535 if isfile or not case["ext"] else None
    found = check_list("file vlrs" if isfile else ("evlr list" if case["ext"] else "vlr list"), case["recs"], lim, None, g0["vl"], None, None, final=False)
    if isfile and case["erecs"] is not None:
        found += check_list("file evlrs", case["erecs"], None, None, g0["el"], None, None, final=False)
    if found:
        return found
    prev, dims = g0, list(g0.get("dims", []))
    el_ref, lost = g0["el"], False
    for k, st in enumerate(res["steps"]):
        op = st["op"]
        name = op[0] + (":" + str(op[1]) if op[0] in ("add", "rem", "setvlrs", "select", "relist") else "")
        at = f"operation {k} {op[:4]}"
        if "err" in st:
            return [(f"ops: {name}: an operation on what was read is refused", f"{at}: {st['err']}")]
        idx = edited_index(prev, op) if op[0] == "edit" else None
        for which, key in (("v", "vl"), ("e", "el")):
            a, b = prev[key], st[key]
            if key == "el":
                # a version older than 1.4 cannot hold EVLRs in a file ("they will be lost"): whatever list lingers in
                # memory meanwhile is not judged; back at 1.4 the list is the old one, or none
                a = el_ref
                if st.get("ver", "1.4") < "1.4":
                    lost = True
                    continue
                if lost:
                    if b not in (None, [], el_ref):
                        return [("ops: convert: EVLRs that were never attached appear", f"{at}: {len(b)} records")]
                    lost, el_ref = False, b
                    continue
                el_ref = b
            if a is None and b is None:
                continue
            if a is None or b is None:
                return [(f"ops: {name}: the {key[0].upper()}LR list appeared or disappeared", f"{at}: {None if a is None else len(a)} records -> {None if b is None else len(b)}")]
            ia = [(i, x) for i, x in enumerate(a) if not (isfile and key == "vl" and x["cls"] == "ExtraBytesVlr")]
            ib = [(i, x) for i, x in enumerate(b) if not (isfile and key == "vl" and x["cls"] == "ExtraBytesVlr")]
            listname = "VLR" if key == "vl" else "EVLR"
            if len(ia) != len(ib):
                gone = [brief(x) for _, x in ia if x not in [y for _, y in ib]]
                return [(f"ops: {name}: records it does not concern were removed from (or added to) the {listname} list",
                         f"{at}: {len(ia)} records before, {len(ib)} after; missing: {gone[:3]}")]
            for (i, x), (_, y) in zip(ia, ib):
                if op[0] == "edit" and op[1] == which and i == idx:
                    if (x["cls"], x["uid"], x["rid"], x["desc"]) != (y["cls"], y["uid"], y["rid"], y["desc"]):
                        return [("ops: edit: editing the content of a record changed its class, identifiers or description", f"{at}: {brief(x)} -> {brief(y)}")]
                elif x != y:
                    return [(f"ops: {name}: a record it does not concern is not kept verbatim and in order in the {listname} list",
                             f"{at}: position {i}: {brief(x)} -> {brief(y)}")]
        if isfile and "dims" in st:
            dims = expected_dims(dims, op)
            ebs = [x for x in st["vl"] if x["cls"] == "ExtraBytesVlr"]
            names = [eb_names(common.unhex(x["content"].split("/", 1)[1])) for x in ebs]
            if st["dims"] != dims or st["pdims"] != dims:
                return [(f"ops: {name}: the extra dimensions are not the ones expected", f"{at}: header {st['dims']}, points {st['pdims']}, expected {dims}")]
            if names != ([dims] if dims else []):
                return [(f"ops: {name}: the extra-bytes record does not describe the extra dimensions", f"{at}: records naming {names}, dimensions {dims}")]
        prev = st
    for lf in res.get("left", []):
        for key in ("vl", "el"):
            if lf["then"][key] != lf["now"][key]:
                a, b = lf["then"][key] or [], lf["now"][key] or []
                j = next((i for i in range(min(len(a), len(b))) if a[i] != b[i]), min(len(a), len(b)))
                made_by = res["steps"][lf["op"]]["op"][0]
                kind = ("convert-shares-evlrs: laspy.convert gives the converted LasData the EVLR record objects of its source (the VLRs are copies): editing one edits the other"
                        if made_by == "convert" and key == "el" else
                        "ops: operations on a converted / selected / copied LasData changed the records of the LasData it was made from")
                return [(kind,
                         f"made by operation {lf['op']} {res['steps'][lf['op']]['op'][:3]}; {'VLR' if key == 'vl' else 'EVLR'} list of the source then {len(a)} records, now {len(b)}; "
                         f"position {j}: {shown(a[j] if j < len(a) else None)} -> {shown(b[j] if j < len(b) else None)}; operations {[o['op'][:4] for o in res['steps']]}")]
    g1 = res.get("g1")
    if g1 is None:
        return []
    long_name = any(x["cls"] == "ClassificationLookupVlr" and any(len(e.split("=")[1]) > 31 for e in x["content"][1:].split(",") if "=" in e)
                    for x in (prev["vl"] + (prev["el"] or [])))
    if "werr" in g1:
        if long_name and g1["werr"] == "EValue":
            return []
        return [("ops: what was read and operated on cannot be written", f"write ({case.get('via', 'write_to')}) raised {g1.get('werr_text', g1['werr'])}")]
    if long_name:
        x = next(x for x in (prev["vl"] + (prev["el"] or [])) if x["cls"] == "ClassificationLookupVlr")
        y = next((y for y in (g1.get("vl", []) + (g1.get("el") or [])) if y["cls"] == "ClassificationLookupVlr"), None)
        return [("ops: a lookup name longer than its 15-byte field was not refused",
                 f"the record says {x['content'][:120]}; written without an error; the file reads {y['content'][:120] if y else '?'}")]
    if "rerr" in g1:
        return [("ops: what was written after the operations cannot be read back", g1["rerr"])]
    want_e = prev["el"]
    if isfile:
        v14 = prev.get("ver", case["version"]) == "1.4"
        want_e = None if not v14 else [] if (want_e is None or case["via"] == "writer-noevlrs") else want_e
    edited = {(op[1], edited_index(p, op)) for p, op in zip([g0] + res["steps"], [st["op"] for st in res["steps"]]) if op[0] == "edit"}
    for which, want, got in (("v", prev["vl"], g1["vl"]), ("e", want_e, g1["el"])):
        listname = "VLR" if which == "v" else "EVLR"
        if want is None or got is None:
            if want is not got:
                return [(f"ops: the file written has {'an' if got is not None else 'no'} {listname} list", f"{None if want is None else len(want)} attached, {None if got is None else len(got)} read")]
            continue
        if len(want) != len(got):
            return [(f"ops: the file written does not hold the {listname}s that were attached (number of records)", f"{len(want)} attached, {len(got)} read")]
        for i, (x, y) in enumerate(zip(want, got)):
            if said_key(x) != said_key(y):
                cls = CLS_OF_NAME.get(x["cls"], x["cls"])
                kind = (f"ops: the file written does not hold what the edited {cls} record says" if (which, i) in edited
                        else f"ops: the file written does not hold the {listname}s as they were after the operations")
                return [(kind, f"{listname} {i} ({hx(x['uid'])}/{x['rid']}): the record says {shown(x)}, the file reads {shown(y)}; operations {[o['op'][:4] for o in res['steps']]}")]
    if isfile:
        return check_routes(g1, "after the operations")
    return []


FINDING_PREFIXES = ("nonseekable-evlr-gap:", "append-resized-vlr:", "convert-shares-evlrs:")


def vlr_room_changes(g):
    """the VLRs that were read do not serialise to the room they have in the file (between the header and the points)"""
    room = g["loc"][1] - g["hs"]
    need = sum(54 + len(x["data"] if x["cls"] == "VLR" else (x["ser"] or b"")) for x in g["vl"])
    return room != need


def has_gap(g):
    """the first EVLR of the file that was read does not start where its points end"""
    return g["loc"][2] > 0 and g["loc"][3] != g["loc"][1] + g.get("npts", 0)


def check_routes(g, at):
    """every way of opening / reading the file gives the lists laspy.read(stream) gives"""
    laid = has_gap(g)
    bad = {}
    for name, rr in g.get("routes", {}).items():
        if "err" in rr:
            what, obs = "fails", rr["err"]
        elif rr["vl"] != g["vl"]:
            what, obs = "gives other VLRs", f"{len(rr['vl'])} records: {str([snap_tok(x)[:60] for x in rr['vl'][:3]])[:200]}"
        elif rr["el"] != g["el"]:
            what = "gives other EVLRs"
            obs = "None" if rr["el"] is None else f"{len(rr['el'])} records: {str([snap_tok(x)[:60] for x in rr['el'][:3]])[:200]}"
            obs += f" instead of {None if g['el'] is None else len(g['el'])}: {str([snap_tok(x)[:60] for x in (g['el'] or [])[:3]])[:200]}"
        else:
            continue
        if laid and ROUTE_FORWARD.get(name):
            kind = "nonseekable-evlr-gap: a source that cannot seek does not find EVLRs that do not follow the points directly"
        else:
            kind = (f"reading: another way of opening the file {what} where laspy.read(stream) reads it"
                    + (" (bytes between the last point and the first EVLR)" if laid else ""))
        bad.setdefault(kind, []).append((name, what, obs))
    out = []
    for kind, l in bad.items():
        name, what, obs = l[0]
        out.append((kind, f"{at}: {name} {what}: {obs}; header announces {g['loc'][2]} EVLRs at {g['loc'][3]}, points end at {g['loc'][1] + g['npts']}"
                    + (f"; likewise: {', '.join(n for n, _, _ in l[1:])}" if len(l) > 1 else "")))
    return out


def oracle_file(case, res):
    """every generation of the file holds the lists that were attached to it, in order; records that went through the
    reader come back as they were handed out; every way of reading gives the same lists"""
    out = []
    prev = {}            # sid -> what the reader handed out in the previous generation
    gprev = None
    for gi, ((v, e, via, handed, info), g) in enumerate(zip(history(case), res["gens"])):
        at = f"generation {gi} ({via})"
        if via == "append" and "werr" in g:
            # a refused session: acceptable only when the VLRs cannot be written back in place, and never at the price
            # of the records the file had
            resized = vlr_room_changes(gprev)
            after = g["after"]
            same = "err" not in after and after["vl"] == gprev["vl"] and after["el"] == gprev["el"] and after["npts"] == gprev["npts"]
            pre = "append-resized-vlr: " if resized else "file: "
            if not same:
                got = after.get("err") or f"{len(after['vl'])} VLRs, {None if after['el'] is None else len(after['el'])} EVLRs {str([snap_tok(x)[:50] for x in (after['el'] or [])[:2]])[:160]}, {after['npts']} point bytes"
                out.append((pre + "an append session that raised left other records (or points) in the file than it had",
                            f"{at}: {g['werr_text']}; the file had {len(gprev['vl'])} VLRs, {None if gprev['el'] is None else len(gprev['el'])} EVLRs, {gprev['npts']} point bytes; now: {got}"))
            elif not resized:
                out.append(("file: append session on a well-formed file refused", f"{at}: {g['werr_text']}"))
            return out
        over = [x for x in v if not x["k"] and len(x["rec"][3]) > 65535]
        grew = [x for x in v if x["k"] and prev.get(x.get("dup", x["sid"]), {}).get("ser") is not None and len(prev[x.get("dup", x["sid"])]["ser"]) > 65535]
        if "werr" in g:
            if (over or grew) and g["werr"] == "EValue":
                return out
            kind = "file: well-formed record lists refused" if gi == 0 else "file: what was read cannot be written again"
            return out + [(kind, f"{at}: write raised {g['werr']}")]
        if over:
            return out + [("file vlrs: over-long VLR payload not refused", f"{at}: payload of {len(over[0]['rec'][3])} bytes written")]
        if grew:
            return out + [("file vlrs: over-long normalised payload not refused", f"{at}: {len(prev[grew[0].get('dup', grew[0]['sid'])]['ser'])} bytes")]
        if "rerr" in g:
            return out + [("file: what was written cannot be read back", f"{at}: {g['rerr']}; header announces {g['loc'][2]} EVLRs at {g['loc'][3]}, "
                           f"{0 if not e or not handed else len(e)} were written, file of {len(g['file'])} bytes")]
        wh = "file after an append session, " if via == "append" else "file "
        found = check_list(wh + "vlrs", [x["rec"] for x in v], 65535, None, g["vl"], None, None, final=False)
        if e is not None:
            found += check_list(wh + "evlrs", [x["rec"] for x in e], None, None, g["el"], None, None, final=False)
            if not e and g["loc0"][2] != 0:
                found.append((wh + "evlrs: header announces records that were not written", f"{g['loc0'][2]} EVLRs at offset {g['loc0'][3]}, none attached"))
        elif g["el"] is not None:
            found.append(("file evlrs: a file older than 1.4 reads with an EVLR list", f"{len(g['el'])} records"))
        if via == "append" and gprev is not None and not found:
            want = gprev["npts"] + sum(info["step"]["chunks"]) * point_size_of(g)
            if g["npts"] != want:
                found.append(("file: append session lost or invented points", f"{gprev['npts']} point bytes before, chunks {info['step']['chunks']}, {g['npts']} after"))
        cur = {}
        for items, snaps in ((v, g["vl"]), (e or [], g["el"] or [])):
            if len(items) == len(snaps):
                for x, sn in zip(items, snaps):
                    cur[x["sid"]] = sn
                    src = x.get("dup", x["sid"])
                    if x["k"] and src in prev and prev[src] != sn:
                        a, cls = prev[src], x["rec"][4].split("/")[0]
                        diff = [k for k in a if a.get(k) != sn.get(k)]
                        found.append((f"file: parsed {cls} content not stable across a second write/read",
                                      f"{x['rec'][4]}: fields {diff} differ: {str({k: a.get(k) for k in diff})[:120]} vs {str({k: sn.get(k) for k in diff})[:120]}"))
        if not found and g.get("api"):
            found = [("list API: a selecting method of VLRList does not give the records of the list", "; ".join(g["api"])[:400])]
        if not found:
            found = check_routes(g, at)
        if found:
            out += [(k, f"{at}: {w}" if not w.startswith(at) else w) for k, w in found]
            if any(not k.startswith(FINDING_PREFIXES) for k, _ in found):
                return out
        prev = cur
        gprev = g
    if res.get("skipped"):
        out.append(("file: parsed records serialise to far more bytes than were read", res["skipped"]))
    return out


def point_size_of(g):
    """bytes per point of the file of a generation, from its header"""
    return int.from_bytes(g["file"][105:107], "little")


def utf8_cases(rng):
    """valid non-ASCII UTF-8 text in the text-bearing known types (search only: outside the model's text assumption)"""
    words = ["é", "ü", "ß", "日本", "Ωμ", "naïve", "sol_é", "→x", "😀"]
    cases = []
    for w in words:
        wb = w.encode("utf-8")
        if len(wb) <= 15:
            cases.append((U_SPEC, 0, b"utf-8 lookup", bytes([5]) + wb + b"\0" * (15 - len(wb)) + bytes([9]) + b"plain" + b"\0" * 10, "lookup/wf"))
        cases.append((U_PROJ, 2112, b"utf-8 wkt", b'PROJCS["' + wb + b'"]\0', "wkt/wf"))
        cases.append((U_PROJ, 2111, b"utf-8 wkt", b'PARAM_MT["' + wb + b'"]', "wktmath/norm"))
    out = []
    for i in range(0, len(cases), 3):
        out.append({"mode": "list", "ext": rng.random() < 0.5, "recs": cases[i:i + 3]})
        out.append({"mode": "file", "version": "1.4", "fmt": 6, "points": 1, "via": "write", "recs": cases[i:i + 3], "erecs": cases[i:i + 2]})
    # geokey count beyond 16 bits (EVLR only): 65536 + 3 entries
    import random as _r
    big = _r.Random(5).getrandbits(8 * 8 * 65539).to_bytes(8 * 65539, "little")
    out.append({"mode": "list", "ext": True, "recs": [(U_PROJ, 34735, b"more than 65535 keys", b"\1\0\1\0\0\0\0\0" + big, "geokeys/norm")]})
    return out


_UTF8_RUNS = None


def search(ctx, seeds):
    global _UTF8_RUNS
    failing, seen = [], set()

    def add(kind, case, why):
        if kind in seen:
            return
        seen.add(kind)
        failing.append({"kind": kind, "input": full_json(case), "observed": why})
    for case, res in runs(ctx):
        for kind, why in oracle(case, res):
            if kind not in seen:
                small = minimise(case, kind)
                if small is not case:
                    try:    # what is observed on the shrunk input (the one that is reported)
                        why = next((w for k, w in oracle(small, run_case(small)) if k == kind), why)
                    except Exception:  # noqa
                        small = case
                add(kind, small, why)
    if _UTF8_RUNS is None:
        _UTF8_RUNS = []
        for case in utf8_cases(ctx.rng):
            try:
                res = run_list(case) if case["mode"] == "list" else run_file(case)
            except Exception as ex:  # noqa
                res = {"crash": f"{type(ex).__name__}: {ex}"}
            _UTF8_RUNS.append((case, res))
    for case, res in _UTF8_RUNS:
        ctx.evaluations += 1
        ctx.count("search only: utf-8 text / >65535 geokeys")
        for kind, why in oracle(case, res):
            add("non-ASCII text: " + kind if case["recs"][0][2].startswith(b"utf-8") else kind, case, why)
    failing.sort(key=lambda f: f["kind"].startswith(FINDING_PREFIXES) or f["kind"].startswith("non-ASCII text: " + FINDING_PREFIXES[0]))
    return failing[:8]


def run_case(case):
    return run_list(case) if case["mode"] == "list" else run_ops(case) if case["mode"] == "ops" else run_file(case)


def minimise(case, kind):
    """shrink the record lists and the history while the same kind of failure is observed (at most 40 re-runs)"""
    cur = case
    budget = [40]

    def still(cand):
        if budget[0] <= 0:
            return False
        budget[0] -= 1
        try:
            return kind in [k for k, _ in oracle(cand, run_case(cand))]
        except Exception:  # noqa
            return False
    for key in ("recs", "erecs"):
        if cur.get(key) is None:
            continue
        i = 0
        while i < len(cur[key]) and len(cur[key]) > 1:
            cand = dict(cur)
            cand[key] = cur[key][:i] + cur[key][i + 1:]
            if still(cand):
                cur = cand
            else:
                i += 1
    if cur.get("mode") == "ops":
        i = 0
        while i < len(cur["ops"]) and len(cur["ops"]) > 1:
            cand = dict(cur, ops=cur["ops"][:i] + cur["ops"][i + 1:])
            if still(cand):
                cur = cand
            else:
                i += 1
        if cur.get("via") not in (None, "write"):
            cand = dict(cur, via="write")
            if still(cand):
                cur = cand
    if "steps" in cur:
        # shorter history: drop trailing generations, then single edits
        while len(cur["steps"]) > 0:
            cand = dict(cur)
            cand["steps"] = cur["steps"][:-1]
            if still(cand):
                cur = cand
            else:
                break
        for si in range(len(cur["steps"])):
            ei = 0
            while ei < len(cur["steps"][si]["edits"]):
                cand = dict(cur)
                cand["steps"] = [dict(st, edits=[ed for j, ed in enumerate(st["edits"]) if (i, j) != (si, ei)]) for i, st in enumerate(cur["steps"])]
                if still(cand):
                    cur = cand
                else:
                    ei += 1
    if cur.get("mode") == "file":
        # the plainest layout and session that still show it
        for si in range(-1, len(cur.get("steps", []))):
            holder = cur if si < 0 else cur["steps"][si]
            for key, plain in (("spread", None), ("chunks", []), ("open", "stream"), ("end", "with")):
                if key in holder and holder[key] != plain and holder[key] is not None:
                    cand = dict(cur)
                    if si < 0:
                        cand[key] = plain
                    else:
                        cand["steps"] = [dict(st, **{key: plain}) if i == si else st for i, st in enumerate(cur["steps"])]
                    if still(cand):
                        cur = cand
    if cur.get("erecs") and kind.startswith(("file vlrs", "vlr list", "file after an append session, vlrs")):
        cand = dict(cur)
        cand["erecs"] = []
        if still(cand):
            cur = cand
    return cur


def full_json(case):
    return map_recs(case, lambda recs: [[hx(u), r, hx(d), hx(p), t] for u, r, d, p, t in recs])


def replay(ctx, data):
    fi = data.get("failing_input") or {}
    inp = fi.get("input")
    if not inp or "recs" not in inp:
        print("nothing to replay")
        return 0

    case = map_recs(inp, lambda recs: [(common.unhex(u), r, common.unhex(d), common.unhex(p), t) for u, r, d, p, t in recs])
    found = oracle(case, run_case(case))
    want = fi.get("kind", "").replace("non-ASCII text: ", "")
    hit = [w for k, w in found if k == want] or [w for k, w in found if not k.startswith(FINDING_PREFIXES)]
    if hit:
        print("REPRODUCED: " + hit[0])
        return 1
    print("not reproduced")
    return 0
